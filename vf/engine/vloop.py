"""Hand-stepped asyncio event loop with gates (DESIGN.md 1.3).

The loop never blocks and never looks at a selector or a clock: the explorer
pops ready handles itself and decides which *gate* (an external completion) is
released next.  The library's own Tasks, Futures, gather, wait, Queue and Event
run unmodified on top of it.
"""

from __future__ import annotations

import asyncio
import sys
from asyncio import events


_exits = 0


class Hang(Exception):
    """No ready handle, no open gate, main task not done."""


class Livelock(Exception):
    """Step horizon exceeded."""


class VLoop(asyncio.BaseEventLoop):
    HORIZON = 20000

    def __init__(self):
        super().__init__()
        self._vt = 0.0
        self.errs = []
        self.steps = 0
        self.set_exception_handler(self._on_exc)

    def _on_exc(self, loop, ctx):
        exc = ctx.get("exception")
        self.errs.append((ctx.get("message"), type(exc).__name__ if exc else None))

    def time(self):
        return self._vt

    def _process_events(self, ev):  # pragma: no cover - never called
        pass

    def _write_to_self(self):
        pass

    def ready(self):
        return len(self._ready)

    def step(self):
        h = self._ready.popleft()
        if not h._cancelled:
            h._run()
        self.steps += 1
        if self.steps > self.HORIZON:
            raise Livelock(f"more than {self.HORIZON} handles in one execution")

    def drain(self):
        # timers (call_later / sleep) fire as soon as nothing else is ready:
        # virtual time jumps to the earliest timer
        while True:
            while self._ready:
                self.step()
            if self._scheduled:
                import heapq

                h = heapq.heappop(self._scheduled)
                h._scheduled = False
                if h._cancelled:
                    continue
                self._vt = max(self._vt, h._when)
                self._ready.append(h)
                continue
            break


class Gate:
    __slots__ = ("label", "fut", "outcome", "kind", "seq")

    def __init__(self, label, fut, outcome, kind, seq):
        self.label = label
        self.fut = fut
        self.outcome = outcome  # ('ok', value) | ('err', exc)
        self.kind = kind
        self.seq = seq

    @property
    def open(self):
        return not self.fut.done()

    def release(self, override=None):
        kind, val = override if override is not None else self.outcome
        if kind == "ok":
            self.fut.set_result(val)
        else:
            self.fut.set_exception(val)


def _drop_report(loop, ctx):
    pass


class World:
    """One execution's loop + gates.  Use as a context manager."""

    def __init__(self):
        self.loop = VLoop()
        self.gates = []
        self.log = []  # harness event log
        self.agens = []
        self._old_hooks = None

    def __enter__(self):
        events._set_running_loop(self.loop)
        self._old_hooks = sys.get_asyncgen_hooks()
        sys.set_asyncgen_hooks(firstiter=self._firstiter, finalizer=self._finalizer)
        return self

    def _firstiter(self, agen):
        self.agens.append(agen)

    def _finalizer(self, agen):
        # what BaseEventLoop does: schedule aclose (generators finalised after the execution are dropped)
        if self.loop.is_closed():
            return
        self.loop.call_soon(self.loop.create_task, agen.aclose())

    def __exit__(self, *a):
        loop = self.loop
        try:
            for _ in range(5):
                pend = [t for t in asyncio.all_tasks(loop) if not t.done()]
                if not pend and not loop._ready:
                    break
                for t in pend:
                    t.cancel()
                try:
                    loop.steps = 0
                    loop.drain()
                except BaseException:
                    break
            for g in self.gates:
                if not g.fut.done():
                    g.fut.cancel()
        finally:
            sys.set_asyncgen_hooks(*self._old_hooks)
            events._set_running_loop(None)
            loop.close()
            # break reference cycles (loop <-> handler, gates <-> futures) and collect the rest now and then:
            # garbage that reaches the oldest generation is otherwise only reclaimed very rarely
            # (reports that arrive after the execution - GC-timed "exception was never retrieved" - are outside every oracle)
            loop.set_exception_handler(_drop_report)
            self.agens.clear()
            global _exits
            _exits += 1
            if _exits % 400 == 0:
                import gc

                gc.collect()
        return False

    def gate(self, label, value=None, error=None, kind="res"):
        f = self.loop.create_future()
        g = Gate(label, f, ("err", error) if error is not None else ("ok", value), kind, len(self.gates))
        self.gates.append(g)
        return f

    def open_gates(self, kinds=None):
        return [g for g in self.gates if not g.fut.done() and (kinds is None or g.kind in kinds)]

    def task(self, coro):
        return self.loop.create_task(coro)

    def drain(self):
        self.loop.drain()

    def pending_tasks(self, exclude=()):
        return [t for t in asyncio.all_tasks(self.loop) if not t.done() and t not in exclude]


def task_names(tasks):
    out = []
    for t in tasks:
        c = t.get_coro()
        out.append(getattr(c, "__qualname__", repr(c)))
    return sorted(out)
