"""Deviation-bounded, stateless choice-tree explorer (DESIGN.md 1.2).

A *scenario* is a function ``scenario(chooser) -> observation`` whose only
source of variation is ``chooser.choose(n, label, cost)``.  ``explore`` runs it
once per leaf of the choice tree that is reachable with at most ``bound``
units of deviation cost; choice 0 is always the default and free, a non-default
choice costs ``cost`` (0 = free: the choice point is a plain product dimension
and is enumerated completely, 1 = a deviation in the CHESS sense).

Replays are checked: when a prefix is replayed the scenario must offer the same
number of alternatives under the same label at every replayed point, otherwise
``Nondeterminism`` is raised (an engine error, never a property violation).
"""

from __future__ import annotations


class Nondeterminism(Exception):
    """The scenario did not reproduce a recorded prefix."""


class Chooser:
    __slots__ = ("prefix", "trace", "expect")

    def __init__(self, prefix=(), expect=None):
        self.prefix = prefix
        self.trace = []  # (choice, n, label, cost)
        self.expect = expect  # optional [(n, label)] recorded when prefix was made

    def choose(self, n, label="", cost=1):
        if n <= 0:
            raise ValueError(f"choose() with n={n} at {label}")
        i = len(self.trace)
        if i < len(self.prefix):
            c = self.prefix[i]
            if c >= n:
                raise Nondeterminism(
                    f"replay point {i} ({label}): recorded choice {c} but only {n} alternatives"
                )
            if self.expect is not None and i < len(self.expect):
                en, el = self.expect[i]
                if en != n or el != label:
                    raise Nondeterminism(
                        f"replay point {i}: recorded ({en},{el!r}) now ({n},{label!r})"
                    )
        else:
            c = 0
        self.trace.append((c, n, label, cost))
        return c

    def pick(self, seq, label="", cost=1):
        return seq[self.choose(len(seq), label, cost)]

    def flag(self, label="", cost=1):
        return bool(self.choose(2, label, cost))

    @property
    def choices(self):
        return tuple(t[0] for t in self.trace)

    @property
    def deviations(self):
        return sum(t[3] for t in self.trace if t[0])


class Stats:
    __slots__ = ("executions", "states", "transitions", "max_depth", "pruned")

    def __init__(self):
        self.executions = 0
        self.states = 0
        self.transitions = 0
        self.max_depth = 0
        self.pruned = 0

    def add(self, other):
        self.executions += other.executions
        self.states += other.states
        self.transitions += other.transitions
        self.max_depth = max(self.max_depth, other.max_depth)
        self.pruned += other.pruned

    def as_dict(self):
        return {k: getattr(self, k) for k in self.__slots__}


def explore(scenario, bound, visit, stats=None, root=(), max_executions=None):
    """Run ``scenario`` on every choice sequence with deviation cost <= bound.

    ``visit(chooser, observation)`` is called for every completed execution.
    ``root`` is a forced prefix (used for sharding: the subtree under it).
    Returns Stats.  ``max_executions`` is a hard cap; hitting it sets
    stats.pruned > 0 so callers can report ``exhaustive: false``.
    """
    st = stats if stats is not None else Stats()
    stack = [(tuple(root), None)]
    first = True
    while stack:
        prefix, expect = stack.pop()
        if max_executions is not None and st.executions >= max_executions:
            st.pruned += 1 + len(stack)
            break
        ch = Chooser(prefix, expect)
        obs = scenario(ch)
        tr = ch.trace
        if len(tr) < len(prefix):
            raise Nondeterminism(
                f"prefix of length {len(prefix)} but execution only made {len(tr)} choices"
            )
        st.executions += 1
        new_from = 0 if first else len(prefix)
        st.states += (len(tr) - new_from) + (1 if first else 0)
        st.transitions += len(tr)
        if len(tr) > st.max_depth:
            st.max_depth = len(tr)
        first = False
        visit(ch, obs)
        # branch on every choice point after the prefix
        dev = 0
        devs = []
        for c, n, _l, cost in tr:
            devs.append(dev)
            if c:
                dev += cost
        exp = [(n, l) for _c, n, l, _cost in tr]
        base = [t[0] for t in tr]
        for i in range(len(tr) - 1, len(prefix) - 1, -1):
            c, n, _l, cost = tr[i]
            if n <= 1:
                continue
            if cost and devs[i] + cost > bound:
                continue
            head = tuple(base[:i])
            for alt in range(n - 1, 0, -1):
                stack.append((head + (alt,), exp[: i + 1]))
    return st


def run_once(scenario, choices):
    """Replay exactly one choice sequence (no exploration)."""
    ch = Chooser(tuple(choices))
    obs = scenario(ch)
    return ch, obs
