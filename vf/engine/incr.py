"""Shared scenario for incremental delivery (C04, C05 end-to-end, C06).

One execution = one request run through experimental_execute_incrementally on
the hand-stepped loop, with a consumer that pulls through gates.  The explorer
chooses, at quiescence, which open gate completes next (all completion orders,
the consumer's pull included), optionally one early release per loop iteration
(bounded deviation) and - for C06 - one *stop action* at any choice point.
"""

from __future__ import annotations

import gc
import json

from vf.engine.vloop import Hang, Livelock, World, task_names

SDL = """
directive @defer(if: Boolean! = true, label: String) on FRAGMENT_SPREAD | INLINE_FRAGMENT
directive @stream(if: Boolean! = true, label: String, initialCount: Int! = 0) on FIELD
directive @experimental_disableErrorPropagation on QUERY | MUTATION | SUBSCRIPTION
interface Being { id: ID friends: [User] }
type User implements Being { id: ID name: String nn: String! friends: [User] nnFriends: [User!] best: User tags: [String] }
type Robot implements Being { id: ID friends: [User] model: String }
type Query { me: User other: User users: [User] beings: [Being] boom: String! }
"""


class Boom(Exception):
    pass


def gparse(text):
    """Requests may use fragment arguments (experimental): the grammar with the flag is a superset."""
    from graphql import parse

    return parse(text, experimental_fragment_arguments=True)


def make_schema():
    from graphql import build_schema

    return build_schema(SDL)


def users(fault=None):
    """Plain data (no gates).  fault: None | 'name_raise' | 'nn_null' | 'friend_nn_null' | 'friends_null' | 'best_raise' | 'tags_item'."""
    def boom(path, args):
        raise Boom("resolver failed")

    u3 = {"__typename": "User", "id": "3", "name": "N3", "nn": "x3", "friends": [], "nnFriends": [], "best": None, "tags": ["t"]}
    u2 = {"__typename": "User", "id": "2", "name": "N2", "nn": ("x2" if fault != "friend_nn_null" else None), "friends": [u3], "nnFriends": [u3], "best": u3, "tags": ["a", "b"]}
    u1 = {"__typename": "User", "id": "1", "name": (boom if fault == "name_raise" else "N1"), "nn": (None if fault == "nn_null" else boom if fault == "nn_raise" else "x1"),
          "friends": (None if fault == "friends_null" else [u2, u3, u2]), "nnFriends": [u2, u3], "best": (boom if fault == "best_raise" else u2),
          "tags": ["p", "q", "r"]}
    r1 = {"__typename": "Robot", "id": "r1", "friends": [u2, u3], "model": "m1"}
    root = {"me": u1, "other": u2, "users": [u1, u2, u3], "beings": [u1, r1, u2], "boom": boom}
    return root, {"u1": u1, "u2": u2, "u3": u3, "r1": r1, "root": root}


FAULTS = [None, "name_raise", "nn_null", "friend_nn_null", "friends_null", "best_raise", "nn_raise"]


def gate_sites(world, objs, sites, closes):
    """Make chosen sites awaitable.  site: 'u1.name' value through a gate; 'u1.friends:agen' list served by an
    async generator whose steps are gates; 'u1.friends:items' every item its own gate; 'u1.friends:gen' sync generator;
    'u1.friends:agen!k' the async generator raises instead of yielding item k."""
    for site in sites:
        key, _, how = site.partition(":")
        oname, fname = key.split(".")
        d = objs[oname]
        orig = d[fname]
        if how == "":
            d[fname] = (lambda orig, key=key: lambda path, args: world.gate(key + "@" + ".".join(map(str, path)), orig(path, args) if callable(orig) else orig))(orig)
        elif how == "err":
            d[fname] = (lambda key=key: lambda path, args: world.gate(key + "!@" + ".".join(map(str, path)), error=Boom(f"{key} failed")))()
        elif how == "items":
            if isinstance(orig, list):
                d[fname] = (lambda orig, key=key: lambda path, args: [world.gate(f"{key}[{i}]", x) for i, x in enumerate(orig)])(orig)
        elif how == "gen":
            if isinstance(orig, list):
                def mkg(orig, key=key):
                    def fn(path, args):
                        def gen():
                            try:
                                yield from orig
                            finally:
                                closes.append(("gen", key))
                        return gen()
                    return fn
                d[fname] = mkg(orig)
        elif how.startswith("agen"):
            fail_at = int(how.split("!")[1]) if "!" in how else None
            if isinstance(orig, list):
                def mk(orig, key=key, fail_at=fail_at):
                    def fn(path, args):
                        async def gen():
                            closes.append(("started", key))
                            try:
                                for i, x in enumerate(orig):
                                    v = await world.gate(f"{key}#{i}", x, kind="src")
                                    if fail_at == i:
                                        raise Boom(f"source {key} failed at {i}")
                                    yield v
                                await world.gate(f"{key}#end", None, kind="src")
                            finally:
                                closes.append(("closed", key))
                        g = gen()
                        # keep the generator alive: garbage collection must not close it on the library's behalf
                        world.gates_keepalive = getattr(world, "gates_keepalive", [])
                        world.gates_keepalive.append(g)
                        return g
                    return fn
                d[fname] = mk(orig)
        elif how == "aiter":
            # custom async iterator with an aclose() that counts
            if isinstance(orig, list):
                def mk2(orig, key=key):
                    counter = [0]

                    def fn(path, args):
                        # one log key per iterator object: two streams over the same field value are two sources
                        inst = f"{key}" + ("" if not counter[0] else f"~{counter[0]}")
                        counter[0] += 1

                        class It:
                            def __init__(self):
                                self.i = 0

                            def __aiter__(self):
                                return self

                            async def __anext__(self):
                                i = self.i
                                self.i += 1
                                if i == 0:
                                    closes.append(("started", inst))
                                if i >= len(orig):
                                    await world.gate(f"{key}#end", None, kind="src")
                                    closes.append(("finished", inst))
                                    raise StopAsyncIteration
                                return await world.gate(f"{key}#{i}", orig[i], kind="src")

                            async def aclose(self):
                                closes.append(("closed", inst))
                        return It()
                    return fn
                d[fname] = mk2(orig)


        elif how == "aiterable":
            # an AsyncIterable that is not its own iterator: every __aiter__() hands out a new iterator object, which alone has aclose()
            if isinstance(orig, list):
                def mk3(orig, key=key):
                    def fn(path, args):
                        class Iter:
                            def __init__(self, n):
                                self.i = 0
                                self.n = n

                            def __aiter__(self):
                                return self

                            async def __anext__(self):
                                i = self.i
                                self.i += 1
                                if i == 0:
                                    closes.append(("started", key))
                                if i >= len(orig):
                                    await world.gate(f"{key}#end{self.n or ''}", None, kind="src")
                                    closes.append(("finished", key))
                                    raise StopAsyncIteration
                                return await world.gate(f"{key}#{i}{'/' + str(self.n) if self.n else ''}", orig[i], kind="src")

                            async def aclose(self):
                                closes.append(("closed", key))

                        class Iterable:
                            def __init__(self):
                                self.n = 0

                            def __aiter__(self):
                                it = Iter(self.n)
                                self.n += 1
                                return it
                        return Iterable()
                    return fn
                d[fname] = mk3(orig)


def resolver(calls=None, on_call=None):
    def resolve(src, info, **args):
        if on_call is not None:
            on_call(info)
        v = src.get(info.field_name) if isinstance(src, dict) else None
        if callable(v):
            v = v(info.path.as_list(), args)
        return v
    return resolve


class Obs:
    __slots__ = ("payloads", "trace", "status", "left", "open_left", "closes", "hook", "errs", "result_kind", "exc",
                 "stopped", "stop_label", "late_payloads", "pulls_after_stop")


def run(c, schema, doc, sites, fault, early, *, early_bound=True, variables=None, stop=None, abort_reason=None, max_pull_after_stop=12,
        settle_after=False, data=None, sync_stops=False, step_stops=False):
    """stop: None or one of 'aclose' | 'abort' - the explorer may insert it at any choice point (cost 0; exactly one).
    sync_stops (abort only): the abort may also fire before the executor is called and from inside any resolver call, i.e. during the
    synchronous stretches of the execution where the loop offers no choice point."""
    from graphql import ExecutionResult
    from graphql.execution import AbortedGraphQLExecutionError, ExecutionHooks, experimental_execute_incrementally
    from graphql.pyutils import AbortController

    obs = Obs()
    obs.payloads = []
    obs.trace = []
    obs.closes = []
    obs.hook = []
    obs.stopped = False
    obs.stop_label = None
    obs.exc = None
    obs.result_kind = None
    obs.pulls_after_stop = 0
    root, objs = data(fault) if data is not None else users(fault)
    with World() as w:
        gate_sites(w, objs, sites, obs.closes)
        ctl = AbortController() if stop == "abort" else None
        if ctl is None and any(s.endswith(":aiterable") for s in sites):
            # a signal that never fires: the library wraps source iterators only when an abort signal is passed
            ctl = AbortController()
        state = {"it": None, "closing": False}

        def on_finished(info):
            ex = info.executor
            # tasks that are still running and have not even been asked to cancel
            pend = task_names([t for t in w.pending_tasks() if t is not main_task and t is not w_current() and not t.cancelling()])
            # the abort-signal watcher is the library's own helper (cancelled right after the race it serves), not work
            pend = [p for p in pend if p != "AbortSignal.wait"]
            obs.hook.append((sum(1 for f in ex.background_futures if not f.done()),
                             sum(1 for f in ex.pending_incremental_futures if not f.done()), pend))

        def w_current():
            import asyncio

            try:
                return asyncio.current_task(w.loop)
            except RuntimeError:
                return None

        def on_call(info):
            if obs.stopped:
                return
            if c.choose(2, "abort_in_resolver", cost=0):
                obs.stopped = True
                obs.stop_label = "abort_in_resolver"
                obs.trace.append("STOP:abort(in resolver %s)" % ".".join(map(str, info.path.as_list())))
                ctl.abort(abort_reason)

        async def main():
            kw = {}
            if ctl is not None:
                kw["abort_signal"] = ctl.signal
            if sync_stops and stop == "abort" and c.choose(2, "abort_before_execute", cost=0):
                obs.stopped = True
                obs.stop_label = "abort_before_execute"
                obs.trace.append("STOP:abort(before execute)")
                ctl.abort(abort_reason)
            r = None
            try:
                r = experimental_execute_incrementally(schema, doc, root, variable_values=variables,
                                                       field_resolver=resolver(on_call=on_call if (sync_stops and stop == "abort") else None),
                                                       enable_early_execution=early, hooks=ExecutionHooks(async_work_finished=on_finished), **kw)
            except AbortedGraphQLExecutionError as aborted:
                # raised synchronously: the abort fired during the synchronous part of the execution
                obs.trace.append("caller:aborted(sync)")
                obs.exc = aborted
                ar = aborted.aborted_result
                if hasattr(ar, "__await__"):
                    try:
                        ar = await ar
                    except Exception:  # noqa: BLE001
                        ar = None
                sub = getattr(ar, "subsequent_results", None)
                if sub is not None:
                    try:
                        await sub.__anext__()
                    except (Exception, StopAsyncIteration):  # noqa: BLE001
                        pass
                    await sub.aclose()
                raise
            if hasattr(r, "__await__"):
                try:
                    r = await r
                except AbortedGraphQLExecutionError as aborted:
                    # the caller is released here; the partial result the library exposes on the error belongs to the
                    # caller, who has to consume or close it (that is how the library's own tests finish the work)
                    obs.trace.append("caller:aborted")
                    obs.exc = aborted
                    ar = aborted.aborted_result
                    if hasattr(ar, "__await__"):
                        try:
                            ar = await ar
                        except Exception:  # noqa: BLE001
                            ar = None
                    sub = getattr(ar, "subsequent_results", None)
                    if sub is not None:
                        try:
                            await sub.__anext__()
                        except (Exception, StopAsyncIteration):  # noqa: BLE001
                            pass
                        await sub.aclose()
                    raise
            if isinstance(r, ExecutionResult):
                obs.result_kind = "single"
                obs.payloads.append(r.formatted)
                return
            obs.result_kind = "incremental"
            obs.payloads.append(r.initial_result.formatted)
            it = r.subsequent_results
            state["it"] = it
            while True:
                act = await w.gate("pull", None, kind="pull")
                if act == "close":
                    await it.aclose()
                    obs.trace.append("closed")
                    return
                try:
                    p = await it.__anext__()
                except StopAsyncIteration:
                    return
                obs.payloads.append(p.formatted)

        main_task = w.task(main())
        status = "done"

        def stop_choices(og):
            """Stop actions offered at this point."""
            if stop is None or obs.stopped:
                return []
            if stop == "abort":
                return ["abort"]
            # aclose: only through the consumer (a pull gate must be open, or the stream not yet started)
            if any(g.kind == "pull" for g in og):
                return ["aclose"]
            return []

        def do_stop(kind, og):
            obs.stopped = True
            obs.stop_label = f"{kind}@{len(obs.trace)}:{'pulled' + str(len(obs.payloads))}"
            obs.trace.append("STOP:" + kind)
            if kind == "abort":
                ctl.abort(abort_reason)
            else:
                g = next(g for g in og if g.kind == "pull")
                g.release(("ok", "close"))

        try:
            while not main_task.done():
                while w.loop.ready() and not main_task.done():
                    og = w.open_gates()
                    if early_bound and og and not obs.stopped:
                        k = c.choose(1 + len(og), "early", cost=1)
                        if k:
                            obs.trace.append("early:" + og[k - 1].label)
                            og[k - 1].release()
                    if step_stops and not obs.stopped and stop == "abort" and c.choose(2, "abort_between_handles", cost=0):
                        # the signal fires from some other callback of the application between two handles of this execution
                        do_stop("abort", og)
                        obs.stop_label = "abort_between_handles"
                    w.loop.step()
                if main_task.done():
                    break
                og = w.open_gates()
                if obs.stopped:
                    # after the stop only the consumer's own pulls go on
                    og = [g for g in og if g.kind == "pull"]
                    if not og:
                        raise Hang("stopped: caller still waiting, nothing it could pull")
                    obs.pulls_after_stop += 1
                    if obs.pulls_after_stop > max_pull_after_stop:
                        raise Hang("stopped: consumer keeps receiving payloads")
                    obs.trace.append("pull*")
                    og[0].release()
                    continue
                stops = stop_choices(og)
                if not og and not stops:
                    raise Hang("no ready handle, no open gate, consumer not finished")
                k = c.choose(len(og) + len(stops), "release", cost=0)
                if k >= len(og):
                    do_stop(stops[k - len(og)], og)
                else:
                    obs.trace.append(og[k].label)
                    og[k].release()
            w.drain()
            if main_task.cancelled():
                status = "cancelled"
            elif main_task.exception() is not None:
                status = "raised"
                obs.exc = main_task.exception()
        except (Hang, Livelock) as e:
            status = "hang:" + str(e)
        # quiescence: drain without releasing anything else
        try:
            w.drain()
            if settle_after:
                # the outside world completes what it had started (the caller has been judged already)
                for _ in range(40):
                    og = [g for g in w.open_gates() if g.kind != "pull"]
                    if not og:
                        break
                    obs.trace.append("late:" + og[0].label)
                    og[0].release()
                    w.drain()
            gc.collect(1)
            w.drain()
        except Livelock as e:
            status = "hang:" + str(e)
        obs.status = status
        obs.left = task_names(w.pending_tasks(exclude=(main_task,)))
        obs.open_left = [(g.label, g.kind, g.fut.cancelled()) for g in w.gates if g.kind != "pull" and (not g.fut.done() or g.fut.cancelled())]
        obs.errs = list(w.loop.errs)
    return obs


def strip_incremental(text):
    """The same operation with every @defer / @stream removed (equivalent to if: false)."""
    import re

    return re.sub(r"@(defer|stream)(\([^)]*\))?", "", text)


def dumps(x):
    return json.dumps(x, default=repr)
