/* Arena allocator for CPython that recycles 16 KiB blocks.
 *
 * CPython 3.12 allocates every "data stack chunk" (interpreter frames) with the arena allocator - one
 * mmap()/munmap() pair each time the call depth crosses a chunk boundary.  In this sandbox (a micro-VM) mmap/munmap
 * of fresh memory is serialised across processes (measured: 37 us alone, ~500 us with 8 processes), which made the
 * 16-worker checks kernel-bound.  Blocks of that size are kept on a small free list instead; every other size goes
 * to mmap/munmap exactly as CPython's default arena allocator does.  Pure performance: no effect on semantics.
 */
#include <stddef.h>
#include <sys/mman.h>

#define BLOCK 16384
#define KEEP 256

static void *cache[KEEP];
static int ncache = 0;

void *vf_arena_alloc(void *ctx, size_t size)
{
    (void)ctx;
    if (size == BLOCK && ncache > 0)
        return cache[--ncache];
    void *p = mmap(NULL, size, PROT_READ | PROT_WRITE, MAP_PRIVATE | MAP_ANONYMOUS, -1, 0);
    return p == MAP_FAILED ? NULL : p;
}

void vf_arena_free(void *ctx, void *ptr, size_t size)
{
    (void)ctx;
    if (size == BLOCK && ncache < KEEP) {
        cache[ncache++] = ptr;
        return;
    }
    munmap(ptr, size);
}
