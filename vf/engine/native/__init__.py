"""Optional native helper: a recycling arena allocator for the interpreter (see arena.c).  Best effort: if the
compiler is missing or anything fails the checks run unchanged, only slower."""

from __future__ import annotations

import ctypes
import os
import subprocess
import sys
import tempfile

_installed = False
_keep = []


def install():
    global _installed
    if _installed or os.environ.get("VERIF_NO_NATIVE"):
        return False
    if sys.implementation.name != "cpython" or not sys.platform.startswith("linux"):
        return False
    try:
        here = os.path.dirname(os.path.abspath(__file__))
        src = os.path.join(here, "arena.c")
        outdir = os.path.join(tempfile.gettempdir(), f"vf-native-{os.getuid()}")
        os.makedirs(outdir, exist_ok=True)
        so = os.path.join(outdir, f"arena-{int(os.path.getmtime(src))}.so")
        if not os.path.exists(so):
            tmp = so + f".{os.getpid()}.tmp"
            subprocess.run(["gcc", "-O2", "-shared", "-fPIC", "-o", tmp, src], check=True, capture_output=True, timeout=60)
            os.replace(tmp, so)
        lib = ctypes.CDLL(so)

        class Allocator(ctypes.Structure):
            _fields_ = [("ctx", ctypes.c_void_p), ("alloc", ctypes.c_void_p), ("free", ctypes.c_void_p)]

        a = Allocator(None, ctypes.cast(lib.vf_arena_alloc, ctypes.c_void_p), ctypes.cast(lib.vf_arena_free, ctypes.c_void_p))
        _keep.extend([lib, a])
        ctypes.pythonapi.PyObject_SetArenaAllocator.argtypes = [ctypes.POINTER(Allocator)]
        ctypes.pythonapi.PyObject_SetArenaAllocator.restype = None
        ctypes.pythonapi.PyObject_SetArenaAllocator(ctypes.byref(a))
        _installed = True
        return True
    except Exception:  # noqa: BLE001
        return False
