"""Check runner: shards a check over worker processes, merges counters,
matches violations against the known-findings file, writes replay files and
the evidence file, prints VIOLATION / KNOWN-FINDING lines.

A check module (vf/checks/cNN.py) provides

    ID, TITLE, RULE, ASSUMPTIONS
    shards(tier)              -> list of picklable shard descriptors
    run_shard(shard, tier)    -> Result  (see Result below)
    replay(payload)           -> list of violation dicts (empty = holds)

``exhaustive`` in the evidence is True iff every shard reports it enumerated
its space completely (no cap hit).
"""

from __future__ import annotations

import hashlib
import importlib
import json
import multiprocessing as mp
import os
import sys
import time
import traceback

VERIF = os.path.dirname(os.path.dirname(os.path.dirname(os.path.abspath(__file__))))
# mutation demonstrations redirect their artefacts so that they never overwrite the committed evidence
EVIDENCE_DIR = os.environ.get("VERIF_EVIDENCE_DIR") or os.path.join(VERIF, "evidence")
REPLAY_DIR = os.environ.get("VERIF_REPLAY_DIR") or os.path.join(VERIF, "replays")
KNOWN = os.path.join(VERIF, "known_findings.json")


def h64(obj):
    if not isinstance(obj, (bytes, str)):
        obj = repr(obj)
    if isinstance(obj, str):
        obj = obj.encode("utf-8", "surrogatepass")
    return int.from_bytes(hashlib.blake2b(obj, digest_size=8).digest(), "big")


class Result:
    """Per-shard result, merged by the runner."""

    def __init__(self):
        self.evaluations = 0  # cases judged by an oracle
        self.executions = 0  # runs of implementation code
        self.states = 0
        self.transitions = 0
        self.max_depth = 0
        self.outcomes = set()  # hashes of distinct oracle-relevant observations
        self.samples = []
        self.violations = []  # dicts: signature, summary, replay (json-able)
        self.exhaustive = True
        self.extra = {}  # additive integer counters
        self.notes = []

    # helpers -------------------------------------------------------------
    def outcome(self, obs):
        self.outcomes.add(h64(obs))

    def sample(self, s, limit=3):
        if len(self.samples) < limit:
            self.samples.append(s)

    def violation(self, signature, summary, replay, limit=40):
        if len(self.violations) < limit:
            self.violations.append({"signature": signature, "summary": summary, "replay": replay})
        self.extra["violating_cases"] = self.extra.get("violating_cases", 0) + 1

    def count(self, key, n=1):
        self.extra[key] = self.extra.get(key, 0) + n

    def add_stats(self, st):
        self.executions += st.executions
        self.states += st.states
        self.transitions += st.transitions
        self.max_depth = max(self.max_depth, st.max_depth)
        if st.pruned:
            self.exhaustive = False

    def merge(self, o):
        self.evaluations += o.evaluations
        self.executions += o.executions
        self.states += o.states
        self.transitions += o.transitions
        self.max_depth = max(self.max_depth, o.max_depth)
        self.outcomes |= o.outcomes
        for s in o.samples:
            if len(self.samples) < 8:
                self.samples.append(s)
        self.violations.extend(o.violations)
        self.exhaustive = self.exhaustive and o.exhaustive
        for k, v in o.extra.items():
            self.extra[k] = self.extra.get(k, 0) + v
        self.notes.extend(o.notes)


def _worker(args):
    modname, shard, tier = args
    try:
        # resolvers / visitors deep in library recursion need head-room
        sys.setrecursionlimit(max(sys.getrecursionlimit(), 3000))
        import warnings

        # a task cancelled before its first step drops the coroutines it would have awaited: Python's notice, no oracle reads it
        warnings.filterwarnings("ignore", message="coroutine .* was never awaited", category=RuntimeWarning)
        mod = importlib.import_module(modname)
        t0 = time.time()
        r = mod.run_shard(shard, tier)
        r.extra["_shard_s_max"] = 0
        return ("ok", shard, r, time.time() - t0)
    except BaseException:  # engine error, not a property violation
        return ("crash", shard, traceback.format_exc(), 0.0)


def load_known():
    try:
        with open(KNOWN) as f:
            return json.load(f)
    except FileNotFoundError:
        return {"known": [], "fixed": []}


def jsonable(x):
    try:
        json.dumps(x)
        return x
    except (TypeError, ValueError):
        if isinstance(x, dict):
            return {str(k): jsonable(v) for k, v in x.items()}
        if isinstance(x, (list, tuple, set, frozenset)):
            return [jsonable(v) for v in x]
        return repr(x)


def run_check(modname, tier, seed, jobs=None):
    from vf.engine import native

    native.install()  # performance only (recycles the interpreter's 16 KiB frame-stack blocks; workers inherit it)
    mod = importlib.import_module(modname)
    pid = mod.ID
    t0 = time.time()
    shards = list(mod.shards(tier))
    flt = os.environ.get("VERIF_SHARD_FILTER")  # development aid only (the evidence then says so)
    if flt:
        import re

        shards = [s for s in shards if re.search(flt, repr(s))]
    # the seed only rotates shard order (enumeration is deterministic)
    if shards:
        k = seed % len(shards)
        shards = shards[k:] + shards[:k]
    jobs = jobs or int(os.environ.get("VERIF_JOBS", "0")) or min(16, os.cpu_count() or 1)
    total = Result()
    crashes = []
    slowest = (0.0, None)
    work = [(modname, s, tier) for s in shards]
    if jobs == 1 or len(work) <= 1:
        results = map(_worker, work)
        pool = None
    else:
        ctx = mp.get_context("fork")
        pool = ctx.Pool(min(jobs, len(work)), maxtasksperchild=None)
        results = pool.imap_unordered(_worker, work, chunksize=1)
    try:
        for status, shard, r, dt in results:
            if status == "crash":
                crashes.append((shard, r))
                continue
            total.merge(r)
            if dt > slowest[0]:
                slowest = (dt, shard)
    finally:
        if pool is not None:
            pool.close()
            pool.join()
    wall = time.time() - t0
    total.extra.pop("_shard_s_max", None)

    if crashes:
        for shard, tb in crashes[:3]:
            sys.stderr.write(f"ENGINE-ERROR check={pid} shard={shard!r}\n{tb}\n")
        print(f"ENGINE-ERROR property={pid} shards_crashed={len(crashes)} (not a verdict)")
        return 2

    # ---- findings -------------------------------------------------------
    known = load_known()
    known_sigs = {k["signature"]: k for k in known.get("known", []) if k.get("property") == pid}
    by_sig = {}
    for v in total.violations:
        by_sig.setdefault(v["signature"], []).append(v)
    os.makedirs(REPLAY_DIR, exist_ok=True)
    unlisted = 0
    known_hit = []
    for sig, vs in sorted(by_sig.items()):
        if sig in known_sigs:
            known_hit.append(sig)
            print(f"KNOWN-FINDING: property={pid} {sig} :: {known_sigs[sig].get('what', '')}")
            continue
        unlisted += 1
        v = min(vs, key=lambda v: len(json.dumps(jsonable(v["replay"]))))
        name = f"{pid}-{h64(sig):016x}.json"
        path = os.path.join(REPLAY_DIR, name)
        with open(path, "w") as f:
            json.dump(
                {"property": pid, "signature": sig, "summary": v["summary"], "tier": tier,
                 "cases_with_this_signature": len(vs), "replay": jsonable(v["replay"])},
                f, indent=1, ensure_ascii=True)
        if unlisted <= 12:
            print(f"VIOLATION property={pid} replay={path}")
            print(f"  signature: {sig}")
            print(f"  summary:   {v['summary'][:600]}")

    # ---- evidence -------------------------------------------------------
    n_out = len(total.outcomes)
    cov = {
        "states": total.states,
        "transitions": total.transitions,
        "traces_validated_against_impl": total.executions,
        "evaluations": total.evaluations,
        "distinct_nontrivial": n_out,
        "rule": mod.RULE,
        "samples": jsonable(total.samples) or ["<none>"],
        "exhaustive": bool(total.exhaustive),
        "max_depth": total.max_depth,
        "shards": len(shards),
        "bound_completed": getattr(mod, "BOUNDS", {}).get(tier, tier),
        "vacuous": n_out <= 1,
        "known_findings_hit": known_hit,
        "slowest_shard_s": round(slowest[0], 2),
    }
    for k, v in sorted(total.extra.items()):
        cov[k] = v
    if total.notes:
        cov["notes"] = sorted(set(total.notes))[:20]
    ev = {
        "property_id": pid,
        "tier": tier,
        "seed": seed,
        "level": "model_checking",
        "coverage": cov,
        "assumptions": list(getattr(mod, "ASSUMPTIONS", [])),
        "wall_s": round(wall, 2),
        "violations": unlisted,
    }
    os.makedirs(EVIDENCE_DIR, exist_ok=True)
    tmp = os.path.join(EVIDENCE_DIR, f".{pid}.json.tmp")
    with open(tmp, "w") as f:
        json.dump(ev, f, indent=1, ensure_ascii=True)
    os.replace(tmp, os.path.join(EVIDENCE_DIR, f"{pid}.json"))
    print(
        f"{pid} tier={tier} seed={seed} shards={len(shards)} evaluations={total.evaluations} "
        f"executions={total.executions} states={total.states} transitions={total.transitions} "
        f"distinct_outcomes={n_out} exhaustive={total.exhaustive} violations={unlisted} "
        f"known={len(known_hit)} wall={wall:.1f}s"
    )
    return 1 if unlisted else 0


def run_replay(modname, path):
    mod = importlib.import_module(modname)
    with open(path) as f:
        doc = json.load(f)
    vs = mod.replay(doc["replay"])
    if vs:
        for v in vs:
            print(f"VIOLATION property={mod.ID} replay={path}")
            print(f"  signature: {v['signature']}")
            print(f"  summary:   {v['summary']}")
        return 1
    print(f"{mod.ID} replay {path}: property holds on this case")
    return 0
