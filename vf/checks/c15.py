"""C15  Input coercion and input validation agree on values, literals and variables."""

from __future__ import annotations

import itertools
import json

from vf.engine.runner import Result
from vf.gen import values as V
from vf.ref import coerce as refc
from vf.ref import inputs as refin

ID = "C15"
TITLE = "Input coercion and input validation agree on values, literals and variables"
BOUNDS = {
    "quick": "110 types (every wrapper stack of depth <=3 over 10 bases) x {219 menu values + all lists of <=2 of 38 core values; "
             "object bases: every dict over subsets of (3 declared keys + unknown key) with 9 values per key (5 under wrappers of "
             "depth >=2); ~460 const literals (35 atoms, lists <=2 of 19 items); object bases: every object literal of <=2 fields "
             "over (declared + unknown) keys x 11 values incl. duplicates/permutations and 3 fields x 3 values (depth >=2 wrappers: "
             "<=2 fields x 3 values), wrapped in lists; every variable position of the template literals x {absent, null, valid, "
             "defaulted} x {no fragment scope, fragment declares the variable itself: absent / null / valid}; get_variable_values: 4 defaults x (absent + menu values + one-shot iterators)}; non-dict mappings (7 kinds) in every object position; one default object shared by 5 wrappings x all 120 application orders",
    "thorough": "quick at full width under every wrapper, with 16 values per dict key, 3-field object literals x 5 values, lists of "
                "<=2 over the full 219-value menu for the depth <=1 wrappers",
}
RULE = (
    "exhaustive type x value / type x literal product; oracles: coerce_input_value is Undefined <=> validate_input_value "
    "reports errors (same for coerce_input_literal / validate_input_literal, statically and with variable values), none raises; "
    "a coerced result conforms to the type (ref/coerce.conforms) and - for JSON-like values and const literals - equals the "
    "reference coercion (ref/inputs.py, ref/coerce.py); value_to_literal of an accepted value prints, re-parses and coerces to "
    "the same result; ValuesOfCorrectTypeRule accepts '{ f(a: LIT) }' <=> coercion of LIT succeeds; get_variable_values gives "
    "errors or a map containing every provided/defaulted variable with the coerced value. "
    "distinct = distinct (type, value/literal class, accepted/rejected, result) observations"
)
ASSUMPTIONS = [
    "Undefined follows the library's convention: a dict key with value Undefined is absent, Undefined as a value is null",
    "comparison with the reference is restricted to JSON-like values (None/bool/int/float/str/list/tuple/dict); for other "
    "Python values (sets, ranges, bytes, objects) only the coercion <=> validation agreement, conformance and the literal "
    "round trip are checked",
    "Float accepts an int only if it is exactly representable as a double (property text: no silent precision loss)",
    "a coerced String/ID may be an instance of a str subclass passed in by the caller (compared as text)",
    "a variable used directly as the whole literal with no runtime value yields Undefined = 'no value' without a "
    "validation error when the position is nullable (callers omit the argument); not counted as disagreement",
    "literals embedding variables inside the identity custom scalar are checked for agreement/totality only",
    "internal enum values range over ordinary Python values, not the Undefined sentinel",
    "the literal round trip for the identity custom scalar is checked for JSON-like finite values only",
]

BASES = ["Int", "Float", "String", "Boolean", "ID", "Color", "Any", "Point", "Rec", "One"]
OBJECT_BASES = ["Point", "Rec", "One"]
WRAPS = ["{}", "{}!", "[{}]", "[{}]!", "[{}!]", "[[{}]]", "[{}!]!", "[[{}]]!", "[[{}!]]", "[[{}]!]", "[[[{}]]]"]
UNKNOWN = "zz"


def type_strings():
    return [w.format(b) for b in BASES for w in WRAPS]


def base_of(ts):
    return ts.strip("[]!")


# --------------------------------------------------------------------------------
# environment: schema with one Query field per type
# --------------------------------------------------------------------------------


class Env:
    def __init__(self):
        import graphql as g
        from graphql.language import parse_const_value

        DI = g.GraphQLDefaultInput
        IF = g.GraphQLInputField
        color = g.GraphQLEnumType("Color", {"RED": "r", "GREEN": 2})
        any_ = g.GraphQLScalarType("Any")
        inner = g.GraphQLInputObjectType("Inner", {
            "a": IF(g.GraphQLNonNull(g.GraphQLBoolean), default=DI(value=True)),
            "c": IF(color, default=DI(literal=parse_const_value("RED"))),
        })
        point = g.GraphQLInputObjectType("Point", lambda: {
            "x": IF(g.GraphQLNonNull(g.GraphQLInt)),
            "y": IF(g.GraphQLInt, default=DI(value=0)),
            "inner": IF(inner, default=DI(literal=parse_const_value("{c: GREEN}"))),
        })
        rec = g.GraphQLInputObjectType("Rec", lambda: {
            "v": IF(g.GraphQLInt),
            "next": IF(rec),
            "list": IF(g.GraphQLList(g.GraphQLNonNull(rec)), default=DI(value=[])),
        })
        one = g.GraphQLInputObjectType("One", {
            "a": IF(g.GraphQLString),
            "b": IF(g.GraphQLInt, out_name="b_out"),
            "p": IF(inner),
        }, is_one_of=True)
        named = {"Int": g.GraphQLInt, "Float": g.GraphQLFloat, "String": g.GraphQLString, "Boolean": g.GraphQLBoolean,
                 "ID": g.GraphQLID, "Color": color, "Any": any_, "Point": point, "Rec": rec, "One": one, "Inner": inner}
        self.named = named
        self.types = {}
        self.field = {}
        fields = {}
        for i, ts in enumerate(type_strings()):
            t = self.make(ts)
            self.types[ts] = t
            self.field[ts] = f"f{i}"
            fields[f"f{i}"] = g.GraphQLField(g.GraphQLInt, args={"a": g.GraphQLArgument(t)})
        self.schema = g.GraphQLSchema(g.GraphQLObjectType("Query", fields), types=list(named.values()))
        self._nodes = {}
        self._docs = {}

    def make(self, ts):
        import graphql as g

        if ts.endswith("!"):
            return g.GraphQLNonNull(self.make(ts[:-1]))
        if ts.startswith("["):
            return g.GraphQLList(self.make(ts[1:-1]))
        return self.named[ts]

    def node(self, text):
        from graphql.language import parse_value

        n = self._nodes.get(text)
        if n is None:
            n = self._nodes[text] = parse_value(text)
        return n


_ENV = None


def env():
    global _ENV
    if _ENV is None:
        _ENV = Env()
    return _ENV


# --------------------------------------------------------------------------------
# values: descriptors (JSON-able) -> Python values
# --------------------------------------------------------------------------------

_MENU = None


def menu_value(label):
    global _MENU
    if _MENU is None:
        _MENU = dict(V.menu())
    return _MENU[label]


def build_value(desc):
    if isinstance(desc, str):
        return menu_value(desc)
    if desc[0] == "L":
        return [build_value(d) for d in desc[1:]]
    if desc[0] == "D":
        return {k: build_value(d) for k, d in desc[1:]}
    if desc[0] == "I":
        return iter([build_value(d) for d in desc[1:]])  # a one-shot iterator (an Iterable that can be traversed only once)
    if desc[0] == "M":
        # a mapping that is not a plain dict: ["M", kind, [key, desc] ...]
        content = {k: build_value(d) for k, d in desc[2:]}
        return MAPPING_KINDS[desc[1]](content)
    raise ValueError(desc)


def _mapping_kinds():
    import collections
    import types

    class FrozenMap(collections.abc.Mapping):
        def __init__(self, d):
            self._d = dict(d)

        def __getitem__(self, k):
            return self._d[k]

        def __iter__(self):
            return iter(self._d)

        def __len__(self):
            return len(self._d)

        def __repr__(self):
            return f"FrozenMap({self._d!r})"

    class DictSub(dict):
        pass

    return {"proxy": types.MappingProxyType, "chain": collections.ChainMap, "userdict": collections.UserDict,
            "ordered": collections.OrderedDict, "default": lambda d: collections.defaultdict(int, d), "frozen": FrozenMap, "dictsub": DictSub}


MAPPING_KINDS = _mapping_kinds()
# valid content per object base (and a content with a nested object position)
MAPPING_CONTENT = {
    "Point": [[], [["x", "int:1"]], [["x", "int:1"], ["y", "int:2"]]],
    "Rec": [[], [["v", "int:1"]]],
    "One": [[], [["a", "str:a"]], [["b", "int:1"]]],
}
MAPPING_NESTED = {"Point": ("inner", [["a", "True"]]), "Rec": ("next", [["v", "int:1"]]), "One": ("p", [["a", "True"]])}


def mapping_descs(base):
    """Mappings that are not plain dicts in every input-object position: top level, list item, nested field value."""
    for kind in MAPPING_KINDS:
        for content in MAPPING_CONTENT[base]:
            m = ["M", kind] + content
            yield m
            yield ["L", m]
            yield ["L", m, ["D"] + content]
        fname, inner = MAPPING_NESTED[base]
        first = MAPPING_CONTENT[base][1] if base != "One" else []
        yield ["D"] + first + [[fname, ["M", kind] + inner]]
        yield ["M", kind] + first + [[fname, ["M", kind] + inner]]


DICT_VALUES_QUICK = ["None", "Undefined", "True", "int:1", "int:2147483648", "str:a", "str:RED", "dict:", "list:1"]
DICT_VALUES_THOROUGH = DICT_VALUES_QUICK + ["float:1.5", "str:1", "dict:zz=None", "dict:v=1", "dict:a=s", "list:", "float:nan"]


def keys_of(base):
    return {"Point": ["x", "y", "inner"], "Rec": ["v", "next", "list"], "One": ["a", "b", "p"]}[base] + [UNKNOWN]


DICT_VALUES_MICRO = ["None", "Undefined", "int:1", "str:a", "dict:"]


def is_full(ts, tier):
    """Object-specific enumerations run at full width under the wrappers of depth <=1 (T, T!, [T]); under
    deeper wrappers (same object code, reached through list/non-null recursion) the quick tier uses the
    reduced width."""
    return tier == "thorough" or ts.count("[") + ts.count("!") <= 1


def dict_descs(base, tier, first=None, full=True):
    """Every dict over subsets of (declared keys + unknown key); `first` fixes the choice for the first key."""
    vals = DICT_VALUES_MICRO if not full else (DICT_VALUES_QUICK if tier == "quick" else DICT_VALUES_THOROUGH)
    keys = keys_of(base)
    choices = [None] + vals
    spaces = [choices] * len(keys)
    if first is not None:
        spaces = [[choices[first]]] + spaces[1:]
    for combo in itertools.product(*spaces):
        yield ["D"] + [[k, c] for k, c in zip(keys, combo) if c is not None]


def value_descs(ts, tier):
    labels = V.labels()
    yield from labels
    core = V.CORE
    wide = tier == "thorough" and ts.count("[") + ts.count("!") <= 1
    pool = labels if wide else core
    for a in pool:
        yield ["L", a]
    for a in pool:
        for b in pool:
            yield ["L", a, b]
    for a in core:
        yield ["L", ["L", a]]
        yield ["L", ["L", a], "None"]


# --------------------------------------------------------------------------------
# literals: trees -> text
# --------------------------------------------------------------------------------

INTS = ["0", "1", "-1", "2147483647", "2147483648", "-2147483648", "-2147483649", "9007199254740993", "1" + "0" * 400]
FLOATS = ["1.0", "1.5", "-0.0", "1e3", "0.1", "2147483648.0", "1e999", "-1e999"]
STRS = ['""', '"a"', '"1"', '"RED"', '"""a"""', '"1\\n"']
OTHERS = ["true", "false", "null", "RED", "GREEN", "BLUE", "r", "red", "Red", "True", "NULL"]
ATOMS = INTS + FLOATS + STRS + OTHERS
LCORE = ["1", "2147483648", "1.5", '"a"', "true", "null", "RED", "BLUE"]


def lst(*items):
    return "[" + ", ".join(items) + "]"


def obj(pairs):
    return "{" + ", ".join(f"{k}: {v}" for k, v in pairs) + "}"


def generic_literals(tier="quick"):
    out = list(ATOMS)
    if tier == "quick":
        items = LCORE + ["[]", "[1]", "[null]", "[[1]]"]
    else:
        items = LCORE + ["[]"] + [lst(a) for a in LCORE] + ["[[1]]", "[[null]]"]
    out.append("[]")
    for a in ATOMS:
        out.append(lst(a))
    for a in items:
        if lst(a) not in out:
            out.append(lst(a))
        for b in items:
            out.append(lst(a, b))
    out += ["{}", "{x: 1}", "{zz: null}", '{a: "s"}', "{v: 1, next: {}}", "[{}]", "[{x: 1}, null]"]
    seen, res = set(), []
    for t in out:
        if t not in seen:
            seen.add(t)
            res.append(t)
    return res


SAMPLE_LIT = {"Int": "1", "Float": "1.5", "String": '"s"', "Boolean": "true", "ID": '"id"', "Color": "RED",
              "Any": "{k: [1]}", "Point": "{x: 1}", "Rec": "{v: 1}", "One": '{a: "s"}', "Inner": "{a: false}"}
SAMPLE_VAL = {"Int": 1, "Float": 1.5, "String": "s", "Boolean": True, "ID": "id", "Color": "RED",
              "Any": {"k": [1]}, "Point": {"x": 1}, "Rec": {"v": 1}, "One": {"a": "s"}, "Inner": {"a": False}}


def sample_literal(t):
    NonNull, List, *_ = refc.kinds()
    if isinstance(t, NonNull):
        return sample_literal(t.of_type)
    if isinstance(t, List):
        return lst(sample_literal(t.of_type))
    return SAMPLE_LIT[t.name]


def sample_value(t):
    NonNull, List, *_ = refc.kinds()
    if isinstance(t, NonNull):
        return sample_value(t.of_type)
    if isinstance(t, List):
        return [sample_value(t.of_type)]
    v = SAMPLE_VAL[t.name]
    return json.loads(json.dumps(v))


def field_types(base):
    e = env()
    return {k: f.type for k, f in e.named[base].fields.items()}


def object_literals(base, tier, full=True):
    """Object literals for an object base: every sequence of <=2 fields over (declared + unknown) keys - so
    permuted and duplicated names are included - x 11 values; 3-field sequences x 3 (thorough 5) values;
    list wrappings of the small ones."""
    keys = keys_of(base)
    ftypes = field_types(base)

    def vals(k):
        s = sample_literal(ftypes[k]) if k in ftypes else "1"
        if tier == "quick":
            out = ["1", "2147483648", '"a"', "null", "BLUE", "[1]", "{}"]
        else:
            out = list(LCORE) + ["[1]", "{}"]
        if s not in out:
            out.append(s)
        return out

    def micro(k, n=3):
        s = sample_literal(ftypes[k]) if k in ftypes else "1"
        out = [s, "null", "BLUE"][:n]
        if tier == "thorough":
            out += ["{}", "[1]"]
        return out

    yield "{}"
    small = ["{}"]
    for k in keys:
        for v in vals(k):
            t = obj([(k, v)])
            small.append(t)
            yield t
    for k1 in keys:
        for k2 in keys:
            for v1 in (vals(k1) if full else micro(k1)):
                for v2 in (vals(k2) if full else micro(k2)):
                    yield obj([(k1, v1), (k2, v2)])
    if full:
        for ks in itertools.product(keys, repeat=3):
            for vs in itertools.product(*[micro(k, 2 if tier == "quick" else 3) for k in ks]):
                yield obj(list(zip(ks, vs)))
    for t in small:
        yield lst(t)
    tiny = [SAMPLE_LIT[base], "{}", "{zz: null}", "null"]
    for a in tiny:
        for b in tiny:
            yield lst(a, b)
            yield lst(lst(a), b)


# templates whose sub-positions are replaced by a variable
def templates(ts):
    e = env()
    t = e.types[ts]
    b = base_of(ts)
    s = sample_literal(t)
    out = [s]
    NonNull, List, *_ = refc.kinds()
    inner = t.of_type if isinstance(t, NonNull) else t
    if isinstance(inner, List):
        i = sample_literal(inner.of_type)
        out += [lst(i, i), lst(i, "null")]
    extra = {
        "Point": ["{x: 1, y: 2, inner: {a: true, c: RED}}", "{y: 2}"],
        "Rec": ["{v: 1, next: {v: 2, next: null}, list: [{v: 3}]}", "{list: {v: 1}}"],
        "One": ['{a: "s", b: 1}', "{p: {a: true}}", "{b: 1}"],
        "Any": ["[1, 2]", "{k: 1, l: [2]}"],
    }.get(b, [])
    for x in extra:
        y = x
        # put the base-level template under the wrappers of ts
        depth = ts.count("[")
        for _ in range(depth):
            y = lst(y)
        out.append(y)
    return list(dict.fromkeys(out))


def holes(node, t, path=()):
    """(path, position type) of every sub-literal position of `node` whose type is determined by t."""
    NonNull, List, InputObject, Enum, Scalar = refc.kinds()
    yield path, t
    inner = t.of_type if isinstance(t, NonNull) else t
    k = type(node).__name__
    if k in ("ListValueNode", "ConstListValueNode"):
        if isinstance(inner, List):
            for i, item in enumerate(node.values):
                yield from holes(item, inner.of_type, path + (i,))
        elif inner.name == "Any":
            for i, item in enumerate(node.values):
                yield from holes(item, inner, path + (i,))
    elif k in ("ObjectValueNode", "ConstObjectValueNode"):
        if isinstance(inner, InputObject):
            for i, f in enumerate(node.fields):
                if f.name.value in inner.fields:
                    yield from holes(f.value, inner.fields[f.name.value].type, path + (i,))
        elif not isinstance(inner, List) and inner.name == "Any":
            for i, f in enumerate(node.fields):
                yield from holes(f.value, inner, path + (i,))


def with_var(node, path, name="v"):
    """Text of `node` with the sub-literal at `path` replaced by $name."""
    from graphql.language import print_ast

    if not path:
        return "$" + name
    k = type(node).__name__
    if k in ("ListValueNode", "ConstListValueNode"):
        return lst(*[with_var(x, path[1:], name) if i == path[0] else print_ast(x) for i, x in enumerate(node.values)])
    return obj([(f.name.value, with_var(f.value, path[1:], name) if i == path[0] else print_ast(f.value))
                for i, f in enumerate(node.fields)])


STATES = ["absent", "null", "valid", "defaulted"]


# --------------------------------------------------------------------------------
# the oracles
# --------------------------------------------------------------------------------


class Ctx:
    def __init__(self, res, ts, kind, payload):
        self.res, self.ts, self.kind, self.payload = res, ts, kind, payload
        self.failed = False

    def viol(self, sig, msg):
        self.failed = True
        p = dict(self.payload, type=self.ts, kind=self.kind)
        shown = p.get("text") or json.dumps(p.get("desc"))
        if len(shown) > 120:
            shown = shown[:100] + f"..({len(shown)} chars)"
        extra = "".join(f" {k}={p[k]}" for k in ("state", "default") if k in p)
        self.res.violation(f"{sig}:{base_of(self.ts)}", f"{self.kind} {shown}{extra} as {self.ts}: {msg}", p)


def _errors_of_value(v, t):
    from graphql.utilities.validate_input_value import validate_input_value

    errs = []
    validate_input_value(v, t, lambda e, p: errs.append((e.message, list(p))))
    return errs


def _errors_of_literal(node, t, vv=None, fvv=None):
    from graphql.utilities.validate_input_value import validate_input_literal

    errs = []
    if fvv is not None:
        validate_input_literal(node, t, lambda e, p: errs.append((e.message, list(p))), vv, fvv)
    else:
        validate_input_literal(node, t, lambda e, p: errs.append((e.message, list(p))), vv)
    return errs


def short(x, n=90):
    r = repr(x)
    return r if len(r) <= n else r[: n - 12] + f"..({len(r)} chars)"


def check_value(ts, desc, res):
    from graphql.language import parse_value, print_ast
    from graphql.pyutils import Undefined
    from graphql.utilities import coerce_input_literal, coerce_input_value, value_to_literal

    e = env()
    t = e.types[ts]
    c = Ctx(res, ts, "value", {"desc": desc})
    v = build_value(desc)
    res.evaluations += 1
    try:
        got = coerce_input_value(v, t)
    except Exception as x:  # noqa: BLE001
        return c.viol("coerce_value_raises", f"{type(x).__name__}: {x}")
    try:
        errs = _errors_of_value(v, t)
    except Exception as x:  # noqa: BLE001
        return c.viol("validate_value_raises", f"{type(x).__name__}: {x}")
    res.executions += 2
    ok = got is not Undefined
    if ok and errs:
        return c.viol("coerce_accepts_validate_rejects", f"coerced to {short(got)}, validation says {errs[0][0]!r}")
    if not ok and not errs:
        return c.viol("coerce_rejects_validate_accepts", "coercion gives Undefined, validation reports no error")
    if ok and not refc.conforms(refin.plain(got), t):
        return c.viol("nonconforming_result", f"coerced to {short(got)} which is outside the type's domain")
    if refin.jsonlike(v):
        try:
            want = refin.coerce_value(v, t)
            rok = True
        except refc.Invalid:
            want, rok = None, False
        if ok and not rok:
            return c.viol("accepts_reference_rejects", f"coerced to {short(got)}; the specification's coercion fails")
        if rok and not ok:
            return c.viol("rejects_reference_accepts", f"rejected ({errs[0][0]!r}); the specification's coercion gives {short(want)}")
        if ok and not refin.same(got, want):
            return c.viol("result_differs_from_reference", f"coerced to {short(got)}, specification gives {short(want)}")
    if ok and (base_of(ts) != "Any" or _finite_jsonlike(v)):
        try:
            lit = value_to_literal(v, t)
        except Exception as x:  # noqa: BLE001
            return c.viol("value_to_literal_raises", f"{type(x).__name__}: {x}")
        if lit is None:
            return c.viol("accepted_value_has_no_literal", f"coerced to {short(got)} but value_to_literal gives None")
        try:
            text = print_ast(lit)
            node = parse_value(text)
        except Exception as x:  # noqa: BLE001
            return c.viol("literal_of_value_not_parsable", f"{type(x).__name__}: {x}")
        back = coerce_input_literal(node, t)
        res.executions += 2
        if back is Undefined:
            return c.viol("literal_of_accepted_value_rejected", f"value coerces to {short(got)}; its literal {short(text, 60)} is not coercible")
        if not refin.same(back, got):
            return c.viol("literal_roundtrip_differs", f"value coerces to {short(got)}; its literal {short(text, 60)} coerces to {short(back)}")
    res.outcome((ts, _vclass(v), ok, short(got, 60) if ok else None))


def _finite_jsonlike(v):
    if isinstance(v, float):
        return v == v and abs(v) != float("inf")
    if type(v) in (list, tuple):
        return all(_finite_jsonlike(x) for x in v)
    if type(v) is dict:
        return all(type(k) is str and _finite_jsonlike(x) for k, x in v.items())
    return refin.jsonlike(v) and not refin.is_undefined(v)


def _vclass(v):
    if type(v) is dict:
        return ("dict", tuple(sorted((str(k), type(x).__name__) for k, x in v.items())))
    if type(v) is list:
        return ("list", tuple(type(x).__name__ for x in v))
    return type(v).__name__


def empty_vv():
    from graphql.execution.values import VariableValues

    return VariableValues({}, {})


def rule_errors(ts, texts):
    """ValuesOfCorrectTypeRule on '{ f(a: LIT) }' for many literals at once: one aliased field per
    line; every error is attributed to the literal on the line of its first location.
    Returns (messages per literal, number of errors that carry no location)."""
    from graphql import parse, validate
    from graphql.validation import ValuesOfCorrectTypeRule

    e = env()
    f = e.field[ts]
    bodies = [f"x{i}: {f}(a: {text})" for i, text in enumerate(texts)]
    src = "{\n" + "\n".join(bodies) + "\n}"
    owner = {}
    line = 2
    for i, body in enumerate(bodies):  # literals may span lines (block strings)
        n = body.count("\n") + 1
        for k in range(n):
            owner[line + k] = i
        line += n
    doc = parse(src)
    errs = validate(e.schema, doc, [ValuesOfCorrectTypeRule], max_errors=10 ** 9)
    out = [[] for _ in texts]
    unlocated = 0
    for err in errs:
        if len(texts) == 1:
            out[0].append(err.message)
        elif err.locations and err.locations[0].line in owner:
            out[owner[err.locations[0].line]].append(err.message)
        else:
            unlocated += 1
    return out, unlocated


def is_plain(text):
    return "[" not in text and "{" not in text


def check_literals(ts, texts, res, batch=120, with_empty=True):
    """The rule is run on batches of literals.  Only "rejected or not" matters per literal: a literal
    with an attributed error is rejected; errors raised for a list/object literal given to a leaf type
    are reported on a rebuilt node without location, so when a batch has such errors every nested
    literal without an attributed error is re-validated in a document of its own."""
    texts = list(texts)
    msgs = {}
    for lo in range(0, len(texts), batch):
        chunk = texts[lo:lo + batch]
        try:
            out, unlocated = rule_errors(ts, chunk)
        except Exception:  # noqa: BLE001
            continue  # judged one by one below (the failing literal reports rule_raises)
        for text, m in zip(chunk, out):
            if m or not unlocated or is_plain(text):
                msgs[text] = m
    for text in texts:
        check_literal(ts, text, res, msgs.get(text), with_empty)


def check_literal(ts, text, res, rule_msgs=None, with_empty=True):
    from graphql.pyutils import Undefined
    from graphql.utilities import coerce_input_literal
    from graphql.validation import ValuesOfCorrectTypeRule

    e = env()
    t = e.types[ts]
    c = Ctx(res, ts, "literal", {"text": text})
    node = e.node(text)
    res.evaluations += 1
    try:
        got = coerce_input_literal(node, t)
        got2 = coerce_input_literal(node, t, empty_vv()) if with_empty else got
    except Exception as x:  # noqa: BLE001
        return c.viol("coerce_literal_raises", f"{type(x).__name__}: {x}")
    try:
        errs = _errors_of_literal(node, t)
        errs2 = _errors_of_literal(node, t, empty_vv()) if with_empty else errs
    except Exception as x:  # noqa: BLE001
        return c.viol("validate_literal_raises", f"{type(x).__name__}: {x}")
    res.executions += 4
    ok = got is not Undefined
    if ok and errs:
        return c.viol("coerce_accepts_validate_rejects", f"literal coerced to {short(got)}, validation says {errs[0][0]!r}")
    if not ok and not errs:
        return c.viol("coerce_rejects_validate_accepts", "literal coercion gives Undefined, validation reports no error")
    if (got2 is not Undefined) != ok or (ok and not refin.same(got, got2)) or bool(errs2) != bool(errs):
        return c.viol("const_literal_depends_on_variable_values",
                      f"without variable values: {short(got)} / {len(errs)} errors; with empty variable values: {short(got2)} / {len(errs2)} errors")
    if ok and not refc.conforms(refin.plain(got), t):
        return c.viol("nonconforming_result", f"literal coerced to {short(got)} which is outside the type's domain")
    try:
        want = refc.coerce_literal(node, t, None)
        rok = want is not refc.MISSING
    except refc.Invalid:
        want, rok = None, False
    if ok and not rok:
        return c.viol("accepts_reference_rejects", f"literal coerced to {short(got)}; the specification's coercion fails")
    if rok and not ok:
        return c.viol("rejects_reference_accepts", f"literal rejected ({errs[0][0]!r}); the specification's coercion gives {short(want)}")
    if ok and not refin.same(got, want):
        return c.viol("result_differs_from_reference", f"literal coerced to {short(got)}, specification gives {short(want)}")
    # the validation rule on a document
    if rule_msgs is None:
        try:
            rule_msgs = rule_errors(ts, [text])[0][0]
        except Exception as x:  # noqa: BLE001
            return c.viol("rule_raises", f"{type(x).__name__}: {x}")
    res.executions += 1
    if ok and rule_msgs:
        return c.viol("rule_rejects_coercible_literal", f"coerced to {short(got)}, ValuesOfCorrectTypeRule: {rule_msgs[0]!r}")
    if not ok and not rule_msgs:
        return c.viol("rule_accepts_uncoercible_literal", "ValuesOfCorrectTypeRule reports nothing, coercion gives Undefined")
    res.outcome((ts, text if len(text) < 30 else len(text), ok, short(got, 60) if ok else None))


def nullable_str(t):
    s = str(t)
    return s[:-1] if s.endswith("!") else s


def variable_values_for(e, p, state):
    """VariableValues for `$v` declared with the nullable version of position type p."""
    from graphql import parse
    from graphql.execution.values import get_variable_values

    decl = nullable_str(p)
    default = f" = {sample_literal(p)}" if state == "defaulted" else ""
    key = (decl, default)
    defs = e._docs.get(key)
    if defs is None:
        defs = e._docs[key] = parse(f"query (${'v'}: {decl}{default}) {{ __typename }}").definitions[0].variable_definitions
    inputs = {"absent": {}, "defaulted": {}, "null": {"v": None}, "valid": {"v": sample_value(p)}}[state]
    return get_variable_values(e.schema, defs, inputs)


FSTATES = [None, "f_absent", "f_null", "f_valid"]


def fragment_values_for(e, p, fstate, vv):
    """FragmentVariableValues of a fragment that declares `$v` itself (experimental fragment arguments), spread without an
    argument for v / with null / with a valid literal - built by the library's own get_fragment_variable_values."""
    from graphql import parse
    from graphql.execution.get_variable_signature import get_variable_signature
    from graphql.execution.values import get_fragment_variable_values

    decl = nullable_str(p)
    arg = {"f_absent": "", "f_null": "(v: null)", "f_valid": f"(v: {sample_literal(p)})"}[fstate]
    key = ("frag", decl, arg)
    cached = e._docs.get(key)
    if cached is None:
        doc = parse(f"{{ ...F{arg} }} fragment F($v: {decl}) on Query {{ __typename }}", experimental_fragment_arguments=True)
        spread = doc.definitions[0].selection_set.selections[0]
        sigs = {vd.variable.name.value: get_variable_signature(e.schema, vd) for vd in doc.definitions[1].variable_definitions}
        cached = e._docs[key] = (spread, sigs)
    spread, sigs = cached
    return get_fragment_variable_values(spread, sigs, vv)


def check_var_literal(ts, tmpl, path, state, res, fstate=None):
    from graphql.pyutils import Undefined
    from graphql.utilities import coerce_input_literal

    e = env()
    t = e.types[ts]
    tnode = e.node(tmpl)
    p = None
    for pth, pt in holes(tnode, t):
        if pth == tuple(path):
            p = pt
    text = with_var(tnode, tuple(path))
    c = Ctx(res, ts, "variable-literal", {"text": text, "template": tmpl, "path": list(path), "state": state, "fstate": fstate})
    if p is None:
        return c.viol("engine", "no such hole")
    node = e.node(text)
    res.evaluations += 1
    try:
        vv = variable_values_for(e, p, state)
    except Exception as x:  # noqa: BLE001
        return c.viol("get_variable_values_raises", f"{type(x).__name__}: {x}")
    if isinstance(vv, list):
        return c.viol("variable_errors_for_valid_input", f"${'v'}: {nullable_str(p)} [{state}]: {[x.message for x in vv][:2]}")
    fvv = None
    scope = vv.coerced  # what `$v` means at this place
    if fstate is not None:
        # the literal sits inside a fragment that declares its own `$v`: the fragment's variable shadows the operation's,
        # also when the fragment variable has no value
        try:
            fvv = fragment_values_for(e, p, fstate, vv)
        except Exception as x:  # noqa: BLE001
            return c.viol("get_fragment_variable_values_raises", f"{type(x).__name__}: {x}")
        scope = {"f_absent": {}, "f_null": {"v": None}, "f_valid": {"v": fvv.coerced.get("v", Undefined)}}[fstate]
        if fstate == "f_valid" and scope["v"] is Undefined:
            return c.viol("fragment_argument_lost", f"...F(v: {sample_literal(p)}) gives no value for $v")
    try:
        got = coerce_input_literal(node, t, vv, fvv) if fvv is not None else coerce_input_literal(node, t, vv)
    except Exception as x:  # noqa: BLE001
        return c.viol("coerce_literal_raises", f"{type(x).__name__}: {x}")
    try:
        errs = _errors_of_literal(node, t, vv, fvv)
        static_errs = _errors_of_literal(node, t)
    except Exception as x:  # noqa: BLE001
        return c.viol("validate_literal_raises", f"{type(x).__name__}: {x}")
    res.executions += 4
    ok = got is not Undefined
    NonNull = refc.kinds()[0]
    top_missing = not path and "v" not in scope
    if top_missing:
        # "no value": Undefined is the answer; an error is due exactly when the position is non-null
        if ok:
            return c.viol("value_for_missing_variable", f"coerced to {short(got)}")
        if bool(errs) != isinstance(t, NonNull):
            return c.viol("missing_variable_validation", f"{len(errs)} errors for a missing variable at {ts}")
    else:
        if ok and errs:
            return c.viol("coerce_accepts_validate_rejects", f"coerced to {short(got)}, validation says {errs[0][0]!r}")
        if not ok and not errs:
            return c.viol("coerce_rejects_validate_accepts", "coercion gives Undefined, validation reports no error")
    if ok and not refc.conforms(refin.plain(got), t):
        return c.viol("nonconforming_result", f"coerced to {short(got)} which is outside the type's domain")
    if base_of(ts) != "Any":
        try:
            want = refc.coerce_literal(node, t, scope)
            rok = want is not refc.MISSING
        except refc.Invalid:
            want, rok = None, False
        if ok != rok:
            return c.viol("accepts_reference_rejects" if ok else "rejects_reference_accepts",
                          f"coerced to {short(got)}; specification: {short(want) if rok else 'invalid'}")
        if ok and not refin.same(got, want):
            return c.viol("result_differs_from_reference", f"coerced to {short(got)}, specification gives {short(want)}")
    # static validation may not report more than validation with runtime values
    if static_errs and not errs and not top_missing:
        return c.viol("static_validation_stricter", f"static: {static_errs[0][0]!r}, with variable values: no error")
    res.outcome((ts, tmpl, tuple(path), state, fstate, ok, short(got, 60) if ok else None))


DEFAULTS = [None, "sample", "null", "BLUE"]


def check_variables(ts, default, desc, res):
    """get_variable_values for `query ($v: T [= default])` with inputs {} (desc None) or {"v": value}."""
    from graphql import GraphQLError, parse
    from graphql.execution.values import VariableValues, get_variable_values
    from graphql.pyutils import Undefined
    from graphql.utilities import coerce_input_literal, coerce_input_value

    e = env()
    t = e.types[ts]
    c = Ctx(res, ts, "variables", {"desc": desc, "default": default})
    dtext = None if default is None else (sample_literal(t) if default == "sample" else default)
    key = ("vars", ts, dtext)
    defs = e._docs.get(key)
    if defs is None:
        src = f"query ($v: {ts}{'' if dtext is None else ' = ' + dtext}) {{ __typename }}"
        defs = e._docs[key] = parse(src).definitions[0].variable_definitions
    if base_of(ts) == "Any" and "'I'" in repr(desc):
        return None  # the custom scalar passes the iterator object through; two iterators cannot be compared
    inputs = {} if desc is None else {"v": build_value(desc)}
    res.evaluations += 1
    try:
        r = get_variable_values(e.schema, defs, inputs)
    except Exception as x:  # noqa: BLE001
        return c.viol("get_variable_values_raises", f"{type(x).__name__}: {x}")
    res.executions += 1
    provided = "v" in inputs and inputs["v"] is not Undefined
    NonNull = refc.kinds()[0]
    if provided:
        want = coerce_input_value(build_value(desc), t)  # built again: a one-shot iterator in the value is used up by now
    elif dtext is not None:
        want = coerce_input_literal(e.node(dtext), t)
    else:
        want = Undefined
    expect_error = (want is Undefined) if (provided or dtext is not None) else isinstance(t, NonNull)
    if isinstance(r, list):
        if not r or not all(isinstance(x, GraphQLError) for x in r):
            return c.viol("variables_empty_error_list", f"returned {r!r}")
        if not expect_error:
            return c.viol("variables_error_for_valid_input", f"errors {[x.message for x in r][:2]} but the value coerces to {short(want)}")
        res.outcome((ts, default, "errors", desc is None or _vclass(inputs.get("v"))))
        return None
    if not isinstance(r, VariableValues):
        return c.viol("variables_result_type", f"returned {type(r).__name__}")
    if expect_error:
        return c.viol("variables_value_for_invalid_input", f"coerced map {short(r.coerced)} although the input/default is invalid or missing")
    if provided or dtext is not None:
        if "v" not in r.coerced:
            return c.viol("variables_missing_value", f"provided/defaulted variable is not in the coerced map {short(r.coerced)}")
        if not refin.same(r.coerced["v"], want):
            return c.viol("variables_value_differs", f"coerced map has {short(r.coerced['v'])}, coercion gives {short(want)}")
        if not refc.conforms(refin.plain(r.coerced["v"]), t):
            return c.viol("nonconforming_result", f"variable coerced to {short(r.coerced['v'])}")
    elif "v" in r.coerced:
        return c.viol("variables_value_for_absent", f"absent variable without default has value {short(r.coerced['v'])}")
    if "v" not in r.sources:
        return c.viol("variables_missing_source", "no source entry for the variable")
    res.outcome((ts, default, "values", short(r.coerced.get("v", "-"), 40)))
    return None


# --------------------------------------------------------------------------------
# cold/warm: the memoised coerced default must not change results
# --------------------------------------------------------------------------------


def check_memo(ts, res):
    """Every key subset of the object base, coerced on a fresh schema (cold memo) in two different
    orders and after a literal coercion has filled the memo: same results."""
    global _ENV
    from graphql.utilities import coerce_input_literal, coerce_input_value

    base = base_of(ts)
    keys = keys_of(base)[:-1]
    ftypes = field_types(base)
    descs = []
    for n in range(len(keys) + 1):
        for sub in itertools.combinations(keys, n):
            d = {k: sample_value(ftypes[k]) for k in sub}
            for _ in range(ts.count("[")):
                d = [d]
            descs.append(d)
    runs = []
    saved = _ENV
    try:
        for order in (0, 1, 2):
            _ENV = Env()
            t = _ENV.types[ts]
            if order == 2:
                coerce_input_literal(_ENV.node("{}"), _ENV.named[base])
            seq = list(enumerate(descs))
            if order == 1:
                seq.reverse()
            out = {}
            for i, d in seq:
                out[i] = repr(coerce_input_value(d, t))
                res.executions += 1
            runs.append(out)
    finally:
        _ENV = saved
    res.evaluations += len(descs)
    for i, d in enumerate(descs):
        if not (runs[0][i] == runs[1][i] == runs[2][i]):
            res.violation(f"result_depends_on_history:{base}",
                          f"value {d!r} as {ts}: {runs[0][i]} / {runs[1][i]} / {runs[2][i]} depending on what was coerced before",
                          {"kind": "memo", "type": ts})
            return


SHARED_WRAPS = ["{}", "[{}]", "{}!", "[[{}]]", "[{}!]!"]
SHARED_DEFAULTS = [("Int", "literal", "1"), ("Int", "value", 1), ("String", "literal", '"s"'), ("Color", "literal", "RED"), ("Color", "value", "RED"),
                   ("Point", "literal", "{x: 1}"), ("Point", "value", {"x": 1})]


def check_shared_default(res):
    """One GraphQLDefaultInput object used as the default of several input fields whose types wrap the same named type
    differently (possible only in programmatically built schemas): every order in which the defaults are first applied must give
    each field the value an unshared default gives it - through coerce_input_value, coerce_input_literal and both validators."""
    import graphql as g
    from graphql.language import parse_const_value
    from graphql.pyutils import Undefined
    from graphql.utilities import coerce_input_literal, coerce_input_value

    DI, IF = g.GraphQLDefaultInput, g.GraphQLInputField
    for base, how, dv in SHARED_DEFAULTS:
        def mk_default():
            return DI(literal=parse_const_value(dv)) if how == "literal" else DI(value=dv)

        def build(shared):
            e = Env()
            named = e.named[base]
            d = mk_default() if shared else None
            holders = []
            for i, w in enumerate(SHARED_WRAPS):
                t = e.make(w.format(base))
                holders.append(g.GraphQLInputObjectType(f"H{i}", {"f": IF(t, default=d if shared else mk_default())}))
            return named, holders

        _n, fresh = build(False)
        want = []
        for h in fresh:
            want.append(repr(coerce_input_value({}, h)))
        for order in itertools.permutations(range(len(SHARED_WRAPS))):
            for via in ("value", "literal"):
                _n, holders = build(True)
                got = {}
                for i in order:
                    res.executions += 1
                    if via == "value":
                        got[i] = repr(coerce_input_value({}, holders[i]))
                    else:
                        got[i] = repr(coerce_input_literal(parse_const_value("{}"), holders[i]))
                res.evaluations += 1
                res.states += 1
                res.transitions += len(order)
                for i in range(len(SHARED_WRAPS)):
                    if got[i] != want[i]:
                        res.violation(f"shared_default_depends_on_history:{base}",
                                      f"default {dv!r} ({how}) shared by fields of types {[w.format(base) for w in SHARED_WRAPS]}: applied in order {order} via coerce_input_{via}, "
                                      f"field of type {SHARED_WRAPS[i].format(base)} gets {got[i]}, an unshared default gives {want[i]}",
                                      {"kind": "shared", "type": base})
                        return
        res.outcome(("shared", base, how, tuple(want)))
    res.sample({"family": "shared default object", "wrappings": SHARED_WRAPS, "defaults": [d[:2] for d in SHARED_DEFAULTS]}, 1)


# --------------------------------------------------------------------------------
# shards
# --------------------------------------------------------------------------------


def shards(tier):
    out = [("shared", "-", 0)]
    for ts in type_strings():
        out.append(("type", ts, 0))
        b = base_of(ts)
        if b in OBJECT_BASES:
            n = 1 + len(DICT_VALUES_QUICK if tier == "quick" else DICT_VALUES_THOROUGH)
            if tier == "quick":
                out.append(("dict", ts, None))
            else:
                for first in range(n):
                    out.append(("dict", ts, first))
            out.append(("objlit", ts, 0))
    return out


def var_cases(ts):
    e = env()
    t = e.types[ts]
    for tmpl in templates(ts):
        node = e.node(tmpl)
        for path, _p in holes(node, t):
            for state in STATES:
                yield tmpl, path, state


def run_shard(shard, tier):
    res = Result()
    kind, ts, arg = shard
    if kind == "shared":
        check_shared_default(res)
        return res
    if kind == "type":
        n = 0
        for desc in value_descs(ts, tier):
            check_value(ts, desc, res)
            n += 1
        lits = generic_literals(tier)
        check_literals(ts, lits, res)
        n += len(lits)
        for tmpl, path, state in var_cases(ts):
            for fstate in FSTATES:
                check_var_literal(ts, tmpl, path, state, res, fstate)
                n += 1
        extra = [["D"], ["D", ["x", "int:1"]], ["D", ["x", "int:1"], [UNKNOWN, "None"]], ["D", ["v", "int:1"]],
                 ["D", ["a", "str:a"]], ["D", ["a", "str:a"], ["b", "None"]], ["L", "dict:x=1", "dict:x=1,zz=None"],
                 # one-shot iterators where lists are expected (valid and invalid content), also nested
                 ["I"], ["I", "int:1"], ["I", "int:1", "str:a"], ["I", "None"], ["I", "str:a"], ["L", ["I", "int:1"]], ["L", ["I", "str:a"]],
                 ["I", ["D", ["x", "int:1"]]], ["I", ["D", ["x", "str:a"]]], ["D", ["list", ["I", ["D", ["v", "int:1"]]]]],
                 ["D", ["list", ["I", "str:a"]]], ["D", ["v", "int:1"], ["list", ["I", ["D", ["v", "str:a"]]]]]]
        for default in DEFAULTS:
            for desc in [None] + V.labels() + extra:
                check_variables(ts, default, desc, res)
                n += 1
        if base_of(ts) in OBJECT_BASES:
            check_memo(ts, res)
        res.states += n
        res.transitions += n
        if ts in ("[Int!]", "One"):
            res.sample({"type": ts, "values": ["int:2147483648", ["L", "int:1", "None"]], "literals": ["[1, null]", "$v"],
                        "variable_states": STATES})
    elif kind == "dict":
        n = 0
        for desc in dict_descs(base_of(ts), tier, arg, is_full(ts, tier)):
            check_value(ts, desc, res)
            n += 1
        if not arg:
            for desc in mapping_descs(base_of(ts)):
                check_value(ts, desc, res)
                check_variables(ts, None, desc, res)
                n += 2
        res.states += n
        res.transitions += n
        if ts == "Point":
            res.sample({"type": ts, "dict": {"x": 1, "zz": None}})
    elif kind == "objlit":
        lits = list(object_literals(base_of(ts), tier, is_full(ts, tier)))
        check_literals(ts, lits, res, with_empty=False)
        n = len(lits)
        res.states += n
        res.transitions += n
        if ts == "One":
            res.sample({"type": ts, "literal": "{a: 1, a: 2}"})
    return res


def replay(payload):
    res = Result()
    kind, ts = payload["kind"], payload["type"]
    if kind == "value":
        check_value(ts, payload["desc"], res)
    elif kind == "literal":
        check_literal(ts, payload["text"], res)
    elif kind == "variable-literal":
        check_var_literal(ts, payload["template"], payload["path"], payload["state"], res, payload.get("fstate"))
    elif kind == "variables":
        check_variables(ts, payload["default"], payload["desc"], res)
    elif kind == "memo":
        check_memo(ts, res)
    elif kind == "shared":
        check_shared_default(res)
    return [{"signature": x["signature"], "summary": x["summary"]} for x in res.violations]
