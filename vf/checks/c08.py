"""C08  print o parse is the identity on ASTs, and printing is a fixed point."""

from __future__ import annotations

import itertools

from vf.engine.choice import Chooser, explore
from vf.engine.runner import Result
from vf.gen import grammar
from vf.ref import astshape
from vf.ref import lexer as reflex

ID = "C08"
SIGMA_STR = [
    "a", " ", "\t", "\n", "\r", "\x0b", "\x0c", "\x1c", "\x1e", "\x85", "\u2028", "\u2029",
    '"', "\\", "\x00", "\x7f", "\ufeff", "\uffff", "\U0001f600",
]
BOUNDS = {
    "quick": "documents/values/types/coordinates with <=2 grammar deviations x 4 parser-flag settings (mixed executable + type-system documents: <=1); block and quoted strings: all strings <=3 over 19 hard characters (and <=6 over 5 block-layout characters) x 4 contexts x {parsed, programmatic}; >80-column wrapping family; strings of 60..1000 characters (9 patterns) in both literal forms, printed in both orders within one process",
    "thorough": "<=3 grammar deviations; strings <=4 over 19 hard characters (<=7 over 6 layout characters)",
}
RULE = (
    "exhaustive within bounds: every grammar derivation with <=k deviations from the minimal document (executable, type-system, "
    "extension, mixed; Value, ConstValue, Type, SchemaCoordinate), every string up to length L over the hard-character alphabet as a "
    "raw block-string body, as a programmatic block value and as a programmatic quoted value, in argument / description / default / "
    "variable-default context: parse(print_ast(t)) is structurally equal to t (locations ignored), all string values equal character "
    "for character with the block flag preserved, print_ast(parse(print_ast(t))) == print_ast(t); a rebuilt location-free copy of the "
    "tree prints identically. distinct = distinct printed texts (hashed)"
)
ASSUMPTIONS = [
    "structural equality is taken on a dump derived from the dataclass fields of the node classes; None and () are identified",
    "block strings whose value cannot be the result of lexing any block string (e.g. leading blank line) are exercised only as programmatic nodes and only required to round-trip when is_printable_as_block_string accepts them",
]
LAYOUT = ["a", " ", "\n", '"', "\\", "\r", "\t"]
# line-level alphabet: indentation x words, the dimension the block-string printing decisions depend on
LINE_ALPHA = ["a", " a", "  a", "a a", " a a", "\ta b", "", '"', " \\"]
FLAGS = [(False, False), (True, True), (True, False), (False, True)]


def shards(tier):
    k = 2 if tier == "quick" else 3
    out = []
    for mode in ("executable", "typesystem", "extension", "mixed"):
        for fa, dd in FLAGS:
            if mode == "mixed" and (fa, dd) != (True, True):
                continue
            if mode == "executable" and dd:
                if fa:
                    continue
            kinds = grammar.kinds_for(mode, dd)
            for ki in range(len(kinds)):
                out.append(("doc", (mode, fa, dd, ki, k if mode != "mixed" else k - 1)))
    for what in ("value", "const", "type", "coord"):
        out.append(("entry", (what, k + 1)))
    for i in range(len(SIGMA_STR)):
        out.append(("str", i))
    nl = 5 if tier == "quick" else 6
    for i in range(nl):
        for j in range(nl):
            out.append(("layout", (i, j)))
    out.append(("wrap", 0))
    out.append(("long", 0))
    out.append(("strshort", 0))
    for i in range(len(LINE_ALPHA)):
        out.append(("lines", i))
    return out


# ---------------------------------------------------------------------------


def rebuild(x, flip):
    """Location-free programmatic copy of a tree, built through the constructors.
    flip: swap None <-> () in optional tuple positions where the parser's choice is arbitrary."""
    if astshape.is_node(x):
        kw = {}
        for f in astshape.data_fields(x):
            kw[f] = rebuild(getattr(x, f), flip)
        return type(x)(**kw)
    if isinstance(x, tuple):
        return tuple(rebuild(i, flip) for i in x)
    return x


def roundtrip(tree, parse_fn, res, viol, label, src=None):
    """print -> parse -> compare -> print."""
    from graphql import GraphQLSyntaxError, print_ast

    res.evaluations += 1
    res.executions += 2
    try:
        text = print_ast(tree)
    except Exception as e:  # noqa: BLE001
        viol("print_raises", label, f"{type(e).__name__}: {e}", src)
        return None
    try:
        t2 = parse_fn(text)
    except GraphQLSyntaxError as e:
        viol("printed_text_does_not_parse", label, f"printed {text!r}: {e.message}", src)
        return None
    except Exception as e:  # noqa: BLE001
        viol("parse_raises", label, f"printed {text!r}: {type(e).__name__}: {e}", src)
        return None
    s1 = astshape.shape(tree)
    s2 = astshape.shape(t2)
    if s1 != s2:
        sv1, sv2 = astshape.string_values(tree), astshape.string_values(t2)
        if sv1 != sv2:
            viol("string_value_changed", label, f"printed {text!r}: strings {sv1!r} -> {sv2!r}", src)
        else:
            viol("ast_changed", label, f"printed {text!r} reparses to a different tree", src)
        return None
    try:
        text2 = print_ast(t2)
    except Exception as e:  # noqa: BLE001
        viol("print_raises", label, f"second print: {type(e).__name__}: {e}", src)
        return None
    if text2 != text:
        viol("print_not_fixed_point", label, f"{text!r} -> {text2!r}", src)
        return None
    return text


def check_source(src, parse_fn, res, viol, label=None):
    from graphql import GraphQLSyntaxError, print_ast

    label = label or src
    res.executions += 1
    try:
        tree = parse_fn(src)
    except GraphQLSyntaxError as e:
        viol("generated_source_rejected", label, f"{e.message}", src)
        return None
    except Exception as e:  # noqa: BLE001
        viol("parse_raises", label, f"{type(e).__name__}: {e}", src)
        return None
    text = roundtrip(tree, parse_fn, res, viol, label, src)
    if text is None:
        return None
    # programmatic copy prints identically
    res.evaluations += 1
    try:
        t3 = rebuild(tree, False)
        text3 = print_ast(t3)
    except Exception as e:  # noqa: BLE001
        viol("programmatic_copy_raises", label, f"{type(e).__name__}: {e}", src)
        return None
    if text3 != text:
        viol("programmatic_copy_prints_differently", label, f"{text!r} vs {text3!r}", src)
        return None
    return tree, text


# --- strings ---------------------------------------------------------------

CONTEXTS = [
    ("arg", "{ f(a: %s) }", lambda d: d.definitions[0].selection_set.selections[0].arguments[0].value),
    ("desc", "type T {\n  %s\n  f: Int\n}", lambda d: d.definitions[0].fields[0].description),
    ("default", "type T { f(a: S = %s): Int }", lambda d: d.definitions[0].fields[0].arguments[0].default_value),
    ("vardefault", "query ($v: S = [{k: %s}]) { f }", lambda d: d.definitions[0].variable_definitions[0].default_value.values[0].fields[0].value),
]


def replace_string(tree, new):
    """Copy of tree where the unique StringValueNode whose value is the placeholder is replaced."""
    if astshape.is_node(tree):
        if type(tree).__name__ == "StringValueNode" and tree.value == "PLACEHOLDER":
            return new
        kw = {f: replace_string(getattr(tree, f), new) for f in astshape.data_fields(tree)}
        return type(tree)(**kw)
    if isinstance(tree, tuple):
        return tuple(replace_string(i, new) for i in tree)
    return tree


_templates = {}


def template(ctx):
    from graphql import parse

    t = _templates.get(ctx)
    if t is None:
        name, fmt, _get = next(c for c in CONTEXTS if c[0] == ctx)
        t = _templates[ctx] = parse(fmt % '"PLACEHOLDER"', no_location=True)
    return t


def check_string(body, res, viol, full=True, reverse=False):
    """body as (a) raw block-string body, (b) programmatic block value, (c) programmatic quoted value
    (reverse: the quoted form is printed before the block forms - the order matters to anything the printer remembers)."""
    from graphql import GraphQLSyntaxError, parse
    from graphql.language import StringValueNode
    from graphql.language.block_string import is_printable_as_block_string

    def p(s):
        return parse(s, no_location=True)

    contexts = CONTEXTS if full else CONTEXTS[:2]
    if reverse:
        if not any("\ud800" <= ch <= "\udfff" for ch in body):
            for name, _fmt, get in contexts:
                tree = replace_string(template(name), StringValueNode(value=body, block=False))
                text = roundtrip(tree, p, res, viol, f"{name}:quoted-programmatic-first:{body!r}", None)
                if text is None:
                    return
                res.outcome(text)
    # (a) raw block string body, if that is lexable
    raw = '"""' + body + '"""'
    rt = reflex.tokens(raw)
    lexable = rt is not None and len(rt) == 1 and rt[0][0] == "BLOCK_STRING"
    if lexable:
        want_value = rt[0][3]
        for name, fmt, get in contexts:
            src = fmt % raw
            r = check_source(src, p, res, viol, label=f"{name}:block-raw:{body!r}")
            if r is None:
                return
            tree, text = r
            node = get(tree)
            res.evaluations += 1
            if node.value != want_value or not node.block:
                viol("block_string_value", f"{name}:{body!r}", f"lexed value {node.value!r} block={node.block}, BlockStringValue() gives {want_value!r}", src)
                return
            res.outcome(text)
    # (b) programmatic block string with this value
    if is_printable_as_block_string(body):
        for name, _fmt, get in contexts:
            tree = replace_string(template(name), StringValueNode(value=body, block=True))
            text = roundtrip(tree, p, res, viol, f"{name}:block-programmatic:{body!r}", None)
            if text is None:
                return
            res.outcome(text)
    else:
        res.count("block_values_not_printable")
    # (c) programmatic quoted string
    if not any("\ud800" <= ch <= "\udfff" for ch in body):
        for name, _fmt, get in contexts:
            tree = replace_string(template(name), StringValueNode(value=body, block=False))
            text = roundtrip(tree, p, res, viol, f"{name}:quoted-programmatic:{body!r}", None)
            if text is None:
                return
            res.outcome(text)


LONG_LENGTHS = [60, 70, 71, 78, 79, 80, 81, 82, 100, 200, 1000]
LONG_PATTERNS = [("x", ""), ("ab ", ""), ("x", "\n"), ("x", '"'), ("x", "\\"), (" x", ""), ("\tx", ""), ("\u00e9", ""), ("x", " y")]


def run_long(res, viol):
    """Texts around the printer's line-length thresholds (70 / 80 characters) in both literal forms, one after the other in
    both orders within one process - each text is used once per order, so that a process-wide memory shows."""
    n = 0
    for length in LONG_LENGTHS:
        for pi, (unit, tail) in enumerate(LONG_PATTERNS):
            for reverse in (False, True):
                # a different text per order: the marker sits before the tail
                body = (unit * length)[:length - len(tail) - 1] + ("r" if reverse else "f") + tail
                check_string(body, res, viol, full=True, reverse=reverse)
                n += 1
    res.states += n
    res.transitions += n
    res.sample({"family": "long strings, both literal forms in both orders", "lengths": LONG_LENGTHS}, 1)


def run_shard(shard, tier):
    from graphql import parse, parse_const_value, parse_schema_coordinate, parse_type, parse_value

    res = Result()
    kind, arg = shard
    cur = {}

    def viol(sig, label, summary, src=None):
        res.violation(sig, f"{label!r}: {summary}", {"kind": cur.get("kind", kind), "label": label, "source": src,
                                                    "flags": cur.get("flags"), "body": cur.get("body"), "entry": cur.get("entry")})

    if kind == "doc":
        mode, fa, dd, ki, k = arg
        kinds = grammar.kinds_for(mode, dd)
        cur["flags"] = [fa, dd]

        def p(s):
            return parse(s, no_location=True, experimental_fragment_arguments=fa,
                         experimental_directives_on_directive_definitions=dd)

        def scenario(c):
            return grammar.Gen(c, frag_args=fa, dir_on_dir=dd).document(kinds)

        def visit(c, tokens):
            src = grammar.text_of(tokens)
            r = check_source(src, p, res, viol)
            if r:
                res.outcome(r[1])
                if c.deviations == k:
                    res.sample({"source": src, "printed": r[1]}, 1)

        res.add_stats(explore(scenario, k, visit, root=(ki,)))
    elif kind == "entry":
        what, k = arg
        cur["entry"] = what
        fn = {"value": lambda s: parse_value(s, no_location=True), "const": lambda s: parse_const_value(s, no_location=True),
              "type": lambda s: parse_type(s, no_location=True), "coord": lambda s: parse_schema_coordinate(s, no_location=True)}[what]

        def scenario(c):
            g = grammar.Gen(c, depth=3)
            if what in ("value", "const"):
                g.value(what == "const", 0)
            elif what == "type":
                g.type_ref()
            else:
                form = c.pick(["T", "T.f", "T.f(a:)", "@d", "@d(a:)"], "coord", cost=0)
                n1 = c.pick(["T", "on", "query"], "n1")
                n2 = c.pick(["f", "on", "true"], "n2")
                n3 = c.pick(["a", "on"], "n3")
                return form.replace("T", "\x01").replace("f", "\x02").replace("a", "\x03").replace("d", "\x01").replace("\x01", n1).replace("\x02", n2).replace("\x03", n3)
            return grammar.text_of(g.out)

        def visit(c, src):
            r = check_source(src, fn, res, viol)
            if r:
                res.outcome(r[1])
                res.sample({"entry": what, "source": src, "printed": r[1]}, 1)

        res.add_stats(explore(scenario, k, visit))
    elif kind in ("str", "strshort"):
        cur["kind"] = "str"
        L = 3 if tier == "quick" else 4
        if kind == "strshort":
            bodies = [""]
        else:
            first = SIGMA_STR[arg]
            bodies = (first + "".join(t) for n in range(0, L) for t in itertools.product(SIGMA_STR, repeat=n))
        for body in bodies:
            cur["body"] = body
            check_string(body, res, viol)
            res.states += 1
            res.transitions += 1
        if kind == "str" and arg == 10:
            res.sample({"string_body": " \u2028a", "contexts": [c[0] for c in CONTEXTS]})
    elif kind == "layout":
        cur["kind"] = "str"
        i, j = arg
        L = 6 if tier == "quick" else 7
        nl = 5 if tier == "quick" else 6
        syms = LAYOUT[:nl]
        for n in range(0, L - 1):
            for t in itertools.product(syms, repeat=n):
                body = syms[i] + syms[j] + "".join(t)
                cur["body"] = body
                check_string(body, res, viol, full=False)
                res.states += 1
                res.transitions += 1
    elif kind == "lines":
        cur["kind"] = "str"
        first = LINE_ALPHA[arg]
        for n in (1, 2) if tier == "quick" else (1, 2, 3):
            for t in itertools.product(LINE_ALPHA, repeat=n):
                body = "\n".join((first,) + t)
                cur["body"] = body
                check_string(body, res, viol, full=False)
                res.states += 1
                res.transitions += 1
    elif kind == "long":
        run_long(res, viol)
    elif kind == "wrap":
        cur["kind"] = "wrap"
        # the printer switches layout when a line would exceed 80 columns
        def p(s):
            return parse(s, no_location=True)

        for width in range(60, 100, 1):
            name = "a" * width
            for src in (
                "{ f(%s: 1, b: [1, 2], c: {k: \"v\"}) }" % name,
                "{ f(x: [%s, B, C]) }" % name,
                "{ f(x: {%s: 1, b: \"s\"}) }" % name,
                "query Q($%s: Int = 1, $b: [Int!]! = [1]) @d(a: 1) { f }" % name,
                "type T { f(%s: Int = 1 @d, \"d\" b: S = \"\"\"x\"\"\"): Int }" % name,
                "directive @d(%s: Int, b: [S] = [\"x\"]) repeatable on FIELD | QUERY" % name,
                "type T implements %s & J @d(a: \"\"\"b\n c\"\"\") { f: Int }" % name,
                "{ f(x: [[%s, \"\"\"m\n  l\"\"\"], {a: [1]}]) }" % name,
            ):
                cur["body"] = src
                r = check_source(src, p, res, viol)
                res.states += 1
                res.transitions += 1
                if r:
                    res.outcome(r[1])
    return res


def replay(payload):
    from graphql import parse, parse_const_value, parse_schema_coordinate, parse_type, parse_value

    res = Result()
    out = []

    def viol(sig, label, summary, src=None):
        out.append({"signature": sig, "summary": f"{label!r}: {summary}"})

    if payload.get("kind") == "str":
        check_string(payload["body"], res, viol)
    else:
        fa, dd = payload.get("flags") or (True, True)
        entry = payload.get("entry")
        fn = {"value": lambda s: parse_value(s, no_location=True), "const": lambda s: parse_const_value(s, no_location=True),
              "type": lambda s: parse_type(s, no_location=True), "coord": lambda s: parse_schema_coordinate(s, no_location=True),
              None: lambda s: parse(s, no_location=True, experimental_fragment_arguments=fa,
                                    experimental_directives_on_directive_definitions=dd)}[entry]
        check_source(payload["source"], fn, res, viol)
    return out
