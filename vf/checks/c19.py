"""C19  Schema transformations preserve meaning: extend == build, sort only reorders, diff reflexive and faithful."""

from __future__ import annotations

import itertools
import re

from vf.engine.runner import Result
from vf.gen import schemaedits as E
from vf.gen import schemas as S
from vf.ref import schemafp as F

ID = "C19"
TITLE = "Schema transformations preserve meaning: extend equals build, sort only reorders"
BOUNDS = {
    "quick": "extend: A = rich base + <=1 of 51 features (52). For every A: every set of <=2 of ~31 extension items "
             "(single items in every order of their definitions, pairs in document order) and the document of ALL "
             "items at once in 8 orders; for A = base and A = base + schema block every pair in EVERY order of its "
             "definitions (all permutations up to 4 definitions, rotations/reversals/adjacent swaps beyond); base with "
             "reversed definitions x every set of <=2 items; history variant (request executed before extending) for every A x single item and base x "
             "pairs. sort: all 1320 schemas base + <=2 features (SDL and programmatic). diff: 52 A x 64 single edits "
             "(one or more per change kind), reflexivity on every schema",
    "thorough": "extend: 52 A x every set of <=2 items in EVERY order of its definitions (+ the ALL document); every set "
                "of 3 items (document and reversed order) for 3 core A; A with reversed definitions for every A x "
                "single items; history for every A x single items and 7 core A x pairs. sort: all ~21.7k schemas base "
                "+ <=3 features. diff: 52 A x 64 edits, reflexivity on every schema base + <=2 features",
}
RULE = (
    "exhaustive: (1) every pair (A, B) of the bound: fingerprint(extend_schema(build(A), parse(B))) == "
    "fingerprint(build(A+B)) == the fingerprint computed from the declarative spec merged by the reference rule "
    "(definitions in document order, then extensions in document order), printed forms agree, both validate, the "
    "original schema's fingerprint is unchanged, a document without type system definitions returns the same object; "
    "history variant: a request is executed on build(A) first (memoised defaults), then the extended schema must pass "
    "the same argument values to resolvers as build(A+B). (2) lexicographic_sort_schema on every family schema: no "
    "changes either direction, idempotent print, fingerprint equal modulo order, every list in natural order (own "
    "key), token multiset of the print preserved. (3) find_schema_changes(s,s)==[] (same object, independently built "
    "copy, SDL vs programmatic build); every single edit of the menu is reported in both directions with the expected "
    "change type, changes != [] <=> prints differ, every change names a type/directive whose fingerprint entry "
    "differs. distinct = distinct (printed result | recorded args | change lists)"
)
ASSUMPTIONS = [
    "fingerprints read schema objects as data (vf/ref/schemafp.py); the merged spec is an independent reference for A+B",
    "documents are parsed with experimental_directives_on_directive_definitions=True (needed by one feature / one item only)",
    "definition orders of documents with more than 4 definitions: rotations, reversals and adjacent transpositions only",
    "edits are limited to the change kinds find_schema_changes knows (deprecation, specifiedBy, oneOf, root and order "
    "changes have no change kind)",
]

CORE_A = [(), ("schema_block",), ("roots_custom",), ("mutation_root",), ("name_mutation_object",),
          ("name_subscription_enum",), ("desc_multiline",)]
CORE_QUICK = 2  # quick: every order of every pair for the first two core A
CORE_THOROUGH = 3  # thorough: every set of three items for the first three core A


def a_list(tier):
    return [()] + [(f,) for f in S.FEATURES]


# --------------------------------------------------------------------------- helpers


class Case:
    def __init__(self, res, payload, label):
        self.res, self.payload, self.label, self.failed = res, payload, label, False
        self.found = []

    def viol(self, sig, text):
        if self.failed:
            return
        self.failed = True
        summary = f"{self.label}: {text}"
        self.found.append({"signature": sig, "summary": summary})
        self.res.violation(sig, summary, self.payload)


def _parse(text):
    from graphql import parse

    return parse(text, experimental_directives_on_directive_definitions=True)


def _concat(doc_a, doc_b):
    from graphql.language import DocumentNode

    return DocumentNode(definitions=tuple(doc_a.definitions) + tuple(doc_b.definitions))


class ACtx:
    """Everything derived from one A, shared by all B."""

    def __init__(self, features, reversed_defs=False):
        from graphql import build_ast_schema

        self.features = tuple(features)
        self.reversed = reversed_defs
        spec = S.make_spec(features, base=E.c19_base())
        if reversed_defs:
            spec.types.reverse()
            spec.directives.reverse()
        self.spec = spec
        self.sdl = S.render_sdl(spec)
        self.doc = _parse(self.sdl)
        self.schema = build_ast_schema(self.doc)
        self.fp = F.fingerprint(self.schema)
        self.items = E.extension_items(spec)
        self.by_id = {it.id: it for it in self.items}

    def fresh(self):
        from graphql import build_ast_schema

        self.schema = build_ast_schema(self.doc)
        self.fp = F.fingerprint(self.schema)


_ctx_cache = {}


def ctx_for(features, reversed_defs=False):
    key = (tuple(features), reversed_defs)
    c = _ctx_cache.get(key)
    if c is None:
        if len(_ctx_cache) > 8:
            _ctx_cache.clear()
        c = _ctx_cache[key] = ACtx(features, reversed_defs)
    return c


def _sig_of(diffs):
    return F.path_class(diffs[0]) if diffs else "?"


def defs_of(ctx, item_ids, order):
    defs = [d for i in item_ids for d in ctx.by_id[i].defs]
    return [defs[k] for k in order]


# --------------------------------------------------------------------------- (1) extend == build


def check_extend(ctx, item_ids, order, res):
    from graphql import build_ast_schema, extend_schema, print_schema, validate_schema

    payload = {"mode": "ext", "a": list(ctx.features), "a_reversed": ctx.reversed, "items": list(item_ids), "order": list(order)}
    defs = defs_of(ctx, item_ids, order)
    text_b = "\n\n".join(d.sdl for d in defs)
    case = Case(res, payload, f"A=base+{'+'.join(ctx.features) or '-'}{' (reversed)' if ctx.reversed else ''} B={text_b!r}")
    res.states += 1
    try:
        doc_b = _parse(text_b)
    except Exception as e:  # noqa: BLE001
        case.viol(f"precondition:parse_b:{type(e).__name__}", repr(e))
        return case
    try:
        ext = extend_schema(ctx.schema, doc_b)
    except Exception as e:  # noqa: BLE001
        case.viol(f"extend_raises:{type(e).__name__}", str(e)[:300])
        return case
    try:
        both = build_ast_schema(_concat(ctx.doc, doc_b))
    except Exception as e:  # noqa: BLE001
        case.viol(f"build_a_plus_b_raises:{type(e).__name__}", str(e)[:300])
        return case
    res.executions += 2
    fp_ext, fp_both = F.fingerprint(ext), F.fingerprint(both)
    res.evaluations += 1
    d = F.diff(fp_ext, fp_both)
    if d:
        case.viol(f"extend_differs_from_build:{_sig_of(d)}", f"extend vs build(A+B): {d[:3]}")
    if not case.failed:
        expected = S.spec_fingerprint(E.merge(ctx.spec, defs))
        res.evaluations += 1
        d = F.diff(fp_both, expected)
        if d:
            case.viol(f"build_differs_from_reference:{_sig_of(d)}", f"build(A+B) vs merged spec: {d[:3]}")
    if not case.failed:
        p_ext, p_both = print_schema(ext), print_schema(both)
        res.executions += 2
        res.evaluations += 1
        if p_ext != p_both:
            i = next((k for k in range(min(len(p_ext), len(p_both))) if p_ext[k] != p_both[k]), 0)
            case.viol("prints_differ", f"at offset {i}: {p_ext[max(0, i - 40):i + 40]!r} vs {p_both[max(0, i - 40):i + 40]!r}")
        res.outcome(p_both)
    if not case.failed:
        # B is valid against A by construction; the extended schema equals build(A+B) by fingerprint
        errs = validate_schema(both)
        res.evaluations += 1
        if errs:
            case.viol("result_invalid[build(A+B)]", f"validate_schema(build(A+B)) = {[e.message for e in errs][:2]}")
    # the original schema object is unchanged
    res.evaluations += 1
    d = F.diff(F.fingerprint(ctx.schema), ctx.fp)
    if d:
        case.viol(f"original_schema_changed:{_sig_of(d)}", f"fingerprint of build(A) after extending: {d[:3]}")
        ctx.fresh()
    res.transitions += 6
    return case


def check_noop(ctx, res):
    from graphql import extend_schema
    from graphql.language import DocumentNode

    docs = [
        ("empty document", DocumentNode(definitions=())),
        ("executable only", _parse("{ __typename } fragment F on " + ctx.spec.query + " { __typename }")),
    ]
    case = None
    for name, doc in docs:
        case = Case(res, {"mode": "noop", "a": list(ctx.features), "a_reversed": ctx.reversed},
                    f"A=base+{'+'.join(ctx.features) or '-'} B=<{name}>")
        res.states += 1
        try:
            out = extend_schema(ctx.schema, doc)
        except Exception as e:  # noqa: BLE001
            case.viol(f"noop_extend_raises:{type(e).__name__}", repr(e))
            return case
        res.executions += 1
        res.evaluations += 1
        if out is not ctx.schema:
            case.viol("noop_extend_returns_new_object", "extending with a document that adds nothing did not return the same schema object")
            return case
        res.outcome(("noop", name))
    return case


# --------------------------------------------------------------------------- history variant


def _canon(v):
    if isinstance(v, dict):
        return "{" + ", ".join(f"{k}: {_canon(v[k])}" for k in sorted(v)) + "}"
    if isinstance(v, (list, tuple)):
        return "[" + ", ".join(_canon(x) for x in v) + "]"
    return repr(v)


def run_recorded(schema, query):
    """Execute ``query``; return {root field: canonical text of the argument values its resolver got}."""
    from graphql import graphql_sync

    rec = {}

    def resolver(_source, info, **args):
        rec[info.field_name] = _canon(args)
        return None

    r = graphql_sync(schema, query, field_resolver=resolver)
    if r.errors:
        rec["<errors>"] = repr(sorted(e.message for e in r.errors))
    return rec


def check_history(ctx, item_ids, order, res, with_cold=True):
    from graphql import build_ast_schema, extend_schema

    payload = {"mode": "hist", "a": list(ctx.features), "items": list(item_ids), "order": list(order)}
    defs = defs_of(ctx, item_ids, order)
    text_b = "\n\n".join(d.sdl for d in defs)
    case = Case(res, payload, f"A=base+{'+'.join(ctx.features) or '-'} B={text_b!r}")
    res.states += 1
    doc_b = _parse(text_b)
    merged = E.merge(ctx.spec, defs)
    q_a, q_ab = E.root_query(ctx.spec), E.root_query(merged)
    try:
        want = run_recorded(build_ast_schema(_concat(ctx.doc, doc_b)), q_ab)
        orig_after_ext = None
        if with_cold:
            # no history: extend a fresh build(A), execute on the EXTENDED schema first, then on the original
            s_c = build_ast_schema(ctx.doc)
            cold = run_recorded(extend_schema(s_c, doc_b), q_ab)
            orig_after_ext = run_recorded(s_c, q_a)
        else:
            cold = want
        s_a = build_ast_schema(ctx.doc)
        before = run_recorded(s_a, q_a)  # the history: memoises the coerced defaults inside build(A)
        ext = extend_schema(s_a, doc_b)
        warm = run_recorded(ext, q_ab)
        after = run_recorded(s_a, q_a) if with_cold else before
    except Exception as e:  # noqa: BLE001
        case.viol(f"history_raises:{type(e).__name__}", repr(e)[:300])
        return case
    res.executions += 6
    res.transitions += 6

    def first_diff(x, y):
        for k in sorted(set(x) | set(y)):
            if x.get(k) != y.get(k):
                return f"field {k}: got {x.get(k)} want {y.get(k)}"
        return ""

    res.evaluations += 3
    if cold != want:
        case.viol("behaviour:extended_differs_from_build", f"query {q_ab!r}: {first_diff(cold, want)}")
    elif warm != want:
        case.viol("history:extended_schema_uses_defaults_memoised_by_original",
                  f"after executing {q_a!r} on build(A), extend_schema(build(A), B) answers {q_ab!r} with stale "
                  f"argument defaults: {first_diff(warm, want)} (build(A+B) and an extension of a fresh build(A) agree)")
    elif after != before:
        case.viol("history:original_schema_behaviour_changed", f"query {q_a!r}: {first_diff(after, before)}")
    if orig_after_ext is not None:
        # judged as a case of its own (the original schema must stay unchanged, also in behaviour)
        res.evaluations += 1
        case2 = Case(res, payload, case.label)
        if orig_after_ext != before:
            case2.viol("history:original_schema_uses_defaults_memoised_by_extension",
                       f"after executing {q_ab!r} on extend_schema(build(A), B), the ORIGINAL build(A) answers {q_a!r} "
                       f"with argument defaults coerced against the extended types: {first_diff(orig_after_ext, before)}")
        case.found.extend(case2.found)
    res.outcome(("hist", tuple(sorted(want.items()))))
    return case


# --------------------------------------------------------------------------- (2) sort


def natural_key(name):
    """Own natural-order key: digit runs by value (then text), other runs as text."""
    out = []
    i, n = 0, len(name)
    while True:
        j = i
        while j < n and not name[j].isdigit():
            j += 1
        out.append((0, name[i:j]))
        if j >= n:
            break
        i = j
        while j < n and name[j].isdigit():
            j += 1
        out.append((int(name[i:j]), name[i:j]))
        i = j
    return out


def _unordered(x):
    if isinstance(x, dict):
        return {k: _unordered(v) for k, v in x.items()}
    if isinstance(x, list):
        if x and all(isinstance(i, list) and len(i) == 2 and isinstance(i[0], str) for i in x):
            return sorted(([i[0], _unordered(i[1])] for i in x), key=lambda p: p[0])
        if all(isinstance(i, str) for i in x):
            return sorted(x)
        return [_unordered(i) for i in x]
    return x


def _unsorted_lists(x, path=""):
    """Paths of name lists that are not in natural order."""
    bad = []
    if isinstance(x, dict):
        for k, v in x.items():
            if k == "specified_directives":
                continue
            bad.extend(_unsorted_lists(v, f"{path}/{k}"))
    elif isinstance(x, list):
        if x and all(isinstance(i, list) and len(i) == 2 and isinstance(i[0], str) for i in x):
            names = [i[0] for i in x]
            if names != sorted(names, key=natural_key):
                bad.append(f"{path}: {names}")
            for n, v in x:
                bad.extend(_unsorted_lists(v, f"{path}/{n}"))
        elif x and all(isinstance(i, str) for i in x):
            if x != sorted(x, key=natural_key):
                bad.append(f"{path}: {x}")
    return bad


_TOKEN = re.compile(r"[A-Za-z_0-9]+|\S")


def check_sort(schema, case, how):
    from graphql import print_schema
    from graphql.utilities import find_schema_changes, lexicographic_sort_schema

    res = case.res
    res.states += 1
    fp0 = F.fingerprint(schema)
    try:
        srt = lexicographic_sort_schema(schema)
        srt2 = lexicographic_sort_schema(srt)
    except Exception as e:  # noqa: BLE001
        return case.viol(f"sort_raises:{type(e).__name__}", f"[{how}] {e!r}")
    res.executions += 2
    fps = F.fingerprint(srt)
    res.evaluations += 1
    d = F.diff(_unordered(fp0), _unordered(fps))
    if d:
        return case.viol(f"sort_changes_content:{_sig_of(d)}", f"[{how}] modulo order: {d[:3]}")
    res.evaluations += 1
    bad = _unsorted_lists(fps)
    if bad:
        return case.viol("sort_result_not_in_natural_order", f"[{how}] {bad[:2]}")
    p, ps, ps2 = print_schema(schema), print_schema(srt), print_schema(srt2)
    res.executions += 3
    res.evaluations += 2
    if ps2 != ps:
        return case.viol("sort_not_idempotent", f"[{how}] print(sort(sort(s))) != print(sort(s))")
    if sorted(_TOKEN.findall(p)) != sorted(_TOKEN.findall(ps)):
        return case.viol("sorted_print_not_a_permutation", f"[{how}] token multisets of print(s) and print(sort(s)) differ")
    for a, b, name in ((schema, srt, "s->sorted"), (srt, schema, "sorted->s")):
        ch = find_schema_changes(a, b)
        res.executions += 1
        res.evaluations += 1
        if ch:
            return case.viol(f"sort_reports_changes:{ch[0].type.name}", f"[{how}] {name}: {[(c.type.name, c.description) for c in ch][:3]}")
    res.evaluations += 1
    d = F.diff(F.fingerprint(schema), fp0)
    if d:
        return case.viol(f"sort_changed_original:{_sig_of(d)}", f"[{how}] {d[:3]}")
    res.transitions += 7
    res.outcome(ps)
    return None


def run_sort(features, res):
    from graphql import build_schema

    case = Case(res, {"mode": "sort", "features": list(features)}, "sort features " + "+".join(features or ("<base>",)))
    spec = S.make_spec(features)
    s = build_schema(S.render_sdl(spec), experimental_directives_on_directive_definitions=True)
    check_sort(s, case, "sdl")
    if not case.failed:
        check_sort(S.construct(spec, **S.PROGRAMMATIC_STYLES[1]), case, "programmatic:legacy,reversed")
    return case


# --------------------------------------------------------------------------- (3) diff


def _entries(fp):
    return F.top_level_entries(fp)


_WORD = re.compile(r"@?[_A-Za-z][_0-9A-Za-z]*")


def _mentioned(description, names):
    words = set(_WORD.findall(description))
    return [n for n in names if n in words]


def check_changes_pair(s_old, s_new, case, how, expect=None, attribute=True):
    """changes != [] <=> prints differ; expected type reported; every change names a differing element."""
    from graphql import print_schema
    from graphql.utilities import find_schema_changes

    res = case.res
    res.states += 1
    p_old, p_new = print_schema(s_old), print_schema(s_new)
    fp_old, fp_new = F.fingerprint(s_old), F.fingerprint(s_new)
    e_old, e_new = _entries(fp_old), _entries(fp_new)
    differing = {n for n in set(e_old) | set(e_new) if e_old.get(n) != e_new.get(n)}
    obs = []
    for a, b, name in ((s_old, s_new, "old->new"), (s_new, s_old, "new->old")):
        try:
            ch = find_schema_changes(a, b)
        except Exception as e:  # noqa: BLE001
            return case.viol(f"find_schema_changes_raises:{type(e).__name__}", f"[{how}] {name}: {e!r}")
        res.executions += 1
        res.evaluations += 1
        if bool(ch) != (p_old != p_new):
            if ch:
                return case.viol(f"changes_reported_but_prints_equal:{ch[0].type.name}",
                                 f"[{how}] {name}: {[(c.type.name, c.description) for c in ch][:3]}")
            return case.viol(f"difference_not_reported[{expect or 'prints differ'}]",
                             f"[{how}] {name}: prints differ (fingerprint: {F.diff(fp_old, fp_new)[:2]}) but find_schema_changes == []")
        if expect is not None and name == "old->new":
            res.evaluations += 1
            kinds = [c.type.name for c in ch]
            if expect not in kinds:
                return case.viol(f"expected_change_missing:{expect}", f"[{how}] reported {kinds}")
        for c in ch if attribute else ():
            res.evaluations += 1
            m = _mentioned(c.description, set(e_old) | set(e_new))
            if not any(n in differing for n in m):
                return case.viol(f"change_names_unchanged_element:{c.type.name}",
                                 f"[{how}] {name}: {c.description!r} mentions {m}, but the differing elements are {sorted(differing)}")
        obs.append(tuple(sorted((c.type.name, c.description) for c in ch)))
    res.transitions += 2
    res.outcome(("diff", tuple(obs)))
    return None


_old_cache = {}
_spec_cache = {}


def run_edit(features, edit_id, res):
    from graphql import build_schema

    case = Case(res, {"mode": "diff", "a": list(features), "edit": edit_id},
                f"edit {edit_id} on base+{'+'.join(features) or '-'}")
    spec_a = _spec_cache.get(tuple(features))
    if spec_a is None:
        if len(_spec_cache) > 6:
            _spec_cache.clear()
        spec_a = _spec_cache[tuple(features)] = S.make_spec(features, base=E.c19_base())
    e = next(x for x in E.EDITS if x.id == edit_id)
    old, new = E.apply_edit(spec_a, e)
    try:
        text_old = S.render_sdl(old)
        s_old = _old_cache.get(text_old)
        if s_old is None:
            if len(_old_cache) > 6:
                _old_cache.clear()
            s_old = _old_cache[text_old] = build_schema(text_old, experimental_directives_on_directive_definitions=True)
        s_new = build_schema(S.render_sdl(new), experimental_directives_on_directive_definitions=True)
    except Exception as ex:  # noqa: BLE001
        case.viol(f"precondition:edit_build_raises:{type(ex).__name__}", str(ex)[:300])
        return case
    res.executions += 2
    check_changes_pair(s_old, s_new, case, "sdl", expect=e.expect)
    return case


def run_reflexive(features, rich, res):
    """find_schema_changes(s, s) == [] on the same object, a second build, and SDL vs programmatic."""
    from graphql import build_schema
    from graphql.utilities import find_schema_changes

    case = Case(res, {"mode": "refl", "features": list(features), "rich": rich},
                f"reflexivity on {'rich ' if rich else ''}base+{'+'.join(features) or '-'}")
    spec = S.make_spec(features, base=E.c19_base() if rich else None)
    text = S.render_sdl(spec)
    s1 = build_schema(text, experimental_directives_on_directive_definitions=True)
    res.states += 1
    res.executions += 2
    res.evaluations += 1
    ch = find_schema_changes(s1, s1)
    if ch:
        case.viol(f"diff_not_reflexive:{ch[0].type.name}", f"find_schema_changes(s, s) = {[(c.type.name, c.description) for c in ch][:3]}")
        return case
    s2 = build_schema(text, experimental_directives_on_directive_definitions=True)
    check_changes_pair(s1, s2, case, "two builds of one SDL")
    if not case.failed:
        # same literals: the prints must be identical and nothing may be reported
        s3 = S.construct(spec, **S.PROGRAMMATIC_STYLES[2])
        check_changes_pair(s1, s3, case, "sdl vs programmatic (literal defaults)")
        if not case.failed:
            from graphql import print_schema

            res.evaluations += 1
            if print_schema(s1) != print_schema(s3):
                case.viol("sdl_and_programmatic_build_print_differently", "same spec, literal defaults: prints differ")
    if not case.failed:
        # external values: the library may choose another literal spelling ("42" vs 42); only the equivalence
        # changes != [] <=> prints differ is judged
        check_changes_pair(s1, S.construct(spec, **S.PROGRAMMATIC_STYLES[0]), case, "sdl vs programmatic (value defaults)",
                           attribute=False)
    return case


# --------------------------------------------------------------------------- shards


def item_sets(ctx, m):
    ids = [it.id for it in ctx.items]
    out = []
    for n in range(1, m + 1):
        out.extend(itertools.combinations(ids, n))
    return out


def n_defs(ctx, item_ids):
    return sum(len(ctx.by_id[i].defs) for i in item_ids)


def shards(tier):
    out = [("redefined", 0, 0, 1)]
    al = a_list(tier)
    for ai in range(len(al)):
        nsplit = 6 if tier != "quick" else 3
        for j in range(nsplit):
            out.append(("ext", ai, j, nsplit))
    for ai in range(len(al)):
        nh = 8 if (ai == 0 or (tier != "quick" and al[ai] in CORE_A)) else 1
        for j in range(nh):
            out.append(("hist", ai, j, nh))
    nperm = 6 if tier == "quick" else 12
    for ci in range(CORE_QUICK if tier == "quick" else CORE_THOROUGH):
        for j in range(nperm):
            out.append(("perm", ci, j, nperm))
    if tier == "quick":
        out.append(("rev", 0, 0, 1))
    else:
        for ai in range(len(al)):
            out.append(("rev", ai, 0, 1))
    nsort = 16 if tier == "quick" else 64
    for i in range(nsort):
        out.append(("sort", i, nsort))
    ndiff = 26 if tier == "quick" else 128
    for i in range(ndiff):
        out.append(("diff", i, ndiff))
    return out


def orders_big(n):
    """Orders for the document holding ALL items: document order, three rotations, and their reversals."""
    idx = list(range(n))
    out = []
    for r in (0, n // 4, n // 2, (3 * n) // 4):
        rot = idx[r:] + idx[:r]
        for o in (rot, rot[::-1]):
            if o not in out:
                out.append(o)
    return out


def ext_cases(ctx, tier, part=0):
    """(item_ids, order) of the 'ext' shard family for one A."""
    out = []
    for ids in item_sets(ctx, 2):
        n = n_defs(ctx, ids)
        if len(ids) == 1 or tier != "quick":
            for o in E.orders(n):
                out.append((ids, o))
        else:
            out.append((ids, list(range(n))))
    # all items of the menu in ONE document (they are compatible by construction)
    all_ids = tuple(it.id for it in ctx.items)
    for o in orders_big(n_defs(ctx, all_ids)):
        out.append((all_ids, o))
    return out


def perm_cases(ctx, tier):
    out = []
    if tier == "quick":
        for ids in item_sets(ctx, 2):
            if len(ids) < 2:
                continue
            n = n_defs(ctx, ids)
            for o in E.orders(n):
                if o == list(range(n)):
                    continue  # done in the 'ext' family
                out.append((ids, o))
    else:
        ids_all = [it.id for it in ctx.items]
        for ids in itertools.combinations(ids_all, 3):
            n = n_defs(ctx, ids)
            out.append((ids, list(range(n))))
            out.append((ids, list(range(n))[::-1]))
    return out


# hand family: a specified directive redefined by the schema (legal SDL; the user's definition replaces the built-in one) with arguments
# of user-defined types - the transformations must treat it like any other directive of the schema
REDEF_BASES = [
    "directive @skip(if: Boolean!, mode: Mode) on FIELD | FRAGMENT_SPREAD | INLINE_FRAGMENT\nenum Mode { X Y }\ntype Query { a: Int }",
    "directive @include(if: Boolean!, cfg: Cfg = {k: 1}) on FIELD | FRAGMENT_SPREAD | INLINE_FRAGMENT\ninput Cfg { k: Int }\ntype Query { a: Int }",
    "directive @deprecated(reason: String = \"No longer supported\", since: Ver) on FIELD_DEFINITION | ENUM_VALUE | ARGUMENT_DEFINITION | INPUT_FIELD_DEFINITION\nscalar Ver\ntype Query { a: Int @deprecated(since: 1) }",
    "directive @specifiedBy(url: String!, kind: Kind) on SCALAR\nenum Kind { RFC }\nscalar U @specifiedBy(url: \"x\", kind: RFC)\ntype Query { u: U }",
]
REDEF_EXTS = ["extend type Query { b: Int }", "type N { x: Int }", "enum Other { A }\nextend type Query { o: Other }"]


def _stale_references(schema):
    """Named types referenced from directive arguments / fields that are not the object the schema's type map holds under that name."""
    import graphql as g

    out = []

    def named(t):
        while isinstance(t, (g.GraphQLList, g.GraphQLNonNull)):
            t = t.of_type
        return t

    for d in schema.directives:
        for an, a in d.args.items():
            t = named(a.type)
            if schema.type_map.get(t.name) is not t:
                out.append(f"@{d.name}({an}:) -> {t.name}")
    for t in schema.type_map.values():
        for fn, f in (getattr(t, "fields", None) or {}).items():
            ft = named(f.type)
            if schema.type_map.get(ft.name) is not ft:
                out.append(f"{t.name}.{fn} -> {ft.name}")
    return out


def run_redefined(res):
    from graphql import build_schema, parse, print_schema
    from graphql.utilities import extend_schema, lexicographic_sort_schema

    for bi, a in enumerate(REDEF_BASES):
        for ei, b in enumerate(REDEF_EXTS):
            res.states += 1
            res.transitions += 1
            res.evaluations += 1
            res.executions += 2
            payload = {"mode": "redefined", "base": bi, "ext": ei}
            label = f"A = {a!r} B = {b!r}"
            try:
                built = build_schema(a + "\n" + b)
                base = build_schema(a)
            except Exception as e:  # noqa: BLE001
                res.violation("redefined_directive:build_raises", f"{label}: {type(e).__name__}: {e}", payload)
                continue
            try:
                ext = extend_schema(base, parse(b))
            except Exception as e:  # noqa: BLE001
                res.violation("redefined_directive:extend_raises", f"{label}: extend_schema raised {type(e).__name__}: {e}; build(A+B) works", payload)
                continue
            stale = _stale_references(ext)
            if stale:
                res.violation("redefined_directive:extended_schema_has_stale_references", f"{label}: {stale}", payload)
                continue
            da = {d.name: sorted(d.args) for d in ext.directives}
            db = {d.name: sorted(d.args) for d in built.directives}
            if print_schema(ext) != print_schema(built) or da != db:
                res.violation("redefined_directive:extend_differs_from_build", f"{label}: directives {da} vs {db}", payload)
                continue
            res.outcome(("redefined", bi, ei))
        res.executions += 1
        payload = {"mode": "redefined", "base": bi, "ext": None}
        try:
            base = build_schema(a)
            srt = lexicographic_sort_schema(base)
            again = lexicographic_sort_schema(srt)
        except Exception as e:  # noqa: BLE001
            res.violation("redefined_directive:sort_raises", f"A = {a!r}: lexicographic_sort_schema raised {type(e).__name__}: {e}", payload)
            continue
        stale = _stale_references(srt)
        if stale:
            res.violation("redefined_directive:sorted_schema_has_stale_references", f"A = {a!r}: {stale}", payload)
            continue
        if print_schema(srt) != print_schema(again) or sorted(srt.type_map) != sorted(base.type_map):
            res.violation("redefined_directive:sort_not_idempotent", f"A = {a!r}", payload)
            continue
        res.outcome(("redefined_sort", bi))
    res.sample({"family": "redefined specified directive", "A": REDEF_BASES[0], "B": REDEF_EXTS[0]}, 1)


def run_shard(shard, tier):
    res = Result()
    kind = shard[0]
    if kind == "redefined":
        run_redefined(res)
        return res
    al = a_list(tier)
    if kind == "ext":
        _, ai, j, n = shard
        ctx = ctx_for(al[ai])
        cases = ext_cases(ctx, tier, j)
        for idx in range(j, len(cases), n):
            ids, order = cases[idx]
            check_extend(ctx, ids, order, res)
        if j == 0:
            check_noop(ctx, res)
        if ai == 0 and j == 0:
            res.sample({"A": "rich base", "B": "\n".join(d.sdl for d in defs_of(ctx, cases[40][0], cases[40][1]))})
            res.count("extension_items", len(ctx.items))
    elif kind == "hist":
        # history variant: every single item (document order) for every A; sets of two for the base (quick) / the core A (thorough)
        _, ai, j, n = shard
        ctx = ctx_for(al[ai])
        pairs_too = ai == 0 or (tier != "quick" and al[ai] in CORE_A)
        sets = item_sets(ctx, 2 if pairs_too else 1)
        for idx in range(j, len(sets), n):
            ids = sets[idx]
            check_history(ctx, ids, list(range(n_defs(ctx, ids))), res, with_cold=(ai == 0 or tier != "quick"))
    elif kind == "perm":
        _, ci, j, n = shard
        ctx = ctx_for(CORE_A[ci])
        cases = perm_cases(ctx, tier)
        for idx in range(j, len(cases), n):
            ids, order = cases[idx]
            check_extend(ctx, ids, order, res)
    elif kind == "rev":
        _, ai, _j, _n = shard
        ctx = ctx_for(al[ai], reversed_defs=True)
        for ids in item_sets(ctx, 2 if tier == "quick" else 1):
            n = n_defs(ctx, ids)
            check_extend(ctx, ids, list(range(n)), res)
        check_noop(ctx, res)
    elif kind == "sort":
        _, i, n = shard
        combos = S.enumerate_schemas(2 if tier == "quick" else 3)
        for idx in range(i, len(combos), n):
            run_sort(combos[idx], res)
        if i == 0:
            res.sample({"sort": list(combos[min(70, len(combos) - 1)])})
    elif kind == "diff":
        _, i, n = shard
        work = [(a, e.id) for a in al for e in E.EDITS]
        for idx in range(i, len(work), n):
            run_edit(work[idx][0], work[idx][1], res)
        refl = [(c, False) for c in S.enumerate_schemas(1 if tier == "quick" else 2)] + [(a, True) for a in al]
        for idx in range(i, len(refl), n):
            run_reflexive(refl[idx][0], refl[idx][1], res)
        if i == 0:
            res.sample({"edit": E.EDITS[3].id, "expects": E.EDITS[3].expect})
            res.count("edits_in_menu", len(E.EDITS))
    return res


def replay(payload):
    res = Result()
    mode = payload.get("mode")
    if mode in ("ext", "hist"):
        ctx = ACtx(tuple(payload["a"]), bool(payload.get("a_reversed")))
        fn = check_extend if mode == "ext" else check_history
        return fn(ctx, tuple(payload["items"]), list(payload["order"]), res).found
    if mode == "noop":
        ctx = ACtx(tuple(payload["a"]), bool(payload.get("a_reversed")))
        return check_noop(ctx, res).found
    if mode == "sort":
        return run_sort(tuple(payload["features"]), res).found
    if mode == "diff":
        return run_edit(tuple(payload["a"]), payload["edit"], res).found
    if mode == "redefined":
        run_redefined(res)
        return [{"signature": v["signature"], "summary": v["summary"]} for v in res.violations if v["replay"] == payload]
    if mode == "refl":
        return run_reflexive(tuple(payload["features"]), bool(payload.get("rich")), res).found
    return []
