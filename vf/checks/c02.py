"""C02  Execution computes exactly what the specification's algorithm computes."""

from __future__ import annotations

import json

from vf.engine.choice import Chooser, explore
from vf.engine.runner import Result
from vf.gen import data as gdata
from vf.gen import docs as gdocs
from vf.gen import execschemas
from vf.ref import execute as refx

ID = "C02"
BOUNDS = {
    "quick": "3 forcing schemas; every operation within 2 deviations of the minimal one; every ordered selection of <=3 atoms from colliding-atom menus (4 families) (selections, aliases, arguments, directives, fragments, type conditions, variables declared/defaulted and provided/absent/null); x conforming data, all-nullable-null data and every single fault on a selected field; histories: all ordered pairs of 36 requests on shared schema/document objects",
    "thorough": "operations within 3 deviations; all atom triples; histories: all ordered triples of 24 requests",
}
RULE = (
    "exhaustive within bounds: for each enumerated (schema, validated operation, variables, data graph / single fault) the response of "
    "execute_sync equals the reference executor's (vf/ref/execute.py): data identical including key order; every reported error path is a "
    "reference field error, no path twice, and the outermost nulls explained by the reported errors equal the error-induced nulls; every "
    "resolver call received exactly the reference's coerced arguments; mutation root fields are invoked in document order; histories: a "
    "request after other requests on the same schema/document objects answers as on fresh objects. distinct = distinct (data, error paths)"
)
ASSUMPTIONS = [
    "documents are filtered by the implementation's own validate() (the property quantifies over validated documents)",
    "reference executor and coercion written from the specification (vf/ref/execute.py, vf/ref/coerce.py)",
    "leaf serialisation of well-typed menu values only; the leaf domains are C16's subject",
]


def shards(tier):
    k = 2 if tier == "quick" else 3
    out = []
    for s in execschemas.NAMES:
        ops = ["query"] + (["mutation"] if s == "S3" else [])
        for op in ops:
            # shard by the first choice point (number of root selections) and the second (kind of first selection)
            for a in range(2):
                for b in range(3):
                    out.append(("docs", (s, op, k, a, b)))
    for s in execschemas.NAMES:
        out.append(("history", s))
    for s in ATOMS:
        n = len(ATOMS[s]["atoms"])
        for i in range(n):
            out.append(("atoms", (s, i)))
    return out


# ---------------------------------------------------------------------------


def fields_in(text):
    import re

    return set(re.findall(r"[_A-Za-z][_0-9A-Za-z]*", text))


_cache = {}


def schema_for(name):
    s = _cache.get(name)
    if s is None:
        s = _cache[name] = execschemas.build(name)
    return s


def run_impl(schema, doc, root, variables, log):
    from graphql import execute_sync

    return execute_sync(schema, doc, root, variable_values=variables, field_resolver=gdata.harness_resolver(log))


def compare(schema, doc, op, variables, fault, variant_null, res, viol, label, schema_name):
    roots, _objs = gdata.build(schema, variant_null=variant_null, fault=fault)
    root = roots[op]
    log = []
    res.evaluations += 1
    res.executions += 1
    try:
        got = run_impl(schema, doc, root, variables, log)
    except Exception as e:  # noqa: BLE001
        viol("execute_raises", label, f"fault={fault} vars={variables!r}: {type(e).__name__}: {e}", fault, variant_null)
        return None
    roots2, _ = gdata.build(schema, variant_null=variant_null, fault=fault)
    want = refx.execute(schema, doc, roots2[op], variables)
    if want.unspecified:
        from vf.ref import respformat

        probs = respformat.check_result(got)
        if probs:
            viol("response_malformed", label, f"vars={variables!r}: {probs}", fault, variant_null)
            return None
        res.count("unspecified_by_spec")
        return got
    if want.request_error:
        if got.data is not None or not got.errors:
            viol("request_error_expected", label, f"vars={variables!r}: reference reports a request error ({want.request_error}), implementation returned {got.formatted!r}", fault, variant_null)
            return None
        res.outcome(("reqerr",))
        return got
    gd = json.dumps(got.data, default=repr)
    wd = json.dumps(want.data, default=repr)
    if gd != wd:
        viol("data_differs", label, f"fault={fault} null={variant_null} vars={variables!r}: implementation {gd} reference {wd}", fault, variant_null)
        return None
    gp = [tuple(e.path or ()) for e in got.errors or []]
    if len(set(gp)) != len(gp):
        viol("duplicate_error_path", label, f"fault={fault}: {gp}", fault, variant_null)
        return None
    refset = set(want.errors)
    if not set(gp) <= refset:
        viol("error_not_predicted", label, f"fault={fault} vars={variables!r}: implementation error paths {gp} not among reference field errors {sorted(refset)}", fault, variant_null)
        return None
    if refx.outermost(want.data, gp) != refx.outermost(want.data, want.errors):
        viol("errors_do_not_account_for_nulls", label, f"fault={fault}: reported {gp}, reference {want.errors}, data {wd}", fault, variant_null)
        return None
    if bool(gp) != bool(want.errors):
        viol("errors_presence", label, f"fault={fault}: reported {gp}, reference {want.errors}", fault, variant_null)
        return None
    # resolver arguments
    refcalls = {}
    for p, a in want.calls:
        refcalls.setdefault(p, []).append(a)
    for p, a in log:
        lst = refcalls.get(p)
        if not lst or a not in lst:
            viol("resolver_arguments", label, f"vars={variables!r}: resolver at {list(p)} received {a!r}, reference prescribes {lst!r}", fault, variant_null)
            return None
    if not want.errors:
        if sorted(map(repr, log)) != sorted(map(repr, want.calls)):
            viol("resolver_calls", label, f"implementation calls {log!r} reference {want.calls!r}", fault, variant_null)
            return None
    if op == "mutation":
        top_impl = [p[0] for p, _a in log if len(p) == 1]
        top_ref = [p[0] for p, _a in want.calls if len(p) == 1]
        if top_impl != top_ref[: len(top_impl)]:
            viol("mutation_order", label, f"root fields invoked {top_impl}, document order {top_ref}", fault, variant_null)
            return None
        # seriality: every call under root field i precedes the call of root field i+1
        seen_roots = []
        for p, _a in log:
            if p[0] not in seen_roots:
                seen_roots.append(p[0])
            elif p[0] != seen_roots[-1]:
                viol("mutation_not_serial", label, f"call at {list(p)} after root field {seen_roots[-1]} had started", fault, variant_null)
                return None
    res.outcome((wd, tuple(sorted(gp))))
    return got


def run_docs(arg, tier, res, viol_):
    from graphql import GraphQLSyntaxError, parse, validate

    sname, op, k, a, b = arg
    schema = schema_for(sname)
    faults_all = gdata.fault_menu(schema)
    cur = {}

    def viol(sig, label, summary, fault, vnull):
        viol_(sig, f"{sname}: {label}", summary, {"schema": sname, "op": op, "doc": cur["doc"], "vars": cur["vars"], "fault": list(fault) if fault else None, "variant_null": vnull})

    def scenario(c):
        g = gdocs.DocGen(c, schema, op=op, maxdepth=2)
        text, values = g.operation()
        return text, values

    def visit(c, out):
        text, values = out
        cur["doc"], cur["vars"] = text, {k2: repr(v) for k2, v in values.items()}
        try:
            doc = parse(text)
        except GraphQLSyntaxError as e:
            raise AssertionError(f"generator produced unparseable text {text!r}: {e}") from e
        if validate(schema, doc):
            res.count("documents_rejected_by_validation")
            return
        res.count("documents_validated")
        cur["vars"] = values
        if compare(schema, doc, op, values, None, False, res, viol, text, sname) is None:
            return
        compare(schema, doc, op, values, None, True, res, viol, text, sname)
        names = fields_in(text)
        for f in faults_all:
            if f[1] in names:
                if compare(schema, doc, op, values, f, False, res, viol, text, sname) is None:
                    return
        if len(res.samples) < 1 and c.deviations == k:
            res.sample({"schema": sname, "operation": text, "variables": {k2: repr(v) for k2, v in values.items()}})

    # root prefix: (n selections, kind of first selection)
    st = explore(scenario, k, visit, root=(a, b))
    res.add_stats(st)


# "atoms": every ordered selection of <=3 atoms from a menu in which many pairs collide on purpose
ATOM_VARS = {
    "v": ("Int", [{}, {"v": 5}, {"v": None}]),
    "s": ("Boolean = false", [{}, {"s": True}]),
    "t": ("Boolean!", [{"t": True}, {"t": False}]),
    "i": ("In", [{}, {"i": {"q": [2]}}, {"i": None}, {"i": {"p": None, "r": None, "e": None, "n": {"q": None}}}]),
    "e": ("E = X", [{}, {"e": "Y"}]),
    "l": ("[Int]", [{}, {"l": 3}, {"l": [1, None]}]),
    "w": ("Int!", [{"w": 3}]),
    "d": ("Int = 5", [{}, {"d": 1}, {"d": None}]),
}
ATOMS = {
    "S1": {
        "wrap": "query Q%s { a { %s } as { nn } }", "frags": {"F": "fragment F on A { name y: a self { a } }", "G": "fragment G on Node { id ... on B { b } }"},
        "atoms": ["id", "name", "nn", "x: a", "x: name", "self { nn }", "self { id nn }", "kids { id }", "kids { ... on A { nn } id }",
                  "nkids { name }", "nkids { ... on A { nn } }", "un { ... on B { b nn } }", "un { __typename }", "grid", "e",
                  "...F", "...F @include(if: $s)", "...F @skip(if: $t)", "...G", "... on Node { name }", "... on B { b }",
                  "name @skip(if: $s)", "name @include(if: $s)", "... @skip(if: $t) { a }", "selfnn { selfnn { nn } }",
                  "peers { nn }", "self { ...F }", "__typename"],
    },
    "S1n": {
        "schema": "S1",
        "wrap": "query Q%s { ns { %s } u { ...H } }", "frags": {"F": "fragment F on Node { greet(q: 1) }"},
        "always": "fragment H on U { ... on Node { greet } ... on B { nn } }",
        "atoms": ["greet", "greet(p: \"z\")", "greet(q: $v)", "x: greet(p: null)", "... on A { greet(extra: 2) }", "... on A { x: greet }",
                  "... on B { greet(q: 5) }", "id", "name", "... on B { b }", "...F", "__typename", "... on A { self { greet } }"],
    },
    "S2": {
        "wrap": "query Q%s { %s }", "frags": {"F": "fragment F on Query { echo(i: 1) plain }"},
        "atoms": ["echo", "echo(i: 1)", "echo(i: $v)", "echo(x: $v)", "echo(x: null)", "x: echo(e: Y, inp: {q: [1]})", "x: echo(inp: $i)",
                  "echo(inp: {n: $i, e: $e})", "echo(l: $l)", "echo(l: [1, $v])", "echo(f: 2, id: 7, b: $s)", "dfl", "dfl(ll: [{n: $i}])",
                  "dfl(s: null, nd: 1)", "dfl(one: {i: $w})", "dfl(one: {s: \"a\"})", "req(r: 1, rl: 2)", "req(r: $w, rl: [1])",
                  "plain", "...F", "...F @skip(if: $t)", "sub { echo(e: $e) }", "sub { dfl(ll: [{p: $v}]) }", "y: plain @include(if: $s)",
                  "anyarg(j: {a: $d, b: [5]})", "anyarg(j: [$d, $v, 1])", "a2: anyarg(j: {a: $v}, k: $d)", "anyout anys",
                  "many(filters: {min: $w, tag: null})", "sum(values: [$w, 3])"],
    },
    "S3": {
        "wrap": "mutation Q%s { %s }",
        "atoms": ["first { v }", "first(by: 2) { nn }", "second", "third { v }", "third(by: $v) { again { nn } }", "nn",
                  "x: first { v again { v } }", "x: second", "... @skip(if: $t) { second }", "first { nn } ", "y: nn"],
    },
}


def run_atoms(arg, tier, res, viol_):
    import itertools
    import re

    from graphql import parse, validate

    sname, first = arg
    spec = ATOMS[sname]
    atoms = spec["atoms"]
    sname = spec.get("schema", sname)
    schema = schema_for(sname)
    faults_all = gdata.fault_menu(schema)
    op = "mutation" if spec["wrap"].startswith("mutation") else "query"
    cur = {}

    def viol(sig, label, summary, fault, vnull):
        viol_(sig, f"{sname}: {label}", summary, {"schema": sname, "op": op, "doc": cur["doc"], "vars": cur["vars"], "fault": list(fault) if fault else None, "variant_null": vnull, "kind": "docs"})

    limit = len(atoms) if tier == "thorough" else min(12, len(atoms))
    combos = [(first,)]
    combos += [(first, j) for j in range(len(atoms)) if j != first]
    combos += [(first, j, k) for j in range(limit) for k in range(limit) if len({first, j, k}) == 3 and j < k]
    for combo in combos:
        body = " ".join(atoms[i] for i in combo)
        wrap = spec["wrap"] + " " + spec.get("always", "")
        for fname, fdef in spec.get("frags", {}).items():
            if "..." + fname in body:
                wrap = wrap + " " + fdef
        used = sorted(set(re.findall(r"\$([a-z])", body + wrap)))
        head = "(" + ", ".join(f"${v}: {ATOM_VARS[v][0]}" for v in used) + ")" if used else ""
        text = wrap % (head, body)
        doc = parse(text)
        res.states += 1
        if validate(schema, doc):
            res.count("documents_rejected_by_validation")
            continue
        res.count("documents_validated")
        varsets = [{}]
        for v in used:
            varsets = [dict(a, **b) for a in varsets for b in ATOM_VARS[v][1]]
        if tier == "quick" and len(varsets) > 6:
            varsets = varsets[:: len(varsets) // 6]
        names = fields_in(text)
        for values in varsets:
            cur["doc"], cur["vars"] = text, values
            res.transitions += 1
            if compare(schema, doc, op, values, None, False, res, viol, text, sname) is None:
                break
            if len(combo) < 3 or tier == "thorough":
                bad = False
                for f in faults_all:
                    if f[1] in names and (len(combo) == 1 or f[2] in ("null", "raise")):
                        if compare(schema, doc, op, values, f, False, res, viol, text, sname) is None:
                            bad = True
                            break
                if bad:
                    break
    res.sample({"schema": sname, "operation": text, "family": "atoms"}, 1)


HISTORY_DOCS = {
    "S1": [
        "{ a { id name } }", "{ a { self { nn } } }", "{ as { kids { id } } }", "{ n { ... on A { a } } }",
        "{ u { ... on B { b nn } } }", "{ a { kids { id ... on A { nn } } nkids { name } } }", "{ a { x: id y: id } }",
        "{ an { selfnn { nn } } }", "{ a { grid e } }", "{ ns { id } a { un { __typename } } }",
        "{ a { peers { self { a } } } }", "{ a { ...F } } fragment F on A { name self { name } }",
    ],
    "S2": [
        "{ echo }", "{ echo(inp: {}) }", "{ echo(inp: {p: 2}) }", "{ dfl }", "{ dfl(ll: [{q: [1]}]) }", "{ echo(e: X) }",
        "query ($v: In) { echo(inp: $v) }", "query ($v: In = {p: 9}) { echo(inp: $v) }", "{ dfl(s: null) }",
        "{ echo(inp: {n: {n: {}}}) }", "{ req(r: 1, rl: [1]) }", "{ sub { echo(x: 1) dfl(nd: 2) } }",
    ],
    "S3": [
        "{ r { v } }", "mutation { first { v } second }", "mutation { first(by: 2) { nn } third { v } }", "{ r { again { nn } } }",
        "mutation { nn }", "mutation { third(by: 1) { again { v } } first { v } }",
    ],
}
HISTORY_VARS = [{}, {"v": {"q": [2]}}, {"v": None}]


def run_history(sname, tier, res, viol_):
    from graphql import parse

    docs = HISTORY_DOCS[sname]
    faults = [None]
    fm = gdata.fault_menu(schema_for(sname))
    faults += fm[:: max(1, len(fm) // 2)][:2]
    reqs = []
    for d in docs:
        for v in (HISTORY_VARS if "$v" in d else [{}]):
            for f in faults:
                reqs.append((d, v, f))
    reqs = reqs[: 36 if tier == "quick" else 24]

    def run(schema, parsed, req):
        d, v, f = req
        op = "mutation" if d.startswith("mutation") else "query"
        roots, _ = gdata.build(schema, fault=f)
        r = run_impl(schema, parsed[d], roots[op], v, None)
        return json.dumps(r.formatted, default=repr)

    fresh = {}
    for i, req in enumerate(reqs):
        s = execschemas.build(sname)
        fresh[i] = run(s, {req[0]: parse(req[0])}, req)
        res.executions += 1
    n = len(reqs)
    depth = 2 if tier == "quick" else 3
    import itertools

    for seq in itertools.product(range(n), repeat=depth):
        s = execschemas.build(sname)
        parsed = {reqs[i][0]: parse(reqs[i][0]) for i in set(seq)}
        res.states += 1
        for pos, i in enumerate(seq):
            res.evaluations += 1
            res.executions += 1
            res.transitions += 1
            try:
                out = run(s, parsed, reqs[i])
            except Exception as e:  # noqa: BLE001
                viol_("history_execute_raises", f"{sname} history {[reqs[j] for j in seq]!r}", f"{type(e).__name__}: {e}",
                      {"schema": sname, "history": [list(map(repr, reqs[j])) for j in seq]})
                break
            if out != fresh[i]:
                viol_("history_changes_response", f"{sname}: {reqs[i]!r} after {[reqs[j] for j in seq[:pos]]!r}",
                      f"response {out} but on fresh objects {fresh[i]}",
                      {"schema": sname, "history": [[reqs[j][0], repr(reqs[j][1]), repr(reqs[j][2])] for j in seq[: pos + 1]]})
                break
        res.outcome(tuple(fresh[i] for i in seq))
    res.sample({"schema": sname, "history": [reqs[0][0], reqs[1][0]], "oracle": "same response as on fresh schema/document objects"})


def run_shard(shard, tier):
    res = Result()
    kind, arg = shard

    def viol(sig, label, summary, payload):
        res.violation(sig, f"{label}: {summary}", dict(payload, kind=kind))

    if kind == "docs":
        run_docs(arg, tier, res, viol)
    elif kind == "atoms":
        run_atoms(arg, tier, res, viol)
    else:
        run_history(arg, tier, res, viol)
    return res


def replay(payload):
    from graphql import parse

    res = Result()
    out = []
    if payload.get("kind") == "docs":
        schema = schema_for(payload["schema"])

        def viol(sig, label, summary, fault, vnull):
            out.append({"signature": sig, "summary": f"{label}: {summary}"})

        doc = parse(payload["doc"])
        fault = tuple(payload["fault"]) if payload.get("fault") else None
        compare(schema, doc, payload["op"], payload["vars"], fault, payload.get("variant_null", False), res, viol, payload["doc"], payload["schema"])
    else:
        def viol_(sig, label, summary, p):
            out.append({"signature": sig, "summary": f"{label}: {summary}"})
        run_history(payload["schema"], "quick", res, viol_)
    return out
