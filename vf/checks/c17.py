"""C17  A schema survives printing to SDL and rebuilding."""

from __future__ import annotations

import copy

from vf.engine.runner import Result
from vf.gen import schemas as S
from vf.ref import schemafp as F

ID = "C17"
TITLE = "A schema survives printing to SDL and rebuilding"
BOUNDS = {
    "quick": "all schemas base + <=2 of 51 features (1320), each built from SDL and programmatically in 3 styles; "
             "every string <=2 over the 20 hard characters and 32 hard descriptions in each of 24 string positions "
             "(programmatic; through SDL text: hard descriptions per position, the others in all positions jointly), "
             "every string <=5 over {a,SP,LF,\",\\} in all 24 positions jointly and <=4 in the two indented block "
             "positions separately; default-literal menu "
             "(61 entries) x 3 positions x 4 builds",
    "thorough": "all schemas base + <=3 of 51 features (~21.7k) x 4 builds; every string <=3 over the 20 hard "
                "characters in 24 positions (programmatic; through SDL: <=2 separately, <=3 in all positions jointly); every string <=6 over {a,SP,LF,\",\\} and <=5 over "
                "{a,SP,TAB,LF,CR,\",\\} in all 24 positions jointly + 2 separately; default-literal menu",
}
RULE = (
    "exhaustive: every schema of the family (base + every feature subset up to size k; vf/gen/schemas.py), built from "
    "SDL text written by our own renderer and assembled with the type constructors (default values as external value, "
    "literal AST, deprecated internal value; type list in spec and reversed order); plus a host schema with every "
    "string of the string families placed in every description / deprecation-reason / specifiedBy-url / string-default "
    "position; plus a menu of default literals for every input type kind. Oracle per schema s: validate_schema(s)==[] "
    "and fingerprint(s) equals the fingerprint computed from the declarative spec (precondition, independent of the "
    "library); p=print_schema(s); s2=build_schema(p) succeeds; validate_schema(s2)==[]; print_schema(s2)==p; "
    "find_schema_changes(s,s2)==[]==find_schema_changes(s2,s); fingerprint(s2)==fingerprint(s) (vf/ref/schemafp.py: "
    "names, kinds, fields, args, types, canonical defaults, descriptions, deprecations, directives, interfaces, members, "
    "values, oneOf, specifiedBy, root operation types, order of everything). distinct = distinct printed schemas"
)
ASSUMPTIONS = [
    "the fingerprint reads schema objects as data; default values are compared by meaning (type directed canonical text)",
    "position of the specified scalars / introspection types inside type_map is not compared (SDL cannot express it)",
    "schemas using deprecated directive definitions are rebuilt with experimental_directives_on_directive_definitions=True "
    "(print_schema emits syntax the default parser rejects; documented experimental feature); all others use plain build_schema",
    "programmatic schemas list every type in types= and carry all specified directives",
]

# the longer strings over the small alphabets go into ALL 24 positions of one schema at once (every
# position is still judged, by the fingerprint) and separately into the two indented block positions
ALL = "ALL"
INDENTED_POSITIONS = ["desc:field", "desc:arg"]
SIGMA_MID = ["a", " ", "\t", "\n", "\r", '"', "\\"]


def _k(tier):
    return 2 if tier == "quick" else 3


# --------------------------------------------------------------------------- default menu


def default_menu():
    D = S.Default  # noqa: N806
    m = [
        ("Int", D("0", 0)), ("Int", D("-1", -1)), ("Int", D("2147483647", 2147483647)),
        ("Int", D("-2147483648", -2147483648)), ("Int!", D("5", 5)), ("Int", D("null", None)),
        ("Float", D("0.0", 0.0)), ("Float", D("-0.0", -0.0)), ("Float", D("1e10", 1e10, "10000000000.0")),
        ("Float", D("1E-5", 1e-5, "1e-05")), ("Float", D("3", 3, "3.0")),
        ("Float", D("123456789012345678", 1.2345678901234568e17, "1.2345678901234568e+17")),
        ("Float", D("1.7976931348623157e308", 1.7976931348623157e308, "1.7976931348623157e+308")),
        ("Float", D("5e-324", 5e-324)), ("Float!", D("2.5", 2.5)),
        ("String", D('""', "")), ("String", D('" "', " ")), ("String", D('"a b"', "a b")),
        ("String", D('"\\""', '"')), ("String", D('"\\\\"', "\\")), ("String", D('"\\n"', "\n")),
        ("String", D('"\\u0000"', "\x00")), ("String", D('"null"', "null")), ("String", D('"1"', "1")),
        ("String", D('"""\n  a\n    b\n  """', "a\n  b", '"a\\n  b"')),
        ("String", D('"""q\\"""q"""', 'q"""q', '"q\\"\\"\\"q"')),
        ("Boolean", D("true", True)), ("Boolean", D("false", False)), ("Boolean!", D("false", False)),
        ("ID", D('""', "")), ("ID", D('"0"', "0")), ("ID", D("0", 0, '"0"')), ("ID", D("-5", -5, '"-5"')),
        ("ID", D('"007"', "007")), ("ID", D('"9007199254740993"', "9007199254740993")),
        ("ID", D("9007199254740993", 9007199254740993, '"9007199254740993"')), ("ID", D('"a\\nb"', "a\nb")),
        ("Dir", D("UP", "UP")), ("Dir", D("LEFT", "LEFT")), ("Dir!", D("DOWN", "DOWN")),
        ("[Int]", D("[]", [])), ("[Int]", D("[1]", [1])), ("[Int]", D("1", 1, "[1]")), ("[Int]", D("[null]", [None])),
        ("[Int]", D("null", None)), ("[Int!]!", D("[1, 2]", [1, 2])),
        ("[[Int!]]", D("[[1, 2], []]", [[1, 2], []])), ("[[Int!]]", D("[1]", [1], "[[1]]")),
        ("[[Int!]]", D("7", 7, "[[7]]")), ("[Dir!]!", D("[UP, DOWN]", ["UP", "DOWN"])),
        ("[Dir]", D("DOWN", "DOWN", "[DOWN]")),
        ("Point", D("{}", {})), ("Point", D("{x: 5}", {"x": 5})),
        ("Point", D('{label: "l", y: 1}', {"label": "l", "y": 1})),
        ("Point", D('{y: 1, label: "l"}', {"y": 1, "label": "l"}, '{label: "l", y: 1}')),
        ("Point", D("{x: null, y: null}", {"x": None, "y": None})),
        ("[Point]", D("[{}, {y: 1}]", [{}, {"y": 1}])), ("[Point]", D("{y: 1}", {"y": 1}, "[{y: 1}]")),
        ("Any", D("1", 1)), ("Any", D("1.0", 1.0, "1")), ("Any", D('"s"', "s")), ("Any", D("true", True)),
        ("Any", D("null", None)), ("Any", D("[1, [2]]", [1, [2]])), ("Any", D("{a: {b: []}}", {"a": {"b": []}})),
    ]
    return m


def default_host(type_s, d):
    s = S.Spec()
    s.add(
        S.TypeDef("enum", "Dir", values=[S.EV("UP"), S.EV("DOWN"), S.EV("LEFT", deprecation="no")]),
        S.TypeDef("input", "Point", fields=[S.IV("x", "Int", S.Default("0", 0)), S.IV("y", "Int"), S.IV("label", "String"),
                                             # non-null with its own default: may be left out of any Point value
                                             S.IV("n", "Int!", S.Default("10", 10))]),
        S.TypeDef("scalar", "Any"),
        S.TypeDef("input", "Host", fields=[S.IV("before", "Int"), S.IV("f", type_s, copy.deepcopy(d)), S.IV("after", "Int")]),
        S.TypeDef("object", "Query", fields=[
            S.Field("q", "Int", args=[S.IV("a", type_s, copy.deepcopy(d)), S.IV("h", "Host")]),
            S.Field("d", "Dir", args=[S.IV("p", "Point"), S.IV("x", "Any")]),
        ]),
    )
    s.directives.append(S.DirDef("dir", ["FIELD"], args=[S.IV("da", type_s, copy.deepcopy(d))]))
    return s


# --------------------------------------------------------------------------- shards


def string_families(tier):
    """(family name, strings, positions, also via SDL?)

    Big alphabet: every string in every position separately (programmatic build) and in ALL positions
    jointly through SDL text; the hard descriptions additionally through SDL in every position.
    Small alphabets (longer strings): ALL positions jointly; the shorter ones also separately in the two
    indented block positions."""
    allpos = list(S.DESCRIPTION_POSITIONS)
    hard = list(S.HARD_DESCRIPTIONS)
    # line-level enumeration: every text of 2..3 lines over a small alphabet of LINES (indentation x words), the
    # dimension block-string printing decisions depend on (common indent, interior blanks, empty lines)
    import itertools

    line_alpha = ["a", " a", "  a", "a a", " a a", "\ta b", ""]
    lines = ["\n".join(t) for n in (2, 3) for t in itertools.product(line_alpha, repeat=n)]
    if tier == "quick":
        sigma = S.strings_upto(S.SIGMA_STR, 2)
        return [
            ("hard", hard, allpos, True),
            ("lines", lines, [ALL] + INDENTED_POSITIONS, False),
            ("sigma", sigma, allpos, False),
            ("sigma_sdl", sigma, [ALL], True),
            ("small", S.strings_upto(S.SIGMA_SMALL, 5), [ALL], False),
            ("small4", S.strings_upto(S.SIGMA_SMALL, 4), INDENTED_POSITIONS, False),
        ]
    sigma3 = S.strings_upto(S.SIGMA_STR, 3)
    return [
        ("hard", hard, allpos, True),
        ("lines", lines, allpos, False),
        ("sigma2_sdl", S.strings_upto(S.SIGMA_STR, 2), allpos, True),
        ("sigma", sigma3, allpos, False),
        ("sigma_sdl", sigma3, [ALL], True),
        ("small", S.strings_upto(S.SIGMA_SMALL, 6), [ALL] + INDENTED_POSITIONS, False),
        ("mid", S.strings_upto(SIGMA_MID, 5), [ALL] + INDENTED_POSITIONS, False),
    ]


def shards(tier):
    out = []
    nfam = 40 if tier == "quick" else 160
    for i in range(nfam):
        out.append(("fam", i, nfam))
    for fam, strings, positions, _sdl in string_families(tier):
        per = 500 if tier == "quick" else 2500
        for pos in positions:
            n = max(1, (len(strings) + per - 1) // per)
            for j in range(n):
                out.append(("str", fam, pos, j, n))
    out.append(("dflt", 0, 2))
    out.append(("dflt", 1, 2))
    out.append(("shared", 0, 1))
    return out


# --------------------------------------------------------------------------- the oracle


class Case:
    def __init__(self, res, payload, label):
        self.res, self.payload, self.label, self.failed = res, payload, label, False
        self.found = []

    def viol(self, sig, text):
        if self.failed:
            return
        self.failed = True
        summary = f"{self.label}: {text}"
        self.found.append({"signature": sig, "summary": summary})
        self.res.violation(sig, summary, self.payload)


def _sig_of(diffs):
    return F.path_class(diffs[0]) if diffs else "?"


def check_schema(schema, expected_fp, case, experimental, how):
    """The C17 oracle for one schema object. ``expected_fp`` may be None."""
    from graphql import build_schema, print_schema, validate_schema
    from graphql.utilities import find_schema_changes

    res = case.res
    res.states += 1
    # preconditions: the generator made a valid schema that is the schema the spec describes
    try:
        errs = validate_schema(schema)
    except Exception as e:  # noqa: BLE001
        return case.viol(f"precondition:validate_raises:{type(e).__name__}", f"[{how}] validate_schema raised {e!r}")
    res.executions += 1
    if errs:
        return case.viol("precondition:generated_schema_invalid", f"[{how}] {[e.message for e in errs][:3]}")
    fp1 = F.fingerprint(schema)
    if expected_fp is not None:
        res.evaluations += 1
        d = F.diff(fp1, expected_fp)
        if d:
            return case.viol(f"built_schema_differs_from_spec[{how.split(':')[0]}]:{_sig_of(d)}",
                             f"[{how}] schema object vs declarative spec: {d[:3]}")
    try:
        p1 = print_schema(schema)
    except Exception as e:  # noqa: BLE001
        return case.viol(f"print_raises:{type(e).__name__}", f"[{how}] print_schema raised {e!r}")
    res.executions += 1
    try:
        s2 = build_schema(p1, experimental_directives_on_directive_definitions=True) if experimental else build_schema(p1)
    except Exception as e:  # noqa: BLE001
        res.evaluations += 1
        return case.viol(f"rebuild_raises:{type(e).__name__}",
                         f"[{how}] build_schema(print_schema(s)) raised {str(e)[:200]!r}; printed: {p1[:300]!r}")
    res.executions += 1
    res.evaluations += 1
    try:
        errs2 = validate_schema(s2)
    except Exception as e:  # noqa: BLE001
        return case.viol(f"rebuilt_validate_raises:{type(e).__name__}", f"[{how}] {e!r}")
    res.evaluations += 1
    if errs2:
        return case.viol("rebuilt_schema_invalid",
                         f"[{how}] validate_schema(rebuilt) = {[e.message for e in errs2][:2]}; printed: {p1[:300]!r}")
    fp2 = F.fingerprint(s2)
    res.evaluations += 1
    d = F.diff(fp1, fp2)
    if d:
        return case.viol(f"fingerprint_differs:{_sig_of(d)}", f"[{how}] original vs rebuilt: {d[:3]}; printed: {p1[:300]!r}")
    p2 = print_schema(s2)
    res.executions += 1
    res.evaluations += 1
    if p2 != p1:
        i = next((k for k in range(min(len(p1), len(p2))) if p1[k] != p2[k]), min(len(p1), len(p2)))
        return case.viol("second_print_differs",
                         f"[{how}] print(build(print(s))) != print(s) at offset {i}: {p1[max(0, i - 40):i + 40]!r} vs {p2[max(0, i - 40):i + 40]!r}")
    for a, b, name in ((schema, s2, "forward"), (s2, schema, "backward")):
        try:
            ch = find_schema_changes(a, b)
        except Exception as e:  # noqa: BLE001
            return case.viol(f"find_schema_changes_raises:{type(e).__name__}", f"[{how}] {e!r}")
        res.executions += 1
        res.evaluations += 1
        if ch:
            return case.viol(f"find_schema_changes_nonempty:{ch[0].type.name}",
                             f"[{how}] {name}: {[(c.type.name, c.description) for c in ch][:3]}")
    res.transitions += 7
    res.outcome(p1)
    return None


def check_spec(spec, case, sdl=True, styles=None):
    """Build the spec from SDL and programmatically and run the oracle on each schema."""
    from graphql import build_schema

    experimental = bool(spec.experimental)
    if sdl:
        text = S.render_sdl(spec)
        try:
            s = build_schema(text, experimental_directives_on_directive_definitions=True) if experimental else build_schema(text)
        except Exception as e:  # noqa: BLE001
            case.viol(f"precondition:sdl_build_raises:{type(e).__name__}", f"build_schema of generated SDL raised {str(e)[:300]!r}")
            return
        case.res.executions += 1
        check_schema(s, S.spec_fingerprint(spec), case, experimental, "sdl")
        if case.failed:
            return
    for st in (S.PROGRAMMATIC_STYLES if styles is None else styles):
        how = "programmatic:" + ",".join(f"{k}={v}" for k, v in sorted(st.items()))
        try:
            p = S.construct(spec, **st)
        except Exception as e:  # noqa: BLE001
            case.viol(f"precondition:construct_raises:{type(e).__name__}", f"[{how}] {e!r}")
            return
        case.res.executions += 1
        check_schema(p, S.spec_fingerprint(spec, order=st["order"]), case, experimental, how)
        if case.failed:
            return


# --------------------------------------------------------------------------- running


def run_features(features, res):
    case = Case(res, {"mode": "fam", "features": list(features)}, "features " + "+".join(features or ("<base>",)))
    check_spec(S.make_spec(features), case)
    return case


def run_string(pos, string, via_sdl, res):
    case = Case(res, {"mode": "str", "position": pos, "string": string, "sdl": via_sdl},
                f"string {string!r} at {pos}")
    spec = S.description_host()
    for p in (list(S.DESCRIPTION_POSITIONS) if pos == ALL else [pos]):
        S.place_string(spec, p, string)
    # strings need one programmatic build (external values); SDL (quoted / block form) for the big-alphabet families
    check_spec(spec, case, sdl=via_sdl, styles=S.PROGRAMMATIC_STYLES[:1])
    return case


def run_default(index, res):
    type_s, d = default_menu()[index]
    case = Case(res, {"mode": "dflt", "index": index}, f"default {d.text!r} for type {type_s}")
    check_spec(default_host(type_s, d), case)
    return case


def shared_default_schemas():
    """Programmatic schemas in which ONE default-input object is shared by inputs of different types
    (nothing forbids it; any cache kept on the default object must then be keyed by the type)."""
    import graphql as g

    out = []
    color = lambda: g.GraphQLEnumType("Color", {"RED": g.GraphQLEnumValue("RED"), "ASC": g.GraphQLEnumValue("ASC")})  # noqa: E731
    for label, value, t1, t2 in (
        ("string_id", "7", lambda c: g.GraphQLString, lambda c: g.GraphQLID),
        ("enum_string", "ASC", lambda c: c, lambda c: g.GraphQLString),
        ("string_enum", "RED", lambda c: g.GraphQLString, lambda c: c),
        ("int_float", 1, lambda c: g.GraphQLInt, lambda c: g.GraphQLFloat),
        ("float_int", 2, lambda c: g.GraphQLFloat, lambda c: g.GraphQLInt),
        ("list_scalar", 3, lambda c: g.GraphQLList(g.GraphQLInt), lambda c: g.GraphQLInt),
    ):
        for order in (0, 1):
            c = color()
            d = g.GraphQLDefaultInput(value=value)
            a, b = (t1(c), t2(c)) if order == 0 else (t2(c), t1(c))
            inp = g.GraphQLInputObjectType("In", {"x": g.GraphQLInputField(a, default=d), "y": g.GraphQLInputField(b, default=d)})
            q = g.GraphQLObjectType("Query", {"f": g.GraphQLField(g.GraphQLInt, args={
                "p": g.GraphQLArgument(a, default=d), "q": g.GraphQLArgument(b, default=d), "i": g.GraphQLArgument(inp)})})
            out.append((f"{label}:{order}", g.GraphQLSchema(q, types=[c])))
    return out


def run_shard(shard, tier):
    if shard[0] == "shared":
        res = Result()
        for label, schema in shared_default_schemas():
            case = Case(res, {"kind": "shared", "label": label}, f"shared default object {label}")
            check_schema(schema, None, case, False, "shared:" + label)
            res.transitions += 1
        res.sample({"family": "one GraphQLDefaultInput shared by an ID and a String input"}, 1)
        return res
    res = Result()
    kind = shard[0]
    if kind == "fam":
        _, i, n = shard
        combos = S.enumerate_schemas(_k(tier))
        for j in range(i, len(combos), n):
            run_features(combos[j], res)
        if i == 0:
            res.sample({"features": list(combos[min(60, len(combos) - 1)]), "builds": ["sdl"] + [str(s) for s in S.PROGRAMMATIC_STYLES]})
            res.count("schemas_in_family", len(combos))
    elif kind == "str":
        _, fam, pos, j, n = shard
        for name, strings, _positions, via_sdl in string_families(tier):
            if name != fam:
                continue
            for idx in range(j, len(strings), n):
                run_string(pos, strings[idx], via_sdl, res)
            if j == 0 and pos == "desc:field":
                res.sample({"family": fam, "position": pos, "strings": len(strings), "example": strings[min(7, len(strings) - 1)]})
    elif kind == "dflt":
        _, i, n = shard
        menu = default_menu()
        for idx in range(i, len(menu), n):
            run_default(idx, res)
        if i == 0:
            res.sample({"default": menu[10][1].text, "type": menu[10][0], "positions": ["argument", "input field", "directive argument"]})
    return res


def replay(payload):
    res = Result()
    mode = payload.get("mode")
    if mode == "fam":
        case = run_features(tuple(payload["features"]), res)
    elif mode == "str":
        case = run_string(payload["position"], payload["string"], payload.get("sdl", True), res)
    else:
        case = run_default(payload["index"], res)
    return case.found
