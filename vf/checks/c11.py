"""C11  AST traversal visits every node once, in order, and edits without mutating."""

from __future__ import annotations

import dataclasses
import itertools

from vf.engine.choice import explore
from vf.engine.runner import Result
from vf.gen import grammar
from vf.ref import astshape
from vf.ref import visitor as refv

ID = "C11"
BOUNDS = {
    "quick": "trees: grammar derivations with <=1 deviation (all definition kinds) + hand trees; every table with 1 scripted decision (8 actions incl. returning the node itself x 2 phases x every node, root included) x 4 visitor styles (kind-specific handlers verify the kind of the node they are given); all 2-decision tables on hand trees; all ordered pairs of 1-decision non-editing tables in ParallelVisitor (also under TypeInfoVisitor)",
    "thorough": "grammar derivations with <=2 deviations; 2-decision tables on all small trees; triples of parallel visitors on hand trees",
}
RULE = (
    "exhaustive within bounds: for every tree and every decision table (path, phase) -> {IDLE, SKIP, BREAK, REMOVE, clone, other-kind node, "
    "non-node value} with <= d non-idle entries, language.visit is run with a scripted visitor (generic enter/leave, kind-specific methods, "
    "enter-only, leave-only, custom visitor_keys) and compared with a recursive reference visitor: identical call log "
    "(phase, kind, key, path, len(ancestors), parent kind), structurally identical result, identical object for non-editing tables, input "
    "tree unchanged, never raises; parallel visitors each see their solo log. distinct = distinct (log, result) observations"
)
ASSUMPTIONS = [
    "document order of children is taken from source positions (loc.start) of a located parse, not from QUERY_DOCUMENT_KEYS",
    "tables combining BREAK with an earlier edit compare call logs only (the value visit() returns in that case is not documented)",
]
HAND = [
    "{ a }",
    "{ a(x: [1, {k: $v}]) @d { b ... on T { c } ...F } }",
    "query Q($v: Int = 1 @d, $w: [T!]) @d { a: b }",
    '"d" fragment F on T @d { a ...G @d }',
    '"""d""" type T implements I & J @d { "x" f(a: Int = 1 @d): [T!]! @d }',
    "schema @d { query: Q mutation: M }",
    'directive @d("x" a: T = {k: [1.5, "s", true, null, E]}) repeatable on FIELD | QUERY',
    "union U @d = A | B",
    "enum E @d { A @d B }",
    "input In @d { a: Int = 1 @d }",
    "interface I implements J @d { f: Int }",
    "scalar S @d",
    "extend schema @d { subscription: S }",
    "extend type T implements I @d { f: Int }",
    "extend union U @d = C",
    "extend enum E @d { C }",
    "extend input In @d { b: Int }",
    "extend scalar S @d",
    "extend interface I implements K @d { g: Int }",
    "{ a } { b } fragment F on T { c }",
]
ACTIONS = ["skip", "break", "remove", "clone", "other", "mark", "false", "same"]
NONEDIT = ["skip", "break", "false"]
MARK = ("NON-NODE",)


def shards(tier):
    out = []
    k = 1 if tier == "quick" else 2
    for mode in ("executable", "typesystem", "extension"):
        kinds = grammar.kinds_for(mode, True)
        for ki in range(len(kinds)):
            out.append(("gram", (mode, ki, k)))
    for i in range(len(HAND)):
        out.append(("hand1", i))
        out.append(("hand2", i))
        out.append(("par", i))
    out.append(("coord", 0))
    return out


# ---------------------------------------------------------------------------


def other_node():
    from graphql.language import ArgumentNode, FieldNode, IntValueNode, NameNode

    return FieldNode(name=NameNode(value="r"), arguments=(ArgumentNode(name=NameNode(value="x"), value=IntValueNode(value="1")),))


def apply_action(a, node):
    from graphql.language import BREAK, REMOVE, SKIP

    if a is None:
        return None
    if a == "skip":
        return SKIP
    if a == "false":
        return False
    if a == "break":
        return BREAK
    if a == "remove":
        return REMOVE
    if a == "clone":
        if type(node).__name__ == "NameNode":
            return dataclasses.replace(node, value=node.value + "z")
        return dataclasses.replace(node)
    if a == "other":
        return other_node()
    if a == "mark":
        return MARK
    if a == "same":
        return node  # the very object the handler was given (on leave: the node rebuilt from the edits below)
    raise ValueError(a)


def make_visitor(style, table, log):
    """Scripted visitor in one of the styles: generic, kind (kind-specific methods), enter, leave."""
    from graphql.language import Visitor, ast

    def enter(self, node, key, parent, path, ancestors):
        log.append(("enter", node.kind, key, tuple(path), len(ancestors), refv.parent_kind(parent)))
        return apply_action(table.get(("enter", tuple(path))), node)

    def leave(self, node, key, parent, path, ancestors):
        log.append(("leave", node.kind, key, tuple(path), len(ancestors), refv.parent_kind(parent)))
        return apply_action(table.get(("leave", tuple(path))), node)

    ns = {}
    if style == "generic":
        ns = {"enter": enter, "leave": leave}
    elif style == "enter":
        ns = {"enter": enter}
    elif style == "leave":
        ns = {"leave": leave}
    else:
        for name in dir(ast):
            cls = getattr(ast, name)
            if isinstance(cls, type) and issubclass(cls, ast.Node) and name.endswith("Node") and not name.startswith("Const"):
                k = cls.kind
                if k and k != "ast" and getattr(ast, "".join(p.capitalize() for p in k.split("_")) + "Node", None) is cls:
                    # a kind-specific handler must only ever be given nodes of its kind (also after a replacement by a node of another kind)
                    def enter_k(self, node, key, parent, path, ancestors, k=k):
                        if node.kind != k:
                            log.append(("wrong_handler", "enter_" + k, node.kind))
                        return enter(self, node, key, parent, path, ancestors)

                    def leave_k(self, node, key, parent, path, ancestors, k=k):
                        if node.kind != k:
                            log.append(("wrong_handler", "leave_" + k, node.kind))
                        return leave(self, node, key, parent, path, ancestors)

                    ns["enter_" + k] = enter_k
                    ns["leave_" + k] = leave_k
        # kinds without a specific method fall back to the generic ones
        ns.setdefault("enter", enter)
        ns.setdefault("leave", leave)
    return type("Scripted", (Visitor,), ns)()


def identity_list(x, out):
    if astshape.is_node(x):
        out.append(id(x))
        for f in astshape.data_fields(x):
            identity_list(getattr(x, f), out)
    elif isinstance(x, tuple):
        for i in x:
            identity_list(i, out)
    return out


def positions(root, children):
    """All (path) of nodes via an idle reference run."""
    from graphql.language import BREAK, REMOVE, SKIP

    _r, log = refv.ref_visit(root, lambda *a: None, (SKIP, BREAK, REMOVE), children)
    return [e[3] for e in log if e[0] == "enter"]


def run_table(root, table, style, res, viol, label, keymap=None, compare_result=True):
    from graphql.language import BREAK, REMOVE, SKIP, visit

    children = refv.keyed_children(keymap) if keymap is not None else refv.default_children
    phases = ("enter", "leave") if style in ("generic", "kind") else (style,)
    eff_table = {k: v for k, v in table.items() if k[0] in phases}

    def decide(phase, node, path):
        return apply_action(eff_table.get((phase, path)), node)

    want, wlog = refv.ref_visit(root, decide, (SKIP, BREAK, REMOVE), children, phases)
    before_shape = astshape.shape(root)
    before_ids = identity_list(root, [])
    log = []
    v = make_visitor(style, eff_table, log)
    res.evaluations += 1
    res.executions += 1
    try:
        got = visit(root, v, keymap) if keymap is not None else visit(root, v)
    except Exception as e:  # noqa: BLE001
        viol("visit_raises", label, table, style, f"{type(e).__name__}: {e}")
        return False
    if log != wlog:
        for i, (a, b) in enumerate(itertools.zip_longest(log, wlog)):
            if a != b:
                viol("call_log_differs", label, table, style, f"call {i}: implementation {a} reference {b}")
                return False
    if astshape.shape(root) != before_shape or identity_list(root, []) != before_ids:
        viol("input_tree_modified", label, table, style, "the input tree changed during traversal")
        return False
    acts = set(eff_table.values())
    editing = bool(acts & {"remove", "clone", "other", "mark", "same"})
    if not editing:
        if got is not root:
            viol("non_editing_visit_returns_other_object", label, table, style, f"returned {got!r}")
            return False
    elif compare_result:
        if want[0] == "break":
            exp = root
        elif want[0] == "remove":
            exp = REMOVE
        else:
            exp = want[1]
        if astshape.shape(got) != astshape.shape(exp):
            viol("result_differs", label, table, style, f"implementation {short(got)} reference {short(exp)}")
            return False
    res.outcome((tuple(wlog), want[0], astshape.shape(want[1]) if len(want) > 1 else None))
    return True


def short(x):
    from graphql import print_ast

    try:
        if astshape.is_node(x):
            return repr(print_ast(x))[:200]
    except Exception:  # noqa: BLE001
        pass
    return repr(x)[:200]


STYLES = ["generic", "kind", "enter", "leave"]


def single_tables(root, res, viol, label, styles=STYLES, keymap=None):
    children = refv.keyed_children(keymap) if keymap is not None else refv.default_children
    pos = positions(root, children)
    for style in styles:
        if not run_table(root, {}, style, res, viol, label, keymap):
            return
        for path in pos:
            for phase in ("enter", "leave"):
                if style in ("enter", "leave") and style != phase:
                    continue
                for a in ACTIONS:
                    if not run_table(root, {(phase, path): a}, style, res, viol, label, keymap):
                        return


def double_tables(root, res, viol, label):
    pos = positions(root, refv.default_children)
    cells = [(ph, p) for p in pos for ph in ("enter", "leave")]
    acts = ["skip", "break", "remove", "clone", "other", "mark", "same"]
    for c1, c2 in itertools.combinations(cells, 2):
        for a1 in acts:
            for a2 in acts:
                if not run_table(root, {c1: a1, c2: a2}, "generic", res, viol, label):
                    return


def parallel(root, res, viol, label, n, schema=None):
    from graphql.language import BREAK, REMOVE, SKIP, ParallelVisitor, visit
    from graphql.utilities import TypeInfo, TypeInfoVisitor

    pos = positions(root, refv.default_children)
    cells = [(ph, p, a) for p in pos for ph in ("enter", "leave") for a in NONEDIT] + [None]
    if n == 3:
        cells = cells[:: max(1, len(cells) // 14)] + [None]
    for combo in itertools.product(cells, repeat=n):
        tables = [({} if c is None else {(c[0], c[1]): c[2]}) for c in combo]
        wants = []
        for t in tables:
            def decide(phase, node, path, t=t):
                return apply_action(t.get((phase, path)), node)
            wants.append(refv.ref_visit(root, decide, (SKIP, BREAK, REMOVE))[1])
        for wrap in ((False, True) if schema is not None else (False,)):
            logs = [[] for _ in tables]
            vs = [make_visitor("generic", t, l) for t, l in zip(tables, logs)]
            pv = ParallelVisitor(vs)
            top = TypeInfoVisitor(TypeInfo(schema), pv) if wrap else pv
            res.evaluations += 1
            res.executions += 1
            try:
                got = visit(root, top)
            except Exception as e:  # noqa: BLE001
                viol("parallel_visit_raises", label, tables, "typeinfo" if wrap else "parallel", f"{type(e).__name__}: {e}")
                return
            for i, (l, w) in enumerate(zip(logs, wants)):
                if l != w:
                    for j, (a, b) in enumerate(itertools.zip_longest(l, w)):
                        if a != b:
                            viol("parallel_log_differs", label, tables, "typeinfo" if wrap else "parallel",
                                 f"visitor {i} call {j}: in parallel {a}, alone {b}")
                            return
            if got is not root:
                viol("non_editing_visit_returns_other_object", label, tables, "parallel", f"returned {got!r}")
                return
        res.outcome(tuple(tuple(w) for w in wants))


SCHEMA = "type Query { a(x: [In]): T b: T } type T { b: T c: Int a: Int } input In { k: Int } directive @d on FIELD | QUERY | FRAGMENT_SPREAD | FRAGMENT_DEFINITION | VARIABLE_DEFINITION"


def run_shard(shard, tier):
    from graphql import build_schema, parse, parse_schema_coordinate
    from graphql.language.ast import QUERY_DOCUMENT_KEYS

    res = Result()
    kind, arg = shard
    cur = {}

    def viol(sig, label, table, style, summary):
        t = jsontable(table)
        res.violation(sig, f"tree {label!r} table {t} style {style}: {summary}",
                      {"source": cur.get("src", label), "table": t, "style": style, "entry": cur.get("entry", "doc")})

    def p(s):
        return parse(s, experimental_fragment_arguments=True, experimental_directives_on_directive_definitions=True)

    if kind == "gram":
        mode, ki, k = arg
        kinds = grammar.kinds_for(mode, True)

        def scenario(c):
            return grammar.Gen(c, frag_args=True, dir_on_dir=True).document(kinds)

        def visit_(c, tokens):
            src = grammar.text_of(tokens)
            cur["src"] = src
            root = p(src)
            single_tables(root, res, viol, src, styles=["generic", "kind"] if c.deviations else STYLES)
            res.sample({"tree": src, "tables": "every single (path, phase, action)"}, 1)

        res.add_stats(explore(scenario, k, visit_, root=(ki,)))
    elif kind == "hand1":
        src = HAND[arg]
        cur["src"] = src
        root = p(src)
        single_tables(root, res, viol, src)
        # custom visitor keys: reversed order for operations, fields restricted to their selection sets
        keymap = dict(QUERY_DOCUMENT_KEYS)
        keymap["operation_definition"] = tuple(reversed(keymap["operation_definition"]))
        keymap["field"] = ("selection_set", "name")
        keymap["object_type_definition"] = ("fields",)
        single_tables(root, res, viol, src, styles=["generic"], keymap=keymap)
        res.states += 1
        res.transitions += 1
    elif kind == "hand2":
        src = HAND[arg]
        cur["src"] = src
        root = p(src)
        if astshape.count_nodes(root) <= (14 if tier == "quick" else 40):
            double_tables(root, res, viol, src)
        res.states += 1
        res.transitions += 1
    elif kind == "par":
        src = HAND[arg]
        cur["src"] = src
        root = p(src)
        schema = build_schema(SCHEMA) if arg < 4 else None
        if astshape.count_nodes(root) <= 30:
            parallel(root, res, viol, src, 2, schema)
        if tier == "thorough" and astshape.count_nodes(root) <= 16:
            parallel(root, res, viol, src, 3, None)
        res.states += 1
        res.transitions += 1
    else:
        cur["entry"] = "coord"
        for src in ("T", "T.f", "T.f(a:)", "@d", "@d(a:)"):
            cur["src"] = src
            root = parse_schema_coordinate(src)
            single_tables(root, res, viol, src)
            res.states += 1
            res.transitions += 1
    return res


def jsontable(table):
    if isinstance(table, list):
        return [jsontable(t) for t in table]
    return [[ph, list(path), a] for (ph, path), a in table.items()]


def replay(payload):
    from graphql import parse, parse_schema_coordinate

    res = Result()
    out = []

    def viol(sig, label, table, style, summary):
        out.append({"signature": sig, "summary": f"tree {label!r} table {jsontable(table)} style {style}: {summary}"})

    src = payload["source"]
    if payload.get("entry") == "coord":
        root = parse_schema_coordinate(src)
    else:
        root = parse(src, experimental_fragment_arguments=True, experimental_directives_on_directive_definitions=True)
    t = payload["table"]
    if t and isinstance(t[0], list) and t[0] and isinstance(t[0][0], list):
        # parallel tables: replay each alone and together
        parallel(root, res, viol, src, len(t), None)
    else:
        table = {(ph, tuple(path)): a for ph, path, a in t}
        style = payload["style"] if payload["style"] in STYLES else "generic"
        run_table(root, table, style, res, viol, src)
    return out
