"""C04  Incremental delivery reassembles to the non-incremental response."""

from __future__ import annotations

import json

from vf.engine import incr
from vf.engine.choice import explore, run_once
from vf.engine.runner import Result
from vf.ref import incremental as refinc

ID = "C04"
BOUNDS = {
    "quick": "26 defer/stream requests (+2 without directives) x site sets (<=3 awaitable sites incl. async-generator sources) x 6 data faults x early execution off/on x error propagation on/off x every completion order incl. consumer pulls (complete); early release <=1 on fault-free combinations with <=120 schedules",
    "thorough": "early release <=2 on fault-free and <=1 on faulted combinations with <=2500 schedules; cap 300000 executions per exploration",
}
RULE = (
    "stateless exploration on the hand-stepped loop: for each request, data fault, early-execution flag and propagation flag, every completion "
    "order of the awaitable resolvers / stream-source steps / consumer pulls: the formatted payloads are applied to the initial payload by the "
    "reference merger (vf/ref/incremental.py, which also enforces the delivery protocol); if the plain response (directives removed, executed "
    "synchronously) is error-free or propagation is disabled the merged data must equal it and the error paths must agree; otherwise the merged "
    "data must refine the non-propagating reference, key sets / list tails only missing below an id completed with errors. "
    "distinct = distinct (request, schedule, payload sequence)"
)
ASSUMPTIONS = [
    "object key order of the merged data is not compared (keys arrive in delivery order); order is C02's subject",
    "plain response = same operation with all @defer/@stream removed, executed by execute_sync on the same data without gates",
]

# (name, document, enclosing-label map, [site sets], variables)
REQUESTS = [
    ("defer1", '{ me { id ... @defer(label: "d") { name } } }', {}, [["u1.name"], []], None),
    ("defer_stream", '{ me { id ... @defer(label: "d") { name friends @stream(label: "s") { id name } } } }', {"s": "d"},
     [["u1.name", "u1.friends:agen"], ["u1.friends:agen", "u2.name"], ["u1.name"]], None),
    ("nested", '{ me { ... @defer(label: "a") { name ... @defer(label: "b") { nn best { ... @defer(label: "c") { name } } } } } }', {"b": "a", "c": "b"},
     [["u1.name", "u1.nn", "u2.name"], ["u1.best"], []], None),
    ("overlap", '{ me { ... @defer(label: "a") { name id } ... @defer(label: "b") { name nn } } }', {}, [["u1.name", "u1.nn"], ["u1.name"]], None),
    ("overlap_depth", '{ me { ... @defer(label: "a") { best { name nn } } best { ... @defer(label: "b") { name id } } } }', {},
     [["u2.name", "u2.nn"], ["u1.best", "u2.name"]], None),
    ("overlap_fail", '{ me { id ... @defer(label: "B") { name nn } } ... @defer(label: "A") { me { name } } }', {},
     [["u1.name"], ["u1.name", "u1.nn"]], None),
    ("abstract_stream", '{ beings { id ... on Being { friends @stream(label: "s") { id } } ... on Robot { friends @stream(label: "s") { name } } } }', {},
     [[], ["r1.friends:agen"], ["u1.friends:items"]], None),
    ("abstract_defer", '{ beings { ... on User { ... @defer(label: "u") { name } } ... on Robot { ... @defer(label: "r") { model friends { id } } } } }', {},
     [["u1.name", "r1.model"]], None),
    ("shared_nested_fail", '{ me { ... @defer(label: "A") { nn } ... @defer(label: "C") { name ... @defer(label: "B") { nn id } } } }', {"B": "C"},
     [[], ["u1.nn"], ["u1.name", "u1.nn"]], None),
    ("shared_nested_healthy", '{ me { ... @defer(label: "A") { name nn } ... @defer(label: "B") { id ... @defer(label: "B1") { name tags } } } }', {"B1": "B"},
     [[], ["u1.name"], ["u1.nn", "u1.tags:items"]], None),
    ("defers_in_list_in_defer", '{ ... @defer(label: "o") { users { id ... @defer(label: "a") { best { id } } ... @defer(label: "b") { best { name } } } } }', {"a": "o", "b": "o"},
     [[], ["u1.best", "u2.best"], ["u3.name", "u2.name"]], None),
    ("nested_defers_in_list", '{ ... @defer(label: "o") { users { id ... @defer(label: "a") { name ... @defer(label: "n") { nn } } } } }', {"a": "o", "n": "a"},
     [[], ["u1.name", "u3.name"], ["u1.nn", "u2.nn"]], None),
    ("same_frag", '{ me { ...F ...F @defer(label: "a") } other { ...F @defer(label: "b") } } fragment F on User { name best { id } }', {},
     [["u1.name", "u2.name"], ["u1.best"]], None),
    ("defer_if", 'query ($v: Boolean!) { me { ... @defer(if: $v, label: "a") { name } ... @defer(if: false) { id } } }', {}, [["u1.name"]], [{"v": True}, {"v": False}]),
    ("defer_list", '{ users { id ... @defer(label: "a") { name } } }', {}, [["u1.name", "u2.name"], ["u3.name"]], None),
    ("stream_sync", '{ me { friends @stream(initialCount: 1, label: "s") { id } } }', {}, [[], ["u1.friends:gen"], ["u1.friends:items"]], None),
    ("stream_agen", '{ me { friends @stream(label: "s") { id name } } }', {}, [["u1.friends:agen", "u2.name"], ["u1.friends:aiter"], ["u1.friends:aiterable"], ["u1.friends:agen!1"], ["u1.friends:agen!1", "u2.name"], ["u1.friends:agen!2", "u3.name"]], None),
    ("defer_in_stream", '{ me { friends @stream(initialCount: 1, label: "s") { id ... @defer(label: "d") { name } } } }', {},
     [["u1.friends:agen", "u2.name"], ["u2.name", "u3.name"]], None),
    ("scalars_top", '{ ... @defer(label: "t") { other { name } } me { tags @stream(initialCount: 2, label: "s") } }', {}, [["u2.name"], ["u1.tags:agen"]], None),
    ("two_streams", '{ me { friends @stream(label: "s1") { id } nnFriends @stream(label: "s2") { id nn } } }', {},
     [["u1.friends:agen", "u1.nnFriends:items"], ["u2.nn"], ["u1.nnFriends:agen"]], None),
    ("nonnull_deferred", '{ me { id ... @defer(label: "a") { nn } } other { ... @defer(label: "b") { nn name } } }', {}, [["u1.nn", "u2.nn"], ["u2.name"]], None),
    ("stream_count0", '{ me { tags @stream(initialCount: 0) friends @stream(initialCount: 2) { id } } }', {}, [[], ["u1.friends:items"]], None),
    ("plain_bg2", '{ me { name nn best { name nn } } boom }', {}, [["root.me", "u1.name"], ["root.me", "u1.best", "u2.name"]], None),
    ("plain_bg1", '{ me { name nn } other { name best { nn name } } }', {}, [["u1.name", "u2.name"], ["root.other", "u3.name"]], None),
    ("initial_async", '{ me { name ... @defer(label: "d") { nn best { name } } } other { name friends @stream(label: "s") { id } } }', {},
     [["u1.name", "u2.name"], ["root.me", "u2.friends:agen"]], None),
    ("nested_stream_item_fails", '{ me { nnFriends @stream(label: "s") { nn friends @stream(initialCount: 1, label: "n") { id } } } }', {},
     [["u2.nn:err", "u2.friends:agen"], ["u2.nn:err", "u2.friends:aiter"], ["u3.nn:err"]], None),
    # a field of a fragment repeated in its grand-child, the fragment in between empty / fully deduplicated
    ("skip_generation", '{ me { id ... @defer(label: "A") { name ... @defer(label: "B") { ... @defer(label: "C") { name } } } } }', {"B": "A", "C": "B"},
     [[], ["u1.name"]], None),
    ("skip_generation_dedup", '{ me { id ... @defer(label: "A") { name nn ... @defer(label: "B") { name ... @defer(label: "C") { nn tags } } } } }', {"B": "A", "C": "B"},
     [[], ["u1.nn", "u1.name"], ["u1.nn", "u1.tags:items"]], None),
    # a stream created next to a failing non-null sibling (sync fault menu: nn_null / nn_raise; async: the :err site)
    ("stream_next_to_failing", '{ me { friends @stream(initialCount: 1, label: "s") { id } nn } }', {},
     [["u1.friends:agen"], ["u1.friends:aiter"], ["u1.friends:agen", "u1.nn:err"], ["u1.friends:items"]], None),
    ("stream_next_to_failing_deferred", '{ me { id ... @defer(label: "d") { friends @stream(initialCount: 1, label: "s") { id } nn } } }', {"s": "d"},
     [["u1.friends:agen"], ["u1.friends:aiter", "u1.nn:err"]], None),
    ("stream_next_to_root_failure", '{ me { friends @stream(initialCount: 1, label: "s") { id } } boom }', {},
     [["u1.friends:agen"], ["u1.friends:aiter"]], None),
    # a stream produced by a task shared by two deferred fragments that both fail (through different fields)
    ("shared_stream_both_fail", '{ me { ... @defer(label: "A") { friends @stream(initialCount: 1, label: "s") { id } a: nn } ... @defer(label: "B") { friends @stream(initialCount: 1, label: "s") { id } b: nn } } }', {},
     [["u1.friends:agen", "u1.nn:err"], ["u1.friends:aiter", "u1.nn:err"], ["u1.nn:err"]], None),
    # experimental fragment arguments: the streamed items / deferred fields are completed in the variable scope of the fragment
    ("stream_in_fragment_scope", '{ me { ...F(inc: true, n: 1) } } fragment F($inc: Boolean = false, $n: Int = 0) on User { friends @stream(initialCount: $n, label: "s") { id name @include(if: $inc) } }', {},
     [[], ["u1.friends:agen"], ["u2.name"]], None),
    ("defer_in_fragment_scope", '{ me { ...F(inc: true) other: best { ...F } } } fragment F($inc: Boolean = false) on User { id ... @defer(label: "d", if: $inc) { name nn @skip(if: $inc) } }', {},
     [[], ["u1.name"]], None),
    # a stream inside the items of a stream, all items healthy: completed items wait in the outer queue with started nested producers
    ("stream_in_stream", '{ me { friends @stream(initialCount: 0, label: "o") { id friends @stream(initialCount: 0, label: "i") { id } } } }', {},
     [["u2.friends:agen"], ["u2.friends:aiter"]], None),
    # a deferred fragment that fails (asynchronously) while a fragment nested in it has already completed early and owns a stream
    ("failing_defer_owns_streaming_child", '{ me { id ... @defer(label: "A") { nn ... @defer(label: "B") { friends @stream(initialCount: 0, label: "s") { id } } } } }', {"B": "A", "s": "B"},
     [["u1.nn:err", "u1.friends:agen"], ["u1.nn:err", "u1.friends:aiter"]], None),
    ("deep", '{ me { best { ... @defer(label: "a") { name friends @stream(label: "s") { id ... @defer(label: "c") { nn } } } } } }', {"s": "a"},
     [["u2.name", "u3.nn"], ["u2.friends:agen"]], None),
]
NOPROP = "@experimental_disableErrorPropagation"


def shards(tier):
    out = []
    for ri, r in enumerate(REQUESTS):
        for si in range(len(r[3])):
            for early in (False, True):
                for fi in range(len(incr.FAULTS)):
                    out.append(("req", (ri, si, early, fi)))
    for a in range(2):
        for b in range(3):
            for early in (False, True):
                out.append(("gen", (a, b, early)))
    return out


_plain_cache = {}


def with_noprop(text):
    if text.lstrip().startswith("query"):
        i = text.index("{")
        return text[:i] + NOPROP + " " + text[i:]
    return "query " + NOPROP + " " + text


def plain_response(schema, text, fault, variables, noprop, data=None, err_sites=()):
    from graphql import execute_sync, parse

    key = (text, repr(fault), json.dumps(variables, default=repr), noprop, data is not None, tuple(err_sites))
    r = _plain_cache.get(key)
    if len(_plain_cache) > 4000:
        _plain_cache.clear()
    if r is None:
        t = incr.strip_incremental(text)
        if noprop:
            t = with_noprop(t)
        root, _objs = data(fault) if data is not None else incr.users(fault)
        for site in err_sites:  # resolvers that fail asynchronously in the incremental run fail here too
            oname, fname = site.split(":")[0].split(".")

            def boom(path, args, site=site):
                raise incr.Boom(f"{site} failed")
            _objs[oname][fname] = boom
        res = execute_sync(schema, incr.gparse(t), root, variable_values=variables, field_resolver=incr.resolver())
        r = _plain_cache[key] = res.formatted
    return r


def canon(x):
    return json.dumps(x, sort_keys=True, default=repr)


def err_paths(errors):
    return sorted(json.dumps(e.get("path")) for e in errors or [])


_fk_cache = {}


def fragment_keys(text):
    """{label: response keys selected directly by the deferred fragment with that label} (nested deferred fragments and
    type-conditioned parts excluded) - read off the document."""
    from graphql import parse

    r = _fk_cache.get(text)
    if r is not None:
        return r
    doc = incr.gparse(text)
    frags = {d.name.value: d for d in doc.definitions if type(d).__name__ == "FragmentDefinitionNode"}
    out = {}

    def defer_label(node):
        for d in node.directives or ():
            if d.name.value == "defer":
                lab, cond = None, True
                for a in d.arguments or ():
                    if a.name.value == "label" and type(a.value).__name__ == "StringValueNode":
                        lab = a.value.value
                    if a.name.value == "if":
                        cond = getattr(a.value, "value", None)
                return (lab, cond)
        return None

    def has_cond(node):
        return any(d.name.value in ("skip", "include") for d in node.directives or ())

    def keys_of(selset, acc, seen):
        for s in selset.selections:
            k = type(s).__name__
            if has_cond(s):
                continue
            if k == "FieldNode":
                acc.append(s.alias.value if s.alias else s.name.value)
            elif k == "InlineFragmentNode":
                if defer_label(s) is None and s.type_condition is None:
                    keys_of(s.selection_set, acc, seen)
            elif s.name.value in frags and s.name.value not in seen and defer_label(s) is None:
                pass  # named fragments carry a type condition: conditional keys, not demanded

    def walk(selset, seen):
        for s in selset.selections:
            k = type(s).__name__
            if k == "FieldNode":
                if s.selection_set:
                    walk(s.selection_set, seen)
            elif k == "InlineFragmentNode":
                dl = defer_label(s)
                if dl and dl[0] and dl[1] is True and s.type_condition is None and not has_cond(s):
                    acc = []
                    keys_of(s.selection_set, acc, seen)
                    out.setdefault(dl[0], acc)
                walk(s.selection_set, seen)
            elif s.name.value in frags and s.name.value not in seen:
                walk(frags[s.name.value].selection_set, seen | {s.name.value})

    for d in doc.definitions:
        if type(d).__name__ == "OperationDefinitionNode":
            walk(d.selection_set, frozenset())
    _fk_cache[text] = out
    if len(_fk_cache) > 5000:
        _fk_cache.clear()
    return out


def judge(obs, schema, text, enclosing, fault, variables, noprop, label, payload, res, data=None):
    """Shared verdict for one execution; returns the Merged or None."""
    res.evaluations += 1
    if obs.status != "done":
        res.violation("consumer_" + obs.status.split(":")[0], f"{label}: {obs.status} {obs.exc!r}", payload)
        return None
    try:
        m = refinc.apply_payloads(obs.payloads, enclosing)
    except refinc.ProtocolViolation as e:
        res.violation("protocol:" + e.signature, f"{label}: {e.detail}; payloads {incr.dumps(obs.payloads)}", payload)
        return None
    err_sites = [x for x in payload.get("sites", []) if x.endswith(":err")]
    plain = plain_response(schema, text, fault, variables, noprop, data, err_sites)
    nonprop = plain if noprop else plain_response(schema, text, fault, variables, True, data, err_sites)
    source_fails = any("!" in s for s in payload.get("sites", []))
    if (not plain.get("errors") or noprop) and not source_fails:
        if canon(m.data) != canon(plain.get("data")):
            res.violation("merged_data_differs", f"{label}: merged {canon(m.data)} plain {canon(plain.get('data'))}; payloads {incr.dumps(obs.payloads)}", payload)
            return None
        if err_paths(m.errors) != err_paths(plain.get("errors")):
            res.violation("merged_errors_differ", f"{label}: merged error paths {err_paths(m.errors)} plain {err_paths(plain.get('errors'))}", payload)
            return None
    else:
        withheld = [list(m.completed[i][0]["path"]) for i in m.failed_ids]
        why = refinc.refines(m.data, nonprop.get("data"), [], withheld)
        if why:
            res.violation("merged_not_a_refinement", f"{label}: {why}; merged {canon(m.data)} non-propagating reference {canon(nonprop.get('data'))}; failed ids at {withheld}", payload)
            return None
        # a fragment reported as completed WITHOUT errors must have delivered all of its own fields
        fk = fragment_keys(text)
        for cid, (pe, cerrs) in m.completed.items():
            keys = fk.get(pe.get("label"))
            if cerrs or not keys:
                continue
            try:
                obj = refinc._get(m.data, pe["path"], "completed fragment")
            except refinc.ProtocolViolation:
                continue
            if isinstance(obj, dict):
                missing = [k2 for k2 in keys if k2 not in obj]
                if missing:
                    res.violation("successful_fragment_incomplete", f"{label}: fragment {pe.get('label')!r} (id {cid}) at {pe['path']} completed without errors but its fields {missing} never arrived; merged {canon(m.data)}", payload)
                    return None
        if not m.errors and (plain.get("errors") or source_fails and m.failed_ids):
            res.violation("errors_lost", f"{label}: plain response has errors {err_paths(plain.get('errors'))} but the assembled response has none", payload)
            return None
    return m


def run_request(arg, tier, res, only=None):
    ri, si, early = arg[:3]
    only_fault = incr.FAULTS[arg[3]] if len(arg) > 3 else "ALL"
    name, text, enclosing, site_sets, varsets = REQUESTS[ri]
    from graphql import parse

    schema = incr.make_schema()
    sites = site_sets[si]
    cap = 60000 if tier == "quick" else 300000

    def scenario_for(fault, variables, noprop, ebound):
        t = with_noprop(text) if noprop else text
        doc = incr.gparse(t)

        def scenario(c):
            return incr.run(c, schema, doc, sites, fault, early, early_bound=ebound, variables=variables)

        return scenario

    combos = []
    for fault in incr.FAULTS:
        if only_fault != "ALL" and fault != only_fault:
            continue
        for variables in (varsets or [None]):
            for noprop in (False, True):
                combos.append((fault, variables, noprop))
    if only is not None:
        fault, variables, noprop, choices = only
        sc = scenario_for(fault, variables, noprop, True)
        c, obs = run_once(sc, choices)
        judge(obs, schema, text, enclosing, fault, variables, noprop, f"{name} replay", {"sites": sites}, res)
        return
    for fault, variables, noprop in combos:
        bound = 0
        sc = scenario_for(fault, variables, noprop, False)

        def visit(c, obs, fault=fault, variables=variables, noprop=noprop):
            label = f"{name} sites={sites} fault={fault} early_execution={early} noprop={noprop} vars={variables} schedule={obs.trace}"
            payload = {"request": ri, "site_set": si, "early": early, "fault": fault, "variables": variables, "noprop": noprop, "choices": list(c.choices), "sites": sites}
            m = judge(obs, schema, text, enclosing, fault, variables, noprop, label, payload, res)
            if m is not None:
                res.outcome((name, tuple(obs.trace), incr.dumps(obs.payloads)))
                if len(res.samples) < 1 and len(obs.payloads) > 2:
                    res.sample({"request": text, "awaitable_sites": sites, "fault": fault, "early_execution": early, "schedule": obs.trace,
                                "payloads": obs.payloads})

        st = explore(sc, 0, visit, max_executions=cap)
        res.add_stats(st)
        if st.pruned:
            res.notes.append(f"cap {cap} hit at early-release bound 0: {name} sites {sites} fault {fault}")
        # early releases (a completion landing between two callback batches): bounded deviation, where affordable
        small = st.executions <= (120 if tier == "quick" else 2500)
        if small and (fault is None or tier == "thorough"):
            sc1 = scenario_for(fault, variables, noprop, True)
            st1 = explore(sc1, 1 if (tier == "quick" or fault is not None) else 2, visit, max_executions=cap)
            res.add_stats(st1)
            res.count("combos_with_early_release")
            if st1.pruned:
                res.notes.append(f"cap {cap} hit with early releases: {name} sites {sites} fault {fault}")


# ---- generated operations: every placement of @defer / @stream on operations near the minimal one -----------------

GEN_FAULTS = [None, ("User", "nn", "null"), ("User", "name", "raise"), ("User", "friends", "null"), ("User", "nnFriends", "null")]


def gen_data(fault):
    from vf.gen import data as gdata

    roots, objs = gdata.build(_gen_schema(), fault=fault)
    return roots["query"], {k: v[0] for k, v in objs.items()}


_gs = None


def _gen_schema():
    global _gs
    if _gs is None:
        _gs = incr.make_schema()
    return _gs


def enclosing_from_labels(text):
    import re

    labels = re.findall(r'@(?:defer|stream)\(label: "([^"]+)"', text)
    defers = re.findall(r'@defer\(label: "([^"]+)"', text)
    out = {}
    for l in labels:
        # only an enclosing *deferred fragment* delays the announcement; a stream stays pending while its items arrive
        parents = [p for p in defers if p != l and l.startswith(p + "_")]
        if parents:
            out[l] = max(parents, key=len)
    return out


def run_gen(arg, tier, res, only=None):
    from graphql import GraphQLSyntaxError, parse, validate

    from vf.gen import docs as gdocs

    a, b, early = arg
    schema = _gen_schema()
    k = 2 if tier == "quick" else 3

    def scenario(c):
        g = gdocs.DocGen(c, schema, maxdepth=2, incremental=True, free=("incr", "rootfield"), lean=True)
        return g.operation()

    def visit(c, out):
        text, values = out
        if "@defer" not in text and "@stream" not in text:
            return
        try:
            doc = incr.gparse(text)
        except GraphQLSyntaxError as e:
            raise AssertionError(f"unparseable generated text {text!r}: {e}") from e
        if validate(schema, doc):
            res.count("generated_rejected_by_validation")
            return
        res.count("generated_documents")
        enclosing = enclosing_from_labels(text)
        for fault in GEN_FAULTS:
            if fault is not None and fault[1] not in text:
                continue
            for noprop in ((False, True) if fault else (False,)):
                t = with_noprop(text) if noprop else text
                d2 = incr.gparse(t)
                c2 = None
                from vf.engine.choice import Chooser

                ch = Chooser(())
                # no awaitable sites: the only schedule freedom is the consumer's pulls (sequential), so one execution per case
                obs = incr.run(ch, schema, d2, [], fault, early, early_bound=False, variables=values, data=gen_data)
                res.executions += 1
                label = f"generated {text!r} vars={values} fault={fault} early_execution={early} noprop={noprop}"
                payload = {"gen": True, "doc": text, "vars": values, "fault": list(fault) if fault else None, "noprop": noprop, "early": early}
                m = judge(obs, schema, text, enclosing, fault, values, noprop, label, payload, res, data=gen_data)
                if m is not None:
                    res.outcome((text, repr(fault), noprop, incr.dumps(obs.payloads)))
        if len(res.samples) < 1 and text.count("@") >= 2:
            res.sample({"generated_operation": text, "faults": [repr(f) for f in GEN_FAULTS]})

    if only is not None:
        doc_text, values, fault, noprop = only
        from vf.engine.choice import Chooser

        t = with_noprop(doc_text) if noprop else doc_text
        obs = incr.run(Chooser(()), schema, incr.gparse(t), [], fault, early, early_bound=False, variables=values, data=gen_data)
        judge(obs, schema, doc_text, enclosing_from_labels(doc_text), fault, values, noprop, "replay", {}, res, data=gen_data)
        return
    res.add_stats(explore(scenario, k, visit, root=(a, b)))


def run_shard(shard, tier):
    res = Result()
    if shard[0] == "gen":
        run_gen(shard[1], tier, res)
    else:
        run_request(shard[1], tier, res)
    return res


def replay(payload):
    res = Result()
    if payload.get("gen"):
        fault = tuple(payload["fault"]) if payload.get("fault") else None
        run_gen((0, 0, payload["early"]), "quick", res, only=(payload["doc"], payload["vars"], fault, payload["noprop"]))
        return [{"signature": v["signature"], "summary": v["summary"]} for v in res.violations]
    run_request((payload["request"], payload["site_set"], payload["early"]), "thorough", res,
                only=(payload["fault"], payload["variables"], payload["noprop"], payload["choices"]))
    return [{"signature": v["signature"], "summary": v["summary"]} for v in res.violations]
