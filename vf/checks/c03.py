"""C03  The response does not depend on when resolvers complete."""

from __future__ import annotations

import json

from vf.engine.choice import explore, run_once
from vf.engine.runner import Result
from vf.engine.vloop import Hang, Livelock, World, task_names
from vf.gen import data as gdata
from vf.gen import execschemas
from vf.ref import execute as refx
from vf.ref import respformat

ID = "C03"
BOUNDS = {
    "quick": "23 requests (incl. two in which several fields await one shared future) x every {sync, awaitable} assignment of <=4 sites x every completion order of the awaitables (complete) x early-release deviations <=1; identity adversary: <=1 address reuse of a dead FieldDetails on all-awaitable and single-awaitable assignments",
    "thorough": "early-release deviations <=3; <=3 address reuses (cap 400000 executions per assignment)",
}
RULE = (
    "stateless exploration of the real executor on a hand-stepped asyncio loop: every assignment of {sync, awaitable} to the gateable "
    "sites of a request (resolver results, list items, resolve_type / is_type_of results, async-iterator steps), every permutation of the "
    "completion order of the awaitables, plus bounded early releases (a completion landing between two callback batches). Oracle: data equals "
    "the fully synchronous execution and the reference executor, same outermost nulled positions, well-formed response, no pending task left, "
    "mutation root fields strictly serial. distinct = distinct (request, event trace) schedules"
)
ASSUMPTIONS = [
    "mutation seriality: invocation order always; 'previous subtree finished' whenever no resolver failed synchronously (after a synchronous error the executor abandons already started siblings by design)",
    "asyncio single-threaded semantics as implemented by BaseEventLoop; FIFO order of ready callbacks is kept, completion order and early releases are explored",
    "address reuse is modelled for the executor's FieldDetails objects only (identity adversary: module-level id shadow + creation hook, no source change); a freed object's address may be given to any later FieldDetails",
]


MAX_EXEC = {"quick": 20000, "thorough": 400000}


def make_requests():
    """(name, schema name, document, sites, options).  A site is (kind, key):
       ('field', 'Type.field') value delivered through a gate; ('fielderr', 'Type.field') gate completes with an exception;
       ('items', 'Type.field') every list item is its own gate; ('rt', 'Abstract') awaitable resolve_type;
       ('ito', 'Object') awaitable is_type_of; ('aiter', 'Type.field') list served by an async iterator whose steps are gates."""
    return [
        ("siblings", "S1", "{ a { id name nn } }", [("field", "Query.a"), ("field", "A.name"), ("field", "A.nn")], {}),
        ("nested", "S1", "{ a { self { name } kids { id } } as { nn } }", [("field", "A.self"), ("field", "A.kids"), ("field", "Query.as"), ("field", "A.nn")], {}),
        ("items", "S1", "{ a { kids { id ... on A { nn } } } }", [("items", "A.kids"), ("rt", "Node"), ("field", "A.nn")], {}),
        ("abstract", "S1", "{ n { id ... on A { a } } u { ... on B { b } } }", [("rt", "Node"), ("rt", "U"), ("field", "Query.n"), ("field", "B.b")], {}),
        ("error_race", "S1", "{ a { nn name self { nn } } }", [("fielderr", "A.nn"), ("field", "A.name"), ("field", "A.self")], {}),
        ("error_root", "S1", "{ an { selfnn { nn name } } a { name } }", [("fielderr", "A.nn"), ("field", "A.name"), ("field", "Query.a"), ("field", "Query.an")], {}),
        ("is_type_of", "S1", "{ ns { id name } }", [("ito", "A"), ("ito", "B"), ("field", "A.name")], {"no_typename": True}),
        ("is_type_of_err", "S1", "{ ns { id ... on A { nn } name } }", [("ito", "A"), ("ito", "B"), ("fielderr", "A.nn")], {"no_typename": True}),
        # resolve_type names a type whose own is_type_of refuses the value: the position is nulled with an error, whenever resolve_type answers
        ("rt_ito_reject", "S1", "{ ns { id name } n { id } u { ... on B { b } } }", [("rt", "Node"), ("ito", "A"), ("field", "B.name")], {"no_ref": True}),
        ("async_iter", "S1", "{ a { peers { nn } name } }", [("aiter", "A.peers"), ("field", "A.nn"), ("field", "A.name")], {}),
        ("aiter_error", "S1", "{ a { peers { nn } kids { id } } }", [("aiter", "A.peers"), ("fielderr", "A.nn"), ("items", "A.kids")], {}),
        ("mutation", "S3", "mutation { first { v } second third { v nn } }", [("field", "Mutation.first"), ("field", "R.v"), ("field", "Mutation.second"), ("field", "Mutation.third")], {}),
        ("mutation_err", "S3", "mutation { first { nn } nn second }", [("fielderr", "R.nn"), ("field", "Mutation.first"), ("field", "Mutation.second"), ("fielderr", "Mutation.nn")], {}),
        ("mutation_coro", "S3", "mutation { first { v nn } second third { v } }", [("coro", "R.v"), ("coroerr", "R.nn"), ("coro", "Mutation.second")], {}),
        ("memo", "S1", "{ a { id } an { id } n { id } as { id } u { ... on A { self { name } } ... on B { other { name } } } }", [("field", "Query.u"), ("field", "A.self"), ("field", "Query.n")], {}),
        ("list_in_await", "S1", "{ a { kids { name } nkids { name } } }", [("field", "Query.a"), ("field", "A.kids"), ("items", "A.nkids"), ("field", "B.name")], {}),
        ("item_error", "S1", "{ a { nkids { name ... on A { nn } } } }", [("items", "A.nkids"), ("fielderr", "A.nn"), ("field", "A.name"), ("field", "B.name")], {}),
        # the same below a list whose items are non-null while the list is nullable: the error of an asynchronously completed item nulls the list
        ("item_error_nonnull_items", "S1", "{ a { kids { name ... on A { nn } } name } }", [("items", "A.kids"), ("fielderr", "A.nn"), ("field", "A.name"), ("rt", "Node")], {}),
        # two fields await one and the same future; a non-null sibling of one of them fails
        ("shared_future", "S1", "{ a { nn name } x: a { name id } }", [("fielderr", "A.nn"), ("shared", "A.name")], {}),
        ("shared_future_list", "S1", "{ a { kids { ... on A { nn } name } } y: a { name } }", [("fielderr", "A.nn"), ("shared", "A.name"), ("items", "A.kids")], {}),
        ("merged_abstract", "S1", "{ a { nkids { ... on A { a } } nkids { ... on B { b } name } } }", [("items", "A.nkids"), ("field", "A.a"), ("field", "B.b")], {}),
        ("merged_union", "S1", "{ ns { id } ns { ... on A { a } ... on B { b } } u { ... on B { nn } } u { ... on B { b } } }", [("items", "Query.ns"), ("field", "Query.u"), ("field", "B.b")], {}),
        ("merged", "S1", "{ x: a { name } a { name nn } ...F } fragment F on Query { a { id self { id } } }", [("field", "Query.a"), ("field", "A.name"), ("field", "A.self")], {}),
    ]


def shards(tier):
    out = []
    for i, r in enumerate(make_requests()):
        n = len(r[3])
        for mask in range(1 << n):
            out.append(("req", (i, mask)))
        # identity adversary: address reuse of dead FieldDetails objects, on the all-awaitable and single-awaitable assignments
        for mask in sorted({(1 << n) - 1} | {1 << b for b in range(n)}):
            out.append(("ident", (i, mask)))
    return out


# ---------------------------------------------------------------------------


class Boom(Exception):
    pass


class IdAdversary:
    """Owns the addresses of the executor's FieldDetails objects (DESIGN.md 1.4).

    Every FieldDetails created during an execution is kept alive here, so the real allocator can
    never hand a freed one's address to a new one behind our back; id() inside
    graphql.execution.executor is answered with *virtual* addresses.  At the creation of a new
    object the explorer may choose (a deviation) to give it the virtual address of an object that
    is logically dead - nothing but this adversary references it any more - which is exactly what a
    LIFO size-class allocator may do.  If the library keeps its memo keys alive no keyed object is
    ever dead, and the seam is silent.
    """

    def __init__(self, chooser, enabled):
        import sys

        self.c = chooser
        self.enabled = enabled
        self.objs = []
        self.vid = {}
        self.owner = {}
        self.next = 10 ** 12
        self.reuses = []
        self.getrefcount = sys.getrefcount
        probe = [object()]
        for o in probe:
            self.base = sys.getrefcount(o)

    def install(self):
        import graphql.execution.collect_fields as cf
        import graphql.execution.executor as ex

        self.cf, self.ex = cf, ex
        self.real = cf.FieldDetails
        self.saved = (cf.__dict__.get("FieldDetails"), ex.__dict__.get("FieldDetails"), ex.__dict__.get("id", None))
        cf.FieldDetails = self.make
        ex.FieldDetails = self.make
        ex.id = self.id

    def uninstall(self):
        self.cf.FieldDetails = self.saved[0]
        self.ex.FieldDetails = self.saved[1]
        if self.saved[2] is None:
            self.ex.__dict__.pop("id", None)
        else:
            self.ex.id = self.saved[2]

    def dead(self):
        out = []
        for i in range(len(self.objs)):
            o = self.objs[i]
            if self.getrefcount(o) <= self.base:
                out.append(i)
            del o
        return out

    def make(self, *a, **k):
        obj = self.real(*a, **k)
        v = None
        if self.enabled:
            # a virtual address is free iff the object that holds it now is logically dead
            cands = []
            for i in self.dead():
                vv = self.vid[id(self.objs[i])]
                if self.owner.get(vv) == i:
                    cands.append(vv)
            if cands:
                k2 = self.c.choose(1 + len(cands), "address", cost=1)
                if k2:
                    v = cands[k2 - 1]
                    self.reuses.append(v)
        if v is None:
            v = self.next
            self.next += 16
        self.owner[v] = len(self.objs)
        self.objs.append(obj)
        self.vid[id(obj)] = v
        return obj

    def id(self, o):
        return self.vid.get(id(o), id(o))


def install(world, schema, objs, sites, mask, options, calls=None):
    """Rewire data/schema so that the sites selected by mask are awaitable (gates)."""
    from graphql import GraphQLObjectType

    for bit, (kind, key) in enumerate(sites):
        is_async = bool(mask >> bit & 1)
        if kind in ("coro", "coroerr"):
            # coroutine resolvers with a life time: start ... (await the gate) ... cleanup that itself takes a loop iteration
            tname, fname = key.split(".")
            for variant in (0, 1):
                d = objs[tname][variant]
                orig = d[fname]
                if kind == "coroerr" and variant == 1:
                    continue
                if is_async:
                    def mkc(orig, err):
                        def fn(path, args):
                            import asyncio

                            async def run():
                                lab = ".".join(map(str, path))
                                if calls is not None:
                                    calls.append(("start", lab))
                                try:
                                    return await world.gate(lab + ("!" if err else ""), orig(path, args) if callable(orig) else orig,
                                                            error=Boom("coroutine failure") if err else None)
                                finally:
                                    await asyncio.sleep(0)
                                    if calls is not None:
                                        calls.append(("end", lab))
                            return run()
                        return fn
                    d[fname] = mkc(orig, kind == "coroerr")
                elif kind == "coroerr":
                    def boomc(path, args):
                        raise Boom("sync failure")
                    d[fname] = boomc
            continue
        if kind in ("field", "fielderr", "items", "aiter", "shared"):
            tname, fname = key.split(".")
            for variant in (0, 1):
                d = objs[tname][variant]
                orig = d[fname]
                if kind == "field":
                    if is_async:
                        d[fname] = (lambda orig, tname=tname, fname=fname: lambda path, args: world.gate(f"{'.'.join(map(str, path))}", orig(path, args) if callable(orig) else orig))(orig)
                elif kind == "shared":
                    # every invocation on one object returns the SAME future (a data loader hands out one future per key)
                    if is_async:
                        def mks(orig, d=d, key=key):
                            box = {}

                            def fn(path, args):
                                if "f" not in box:
                                    box["f"] = world.gate(f"shared:{key}", orig(path, args) if callable(orig) else orig)
                                return box["f"]
                            return fn
                        d[fname] = mks(orig)
                elif kind == "fielderr":
                    if variant == 1:
                        continue
                    if is_async:
                        d[fname] = lambda path, args: world.gate(f"{'.'.join(map(str, path))}!", error=Boom("gated failure"))
                    else:
                        def boom(path, args):
                            raise Boom("sync failure")
                        d[fname] = boom
                elif kind == "items":
                    if is_async and isinstance(orig, list):
                        d[fname] = (lambda orig: lambda path, args: [world.gate(f"{'.'.join(map(str, path))}[{i}]", x) for i, x in enumerate(orig)])(orig)
                elif kind == "aiter":
                    if isinstance(orig, list):
                        if is_async:
                            def mk(orig):
                                def fn(path, args):
                                    async def gen():
                                        for i, x in enumerate(orig):
                                            yield await world.gate(f"{'.'.join(map(str, path))}#{i}", x)
                                    return gen()
                                return fn
                            d[fname] = mk(orig)
                        else:
                            def mk2(orig):
                                def fn(path, args):
                                    async def gen():
                                        for x in orig:
                                            yield x
                                    return gen()
                                return fn
                            d[fname] = mk2(orig)
        elif kind == "rt":
            t = schema.type_map[key]
            if is_async:
                t.resolve_type = lambda value, info, _t, key=key: world.gate(f"rt:{key}:{value.get('__typename')}", value.get("__typename"))
            else:
                t.resolve_type = lambda value, info, _t: value.get("__typename")
        elif kind == "ito":
            t = schema.type_map[key]
            if is_async:
                t.is_type_of = lambda value, info, key=key: world.gate(f"ito:{key}:{value.get('_tn')}", value.get("_tn") == key)
            else:
                t.is_type_of = lambda value, info, key=key: value.get("_tn") == key


def hide_typename(objs):
    """is_type_of based resolution: hide __typename from the default type resolver but keep it for the harness."""
    for pair in objs.values():
        for d in pair:
            if "__typename" in d:
                d["_tn"] = d.pop("__typename")


_sync_cache = {}


def sync_reference(req):
    """Fully synchronous execution + reference executor for the request (no gates)."""
    from graphql import execute_sync, parse

    name, sname, text, sites, options = req
    key = name
    if key in _sync_cache:
        return _sync_cache[key]
    schema = execschemas.build(sname)
    doc = parse(text)
    op = "mutation" if text.startswith("mutation") else "query"
    roots, objs = gdata.build(schema)
    w = None
    if options.get("no_typename"):
        hide_typename(objs)
    install(w, schema, objs, sites, 0, options)
    has_aiter = any(k == "aiter" for k, _ in sites)
    if has_aiter:
        # async iterators need a loop even when nothing is gated: take the reference from the spec executor alone
        sync_data = None
        sync_paths = None
    else:
        r = execute_sync(schema, doc, roots[op], field_resolver=gdata.harness_resolver())
        sync_data = json.dumps(r.data, default=repr)
        sync_paths = sorted(tuple(e.path or ()) for e in r.errors or [])
    # reference executor on plain data (fault = raising where fielderr sites are)
    roots2, objs2 = gdata.build(schema)
    for kind, k2 in sites:
        if kind in ("fielderr", "coroerr"):
            tname, fname = k2.split(".")
            def boom(path, args):
                raise Boom("ref failure")
            objs2[tname][0][fname] = boom
    want = refx.execute(schema, doc, roots2[op])
    out = (sync_data, sync_paths, json.dumps(want.data, default=repr), want)
    _sync_cache[key] = out
    return out


def run_request(req, mask, tier, res, only_choices=None, mode="sched"):
    from graphql import ExecutionResult, execute, parse

    name, sname, text, sites, options = req
    doc = parse(text)
    op = "mutation" if text.startswith("mutation") else "query"
    sync_data, sync_paths, ref_data, want = sync_reference(req)
    nsites = len(sites)
    all_async = mask == (1 << nsites) - 1
    bound = 1 if tier == "quick" else 3
    id_bound = 0
    if mode == "ident":
        id_bound = bound

    schema = execschemas.build(sname)

    def scenario(c):
        roots, objs = gdata.build(schema)
        trace = []
        calls = []
        adv = IdAdversary(c, id_bound > 0)
        adv.install()
        try:
          with World() as w:
              orig_gate = w.gate

              def logged_gate(label, *a, **k):
                  calls.append(("open", label))
                  f = orig_gate(label, *a, **k)
                  # a gate the library cancels is no longer pending work of its root field
                  f.add_done_callback(lambda fut, label=label: calls.append(("release", label)) if fut.cancelled() else None)
                  return f

              w.gate = logged_gate
              if options.get("no_typename"):
                  hide_typename(objs)
              install(w, schema, objs, sites, mask, options)
              resolver = gdata.harness_resolver(calls)
              box = {}

              async def main():
                  r = execute(schema, doc, roots[op], field_resolver=resolver)
                  if hasattr(r, "__await__"):
                      r = await r
                  box["r"] = r

              t = w.task(main())
              outcome = None
              try:
                  while not t.done():
                      # loop-iteration boundary: optionally let one completion land early
                      while w.loop.ready() and not t.done():
                          if bound:
                              og = w.open_gates()
                              if og:
                                  k = c.choose(1 + len(og), "early", cost=1)
                                  if k:
                                      g = og[k - 1]
                                      trace.append("early:" + g.label)
                                      calls.append(("release", g.label))
                                      g.release()
                          w.loop.step()
                      if t.done():
                          break
                      og = w.open_gates()
                      if not og:
                          raise Hang("no ready handle, no open gate, request not finished")
                      k = c.choose(len(og), "release", cost=0)
                      g = og[k]
                      trace.append(g.label)
                      calls.append(("release", g.label))
                      g.release()
                  w.drain()
                  # the outside world still completes what it started: release what the request no longer waits for
                  late = 0
                  while True:
                      og = [g for g in w.open_gates()]
                      if not og or late > 50:
                          break
                      late += 1
                      trace.append("late:" + og[0].label)
                      calls.append(("release", og[0].label))
                      og[0].release()
                      w.drain()
                  if t.cancelled():
                      # nobody cancelled the caller: the request itself ended in a CancelledError
                      outcome = ("raised", "CancelledError() - the awaiting caller was cancelled from within the execution")
                  elif t.exception() is not None:
                      outcome = ("raised", repr(t.exception()))
                  else:
                      outcome = ("result", box["r"])
              except (Hang, Livelock) as e:
                  outcome = ("hang", str(e))
              leftovers = task_names(w.pending_tasks(exclude=(t,)))
              open_left = [g.label for g in w.open_gates()]
              errs = list(w.loop.errs)
        finally:
            adv.uninstall()
        if adv.reuses:
            trace.append(f"address-reuse x{len(adv.reuses)}")
        return outcome, trace, calls, leftovers, open_left, errs

    def visit(c, obs):
        outcome, trace, calls, leftovers, open_left, errs = obs
        res.evaluations += 1
        label = f"{name} mask={mask:0{nsites}b} schedule={trace}"
        payload = {"request": name, "mask": mask, "choices": list(c.choices), "trace": trace, "mode": mode}
        if outcome[0] == "hang":
            res.violation("hang", f"{label}: {outcome[1]}", payload)
            return
        if outcome[0] == "raised":
            res.violation(f"execute_raises:{outcome[1].split('(')[0]}:{name}", f"{label}: {outcome[1]}", payload)
            return
        r = outcome[1]
        if not isinstance(r, ExecutionResult):
            res.violation("not_a_result", f"{label}: {type(r).__name__}", payload)
            return
        data = json.dumps(r.data, default=repr)
        if sync_data is not None and data != sync_data:
            res.violation("data_differs_from_sync", f"{label}: data {data} but synchronous execution gives {sync_data}", payload)
            return
        if options.get("no_ref"):
            # behaviour outside the reference executor's model (is_type_of refusing a value): the fully synchronous execution is the reference
            gp = sorted(tuple(e.path or ()) for e in r.errors or [])
            if gp != sync_paths:
                res.violation("error_paths_differ_from_sync", f"{label}: error paths {gp}, synchronous execution {sync_paths}", payload)
                return
            probs = respformat.check_result(r)
            if probs:
                res.violation("response_malformed", f"{label}: {probs}", payload)
            elif leftovers:
                res.violation("task_left_pending", f"{label}: {leftovers}", payload)
            elif errs:
                res.violation("loop_error_logged", f"{label}: {errs}", payload)
            else:
                res.outcome((name, tuple(trace)))
            return
        if data != ref_data:
            res.violation("data_differs_from_reference", f"{label}: data {data} reference {ref_data}", payload)
            return
        gp = [tuple(e.path or ()) for e in r.errors or []]
        if len(set(gp)) != len(gp):
            res.violation("duplicate_error_path", f"{label}: {gp}", payload)
            return
        if not set(gp) <= set(want.errors):
            res.violation("error_not_predicted", f"{label}: error paths {gp}, reference field errors {want.errors}", payload)
            return
        if refx.outermost(want.data, gp) != refx.outermost(want.data, want.errors):
            res.violation("nulled_positions_differ", f"{label}: reported errors {gp} reference {want.errors} data {data}", payload)
            return
        probs = respformat.check_result(r)
        if probs:
            res.violation("response_malformed", f"{label}: {probs}", payload)
            return
        if leftovers:
            res.violation("task_left_pending", f"{label}: {leftovers}", payload)
            return
        if errs:
            res.violation("loop_error_logged", f"{label}: {errs}", payload)
            return
        if op == "mutation":
            # seriality: when root field i+1 is invoked no gate opened under an earlier root field is still open,
            # and nothing under an earlier root field is invoked afterwards
            order = []
            open_by_root = {}
            alive = {}
            # after a *synchronous* resolver error the executor abandons the sibling awaitables it had already started
            # (settle_in_background, by design); pending work of the previous root field is then not demanded to be finished
            sync_error = any(kd in ("coroerr", "fielderr") and not (mask >> bit & 1) for bit, (kd, _k) in enumerate(sites))
            for ev in calls:
                if ev[0] in ("start", "end"):
                    root = ev[1].split(".")[0]
                    alive[root] = alive.get(root, 0) + (1 if ev[0] == "start" else -1)
                    continue
                if ev[0] in ("release", "open"):
                    lab = ev[1].rstrip("!")
                    root = lab.split(".")[0].split("[")[0].split("#")[0]
                    open_by_root[root] = open_by_root.get(root, 0) + (1 if ev[0] == "open" else -1)
                    continue
                p = ev[0]
                root = p[0]
                if root not in order:
                    for prev in ([] if sync_error else order):
                        if alive.get(prev, 0) > 0:
                            res.violation("mutation_not_serial", f"{label}: root field {root!r} invoked while a resolver coroutine under {prev!r} had not finished (cancelled work not awaited)", payload)
                            return
                        if open_by_root.get(prev, 0) > 0:
                            res.violation("mutation_not_serial", f"{label}: root field {root!r} invoked while {prev!r} still had pending work", payload)
                            return
                    order.append(root)
                elif root != order[-1]:
                    res.violation("mutation_not_serial", f"{label}: resolver under {root!r} invoked after {order[-1]!r} started", payload)
                    return
            # count gate openings from the trace labels
        res.outcome((name, tuple(trace)))
        if len(res.samples) < 1 and len(trace) >= 2:
            res.sample({"request": text, "awaitable_sites": [s[1] for i, s in enumerate(sites) if mask >> i & 1], "completion_order": trace})

    if only_choices is not None:
        ch, obs = run_once(scenario, only_choices)
        visit(ch, obs)
        return
    st = explore(scenario, bound, visit, max_executions=MAX_EXEC[tier])
    res.add_stats(st)
    if st.pruned:
        res.notes.append(f"cap of {MAX_EXEC[tier]} executions hit for request {name} mask {mask:b} (bound {bound}); explored depth-first up to the cap")


def run_shard(shard, tier):
    res = Result()
    kind, (i, mask) = shard
    req = make_requests()[i]
    run_request(req, mask, tier, res, None, "ident" if kind == "ident" else "sched")
    return res


def replay(payload):
    res = Result()
    reqs = {r[0]: r for r in make_requests()}
    run_request(reqs[payload["request"]], payload["mask"], "thorough", res, payload["choices"], payload.get("mode", "sched"))
    return [{"signature": v["signature"], "summary": v["summary"]} for v in res.violations]
