"""C07  A subscription maps source events to responses one-to-one and in order."""

from __future__ import annotations

import json

from vf.engine.choice import explore, run_once
from vf.engine.runner import Result
from vf.engine.vloop import Hang, Livelock, World, task_names
from vf.gen import data as gdata
from vf.ref import execute as refx

ID = "C07"
BOUNDS = {
    "quick": "11 subscription documents x event sequences of length 0..2 over 6 payload shapes (incl. a non-null failure next to a sibling that fails later) x 7 source kinds (async generator, custom iterator with / without aclose, aclose that raises, aclose that returns a truthy value, awaitable-returning resolver, iterable that is not its own iterator) x with / without a never-firing abort signal x with / without a subscription root value x source failure at every position x per-event resolver sync/async x all interleavings of source / pull / resolver gates x early release <=1; 7 creation-failure modes",
    "thorough": "event sequences of length 0..4, early release <=2",
}
RULE = (
    "stateless exploration on the hand-stepped loop: the consumer observes exactly one response per source event, in order, each equal to "
    "the reference execution of the operation's selection set with that event as root value (data and error paths), kept intact after later "
    "events ran; then the source's own exception (same object) or the end of the stream exactly when the source ended; a failure while creating "
    "the source gives one errors-only response. distinct = distinct (document, events, source kind, schedule) traces"
)
ASSUMPTIONS = [
    "the source is pull-driven (an async iterator); pushes are modelled by the completion time of its __anext__ gate",
    "per-event expectation comes from the reference executor (vf/ref/execute.py) with the event as root value",
]

SCHEMA = """
type Event { id: ID msg: String nn: Int! sub: Event echo(a: Int = 1): String fromroot: String }
type Query { q: Int }
type Subscription { ev(n: Int): Event other: Event count: Int }
"""
DOCS = [
    "subscription { ev { id msg } }",
    "subscription { ev { id nn } }",
    "subscription { x: ev(n: 1) { id sub { msg } } }",
    "subscription { ...F } fragment F on Subscription { ev { msg echo(a: 2) } }",
    "subscription S($n: Int = 3) { ev(n: $n) { id echo } }",
    "subscription { ev { msg } ev { id } }",
    "subscription { ... on Subscription { ev { sub { nn } id } } }",
    "subscription { ev @include(if: true) { msg } }",
    "subscription { ev { __typename msg } }",
    "subscription { ev { fromroot id } }",
    "subscription { ev { msg nn id } }",
]


def payloads():
    def boom(path, args):
        raise gdata.Boom("event resolver failed")

    return [
        ("ok", lambda i: {"ev": {"id": f"e{i}", "msg": f"m{i}", "fromroot": f"m{i}", "nn": i, "sub": {"msg": "s", "nn": 1, "id": "s"}, "echo": gdata.echo}}),
        ("nn_null", lambda i: {"ev": {"id": f"e{i}", "msg": f"m{i}", "fromroot": f"m{i}", "nn": None, "sub": {"msg": "s", "nn": None}, "echo": gdata.echo}}),
        ("ev_null", lambda i: {"ev": None}),
        ("raising", lambda i: {"ev": {"id": boom, "msg": boom, "fromroot": boom, "nn": 1, "sub": None, "echo": gdata.echo}}),
        ("none", lambda i: None),
        # a non-null field that fails at once next to a sibling that fails later (asynchronously, when the resolver is asynchronous)
        ("nn_null_msg_raising", lambda i: {"ev": {"id": f"e{i}", "msg": boom, "fromroot": f"m{i}", "nn": None, "sub": None, "echo": gdata.echo}}),
    ]


SOURCE_KINDS = ["agen", "iter_aclose", "iter_plain", "awaitable_agen", "iter_aclose_raises", "iterable_fresh", "iter_aclose_truthy"]
CREATION_FAILURES = ["raises", "async_raises", "non_iterable", "returns_exception", "unknown_field", "bad_variable", "awaitable_non_iterable"]


def shards(tier):
    out = []
    for di in range(len(DOCS)):
        for sk in range(len(SOURCE_KINDS)):
            out.append(("map", (di, sk)))
    for cf in range(len(CREATION_FAILURES)):
        out.append(("create", cf))
    return out


class SourceFailure(Exception):
    pass


def scenario_map(c, schema, doc, text, source_kind, tier):
    from graphql import ExecutionResult, subscribe

    maxlen = 2 if tier == "quick" else 4
    bound_early = True
    pl = payloads()
    n = c.choose(maxlen + 1, "n_events", cost=0)
    kinds = [c.choose(len(pl), f"payload{i}", cost=0) for i in range(n)]
    fail_at = c.choose(n + 2, "fail_at", cost=0) - 1  # -1: no failure; k: raise instead of event k (k==n: after the last event)
    async_res = c.flag("async_resolver", cost=0)
    # an abort signal that never fires (the library then wraps the source iterator), a root value given to subscribe()
    passive_signal = c.flag("passive_signal", cost=0)
    with_root = c.flag("root_value", cost=0)
    events = [pl[k][1](i) for i, k in enumerate(kinds)]
    exc = SourceFailure("source failed")
    trace = []
    with World() as w:
        closed = []

        async def agen():
            try:
                for i in range(n + 1):
                    await w.gate(f"src{i}", None, kind="src")
                    if i == fail_at:
                        raise exc
                    if i == n:
                        return
                    yield events[i]
            finally:
                closed.append("agen")

        class It:
            def __init__(self):
                self.i = 0

            def __aiter__(self):
                return self

            async def __anext__(self):
                i = self.i
                self.i += 1
                await w.gate(f"src{i}", None, kind="src")
                if i == fail_at:
                    raise exc
                if i >= n:
                    raise StopAsyncIteration
                return events[i]

        class ItClose(It):
            async def aclose(self):
                closed.append("aclose")

        class ItCloseRaises(It):
            async def aclose(self):
                closed.append("aclose")
                raise ConnectionError("closing the source failed too")

        class ItCloseTruthy(It):
            async def aclose(self):
                closed.append("aclose")
                return True  # e.g. "was open": must not be taken for "the pending exception is handled"

        class IterableFresh:
            """Not its own iterator: every __aiter__() call starts a new iteration from the first event."""

            def __aiter__(self):
                return ItClose()

        def make_source():
            if source_kind in ("agen", "awaitable_agen"):
                return agen()
            if source_kind == "iterable_fresh":
                return IterableFresh()
            if source_kind == "iter_aclose":
                return ItClose()
            if source_kind == "iter_aclose_raises":
                return ItCloseRaises()
            if source_kind == "iter_aclose_truthy":
                return ItCloseTruthy()
            return It()

        def subscribe_ev(_root, _info, **_args):
            if source_kind == "awaitable_agen":
                return w.gate("create", make_source(), kind="src")
            return make_source()

        schema.subscription_type.fields["ev"].subscribe = subscribe_ev

        def resolver(src, info, **args):
            v = src.get(info.field_name) if isinstance(src, dict) else None
            if info.field_name == "fromroot":
                # a resolver that looks at the event through info.root_value must see THIS event
                rv = info.root_value
                v = rv["ev"].get("fromroot") if isinstance(rv, dict) and isinstance(rv.get("ev"), dict) else None
            if async_res and info.field_name == "msg" and callable(v):
                # fails, but only when the outside world gets round to it
                return w.gate(f"msg!@{'.'.join(map(str, info.path.as_list()))}", error=gdata.Boom("event resolver failed"), kind="res")
            if callable(v):
                v = v(info.path.as_list(), args)
            if async_res and info.field_name == "msg":
                return w.gate(f"msg@{'.'.join(map(str, info.path.as_list()))}", v, kind="res")
            return v

        out = []
        results = []

        async def main():
            kw = {}
            if passive_signal:
                from graphql.pyutils import AbortController

                kw["abort_signal"] = AbortController().signal
            if with_root:
                # the root value of the subscription is for the source resolver; every event is executed with the event as root
                kw["root_value"] = {"ev": {"id": "ROOT", "msg": "ROOT", "fromroot": "ROOT", "nn": 0, "sub": {"msg": "ROOT", "nn": 0, "id": "ROOT"}, "echo": "ROOT"}}
            r = subscribe(schema, doc, field_resolver=resolver, **kw)
            if hasattr(r, "__await__"):
                r = await r
            if isinstance(r, ExecutionResult):
                out.append(("single", json.dumps(r.formatted, default=repr)))
                return
            it = r
            while True:
                await w.gate("pull", None, kind="pull")
                try:
                    p = await it.__anext__()
                except StopAsyncIteration:
                    out.append(("end",))
                    break
                except Exception as e:  # noqa: BLE001
                    out.append(("exc", e))
                    continue
                results.append(p)
                out.append(("response", json.dumps(p.formatted, default=repr)))
                if len(out) > n + 4:
                    out.append(("runaway",))
                    break

        t = w.task(main())
        status = "done"
        try:
            while not t.done():
                while w.loop.ready() and not t.done():
                    og = w.open_gates()
                    if og:
                        k = c.choose(1 + len(og), "early", cost=1)
                        if k:
                            trace.append("early:" + og[k - 1].label)
                            og[k - 1].release()
                    w.loop.step()
                if t.done():
                    break
                og = w.open_gates()
                if not og:
                    raise Hang("no ready handle and no open gate")
                k = c.choose(len(og), "release", cost=0)
                trace.append(og[k].label)
                og[k].release()
            w.drain()
            if t.exception() is not None:
                status = "raised:" + repr(t.exception())
            # the outside world completes what it had started (a resolver awaitable that an event's execution abandoned after a
            # sibling failed belongs to the outside world until it is completed)
            for _ in range(20):
                og = [g for g in w.open_gates() if g.kind == "res"]
                if not og:
                    break
                trace.append("late:" + og[0].label)
                og[0].release()
                w.drain()
        except (Hang, Livelock) as e:
            status = "hang:" + str(e)
        late = [json.dumps(p.formatted, default=repr) for p in results]
        left = task_names(w.pending_tasks(exclude=(t,)))
    return {"n": n, "kinds": [pl[k][0] for k in kinds], "fail_at": fail_at, "async_res": async_res, "passive_signal": passive_signal, "with_root": with_root, "events": events, "exc": exc,
            "out": out, "late": late, "status": status, "trace": trace, "left": left, "closed": closed}


def expected_for(schema, doc, event, variables=None):
    want = refx.execute(schema, doc, event, variables)
    return want


def check_map(obs, schema, doc, text, source_kind, res, c):
    label = f"{text!r} source={source_kind} events={obs['kinds']} fail_at={obs['fail_at']} async_resolver={obs['async_res']} abort_signal={obs['passive_signal']} root_value={obs['with_root']} schedule={obs['trace']}"
    payload = {"mode": "map", "doc": text, "source_kind": source_kind, "choices": list(c.choices)}
    res.evaluations += 1
    if obs["status"] != "done":
        res.violation("consumer_" + obs["status"].split(":")[0], f"{label}: {obs['status']}", payload)
        return
    n, fail_at = obs["n"], obs["fail_at"]
    n_ok = n if fail_at < 0 else min(fail_at, n)
    out = obs["out"]
    # expected sequence: n_ok responses, then the source exception (if any), then end
    responses = [o for o in out if o[0] == "response"]
    if [o[0] for o in out[: n_ok]] != ["response"] * n_ok:
        res.violation("response_count", f"{label}: observed {[o[0] for o in out]}, expected {n_ok} responses first", payload)
        return
    rest = out[n_ok:]
    if fail_at >= 0:
        if not rest or rest[0][0] != "exc":
            res.violation("source_failure_not_surfaced", f"{label}: after {n_ok} responses observed {[o[0] for o in rest]}", payload)
            return
        if rest[0][1] is not obs["exc"]:
            res.violation("source_failure_wrong_exception", f"{label}: got {rest[0][1]!r}", payload)
            return
        rest = rest[1:]
    if [o[0] for o in rest] != ["end"]:
        res.violation("stream_end", f"{label}: after the expected items observed {[o[0] for o in rest]} (expected exactly the end of the stream)", payload)
        return
    for i in range(n_ok):
        want = expected_for(schema, doc, obs["events"][i])
        got = json.loads(responses[i][1])
        if want.request_error or want.unspecified:
            continue
        if json.dumps(got.get("data"), default=repr) != json.dumps(want.data, default=repr):
            res.violation("event_response_data", f"{label}: event {i} gave {responses[i][1]} but executing it as root value gives data {json.dumps(want.data, default=repr)}", payload)
            return
        gp = [tuple(e.get("path") or ()) for e in got.get("errors", [])]
        if len(set(gp)) != len(gp) or not set(gp) <= set(want.errors) or refx.outermost(want.data, gp) != refx.outermost(want.data, want.errors):
            res.violation("event_response_errors", f"{label}: event {i} errors {gp}, reference field errors {want.errors}", payload)
            return
        if obs["late"][i] != responses[i][1]:
            res.violation("earlier_response_changed", f"{label}: response {i} was {responses[i][1]} when delivered but reads {obs['late'][i]} after later events", payload)
            return
    if obs["left"]:
        res.violation("task_left_pending", f"{label}: {obs['left']}", payload)
        return
    res.outcome((text, source_kind, tuple(obs["kinds"]), fail_at, obs["async_res"], tuple(obs["trace"])))
    if len(res.samples) < 1 and n_ok >= 1:
        res.sample({"document": text, "source": source_kind, "events": obs["kinds"], "fail_at": fail_at, "schedule": obs["trace"],
                    "observed": [o[0] for o in out]})


def scenario_create(c, schema, mode, tier):
    from graphql import ExecutionResult, parse, subscribe

    text = "subscription ($v: Int) { ev(n: $v) { id } }"
    variables = {}
    with World() as w:
        def sub(_r, _i, **_a):
            if mode == "raises":
                raise ValueError("cannot create source")
            if mode == "async_raises":
                return w.gate("create", error=ValueError("cannot create source (async)"), kind="src")
            if mode == "non_iterable":
                return [1, 2]
            if mode == "returns_exception":
                return ValueError("returned")
            if mode == "awaitable_non_iterable":
                return w.gate("create", 42, kind="src")
            async def g():
                yield {"ev": {"id": "1"}}
            return g()

        schema.subscription_type.fields["ev"].subscribe = sub
        if mode == "unknown_field":
            text = "subscription { nope }"
        if mode == "bad_variable":
            variables = {"v": "not an int"}
        doc = parse(text)
        box = {}

        async def main():
            r = subscribe(schema, doc, variable_values=variables)
            if hasattr(r, "__await__"):
                r = await r
            box["r"] = r

        t = w.task(main())
        status = "done"
        trace = []
        try:
            while not t.done():
                w.drain()
                if t.done():
                    break
                og = w.open_gates()
                if not og:
                    raise Hang("no gate")
                k = c.choose(len(og), "release", cost=0)
                trace.append(og[k].label)
                og[k].release()
            if t.exception() is not None:
                status = "raised:" + repr(t.exception())
        except (Hang, Livelock) as e:
            status = "hang:" + str(e)
        r = box.get("r")
        left = task_names(w.pending_tasks(exclude=(t,)))
    return {"status": status, "r": r, "is_result": isinstance(r, ExecutionResult), "left": left, "mode": mode}


def check_create(obs, res, c):
    from vf.ref import respformat

    mode = obs["mode"]
    label = f"creation failure {mode}"
    payload = {"mode": "create", "failure": mode, "choices": list(c.choices)}
    res.evaluations += 1
    if obs["status"] != "done":
        res.violation("creation_" + obs["status"].split(":")[0], f"{label}: {obs['status']}", payload)
        return
    if not obs["is_result"]:
        res.violation("creation_failure_not_a_result", f"{label}: subscribe returned {type(obs['r']).__name__}", payload)
        return
    r = obs["r"]
    if r.data is not None or not r.errors or len(r.errors) != 1:
        res.violation("creation_failure_shape", f"{label}: {r.formatted!r}", payload)
        return
    probs = respformat.check_result(r)
    if probs:
        res.violation("creation_failure_malformed", f"{label}: {probs}", payload)
        return
    res.outcome(("create", mode, r.errors[0].message[:40]))
    res.sample({"creation_failure": mode, "response": r.formatted}, 1)


def run_shard(shard, tier):
    from graphql import build_schema, parse

    res = Result()
    kind, arg = shard
    schema = build_schema(SCHEMA)
    bound = 1 if tier == "quick" else 2
    if kind == "map":
        di, sk = arg
        text = DOCS[di]
        doc = parse(text)
        source_kind = SOURCE_KINDS[sk]

        def visit(c, obs):
            check_map(obs, schema, doc, text, source_kind, res, c)

        st = explore(lambda c: scenario_map(c, schema, doc, text, source_kind, tier), bound, visit, max_executions=400000)
        res.add_stats(st)
    else:
        mode = CREATION_FAILURES[arg]

        def visit(c, obs):
            check_create(obs, res, c)

        st = explore(lambda c: scenario_create(c, schema, mode, tier), 0, visit)
        res.add_stats(st)
    return res


def replay(payload):
    from graphql import build_schema, parse

    res = Result()
    schema = build_schema(SCHEMA)
    if payload["mode"] == "map":
        text = payload["doc"]
        doc = parse(text)
        c, obs = run_once(lambda c: scenario_map(c, schema, doc, text, payload["source_kind"], "thorough"), payload["choices"])
        check_map(obs, schema, doc, text, payload["source_kind"], res, c)
    else:
        c, obs = run_once(lambda c: scenario_create(c, schema, payload["failure"], "thorough"), payload["choices"])
        check_create(obs, res, c)
    return [{"signature": v["signature"], "summary": v["summary"]} for v in res.violations]
