"""C13  A document that passes validation cannot go wrong at execution time."""

from __future__ import annotations

import json

from vf.checks import c02
from vf.engine.choice import explore
from vf.engine.runner import Result
from vf.gen import data as gdata
from vf.gen import docs as gdocs
from vf.gen import execschemas
from vf.ref import execute as refx

ID = "C13"
BOUNDS = {
    "quick": "3 schemas x every root field x every variable declaration/value combination x every operation within 1 further deviation of the minimal one INCLUDING the ill-typed alternatives (wrong literals, unknown fields/arguments, missing required arguments, variables declared with the nullable / non-null twin of the position's type, variables inside list and input-object literals, impossible type conditions, leaf/composite selection slips), filtered by the implementation's own validate() == []; x provided/absent/null/defaulted variables accepted by get_variable_values; x conforming data (all present, all-nullable-null) and every single fault on a selected field",
    "thorough": "2 further deviations",
    "multiop": "two-operation documents: 11 declarations x 14 usages (direct, in list / object literals, in shared fragments) of the same variable name, every ordered pair",
}
RULE = (
    "exhaustive within bounds: the enumerated space contains a near miss for each validation rule, so a rule made too permissive lets an "
    "enumerated document through. For every document validate() accepts and variables get_variable_values accepts: on conforming data the "
    "response has no errors and equals the reference execution (shape: keys, order, nesting, list-ness, nullability, leaf kinds) - except "
    "field errors the reference attributes to a null variable reaching a non-null position; on single-fault data every reported error is one the "
    "reference derives from that fault, never a 'should have been caught by validation' error. distinct = distinct (document, variables, outcome)"
)
ASSUMPTIONS = [
    "the reference executor (vf/ref/execute.py) defines the prescribed shape; it raises on documents that are not well typed, which is itself reported",
]


def shards(tier):
    k = 1 if tier == "quick" else 2
    out = []
    for s in execschemas.NAMES:
        ops = ["query"] + (["mutation"] if s == "S3" else [])
        for op in ops:
            for a in range(2):
                for b in range(3):
                    out.append((s, op, k, a, b))
    for i in range(len(MO_TYPES)):
        out.append(("multiop", i))
    return out


# ---- documents with two operations that declare the same variable name differently (and share fragments)
MO_TYPES = ["Int", "Int!", "[Int]", "[Int!]!", "String", "Boolean", "Boolean!", "In", "E", "Int = 1", "[Int!]"]
MO_USES = ["echo(i: $v)", "req(r: $v, rl: [1])", "req(r: 1, rl: $v)", "echo(l: $v)", "echo(b: $v)", "plain @skip(if: $v)", "echo(inp: $v)",
           "echo(e: $v)", "echo(l: [$v])", "echo(inp: {p: $v})", "...F", "...G", "sub { ...F }", "echo(x: $v)"]
MO_FRAGS = "fragment F on Query { echo(i: $v) } fragment G on Query { req(r: $v, rl: [$v]) }"


def mo_doc(ops):
    text = " ".join(f"query {n}($v: {t}) {{ {u} }}" for n, t, u in ops)
    used = " ".join(u for _n, _t, u in ops)
    frags = []
    if "...F" in used:
        frags.append(MO_FRAGS.split(" fragment G")[0])
    if "...G" in used:
        frags.append("fragment G" + MO_FRAGS.split("fragment G")[1])
    return text + (" " + " ".join(frags) if frags else "")


def run_multiop(i, tier, res):
    """validate() accepts the two-operation document => it accepts each operation on its own (with the fragments it uses), and executing
    either operation of the combined document behaves like executing it alone."""
    from graphql import execute_sync, parse, validate

    schema = c02.schema_for("S2")
    t1 = MO_TYPES[i]
    roots, _ = gdata.build(schema)
    for u1 in MO_USES:
        for t2 in MO_TYPES:
            for u2 in MO_USES:
                for order in (0, 1):
                    ops = [("A", t1, u1), ("B", t2, u2)]
                    if order:
                        ops.reverse()
                    text = mo_doc(ops)
                    doc = parse(text)
                    res.executions += 1
                    res.evaluations += 1
                    res.transitions += 1
                    try:
                        errs = validate(schema, doc)
                    except Exception as e:  # noqa: BLE001
                        res.violation("validate_raises", f"{text!r}: {type(e).__name__}: {e}", {"multiop": text})
                        return
                    if errs:
                        res.count("rejected_by_validation")
                        continue
                    res.count("accepted_by_validation")
                    for op in ops:
                        alone = mo_doc([op])
                        e1 = validate(schema, parse(alone))
                        res.evaluations += 1
                        if e1:
                            res.violation("accepted_only_in_company", f"S2: {text!r} is accepted, but its operation {op[0]} alone is rejected: "
                                          f"{alone!r}: {[e.message for e in e1]}", {"multiop": text})
                            return
                        for values in ({}, {"v": None}):
                            a = execute_sync(schema, doc, roots["query"], variable_values=values, operation_name=op[0], field_resolver=gdata.harness_resolver())
                            b = execute_sync(schema, parse(alone), roots["query"], variable_values=values, field_resolver=gdata.harness_resolver())
                            res.evaluations += 1
                            def essence(r):
                                # positions in the text differ between the two documents
                                return r.data, [(e.message, e.path) for e in r.errors or []]

                            if essence(a) != essence(b):
                                res.violation("operation_behaves_differently_in_company", f"S2: {text!r} operation {op[0]} vars={values}: {a.formatted} alone: {b.formatted}", {"multiop": text})
                                return
                    res.outcome((text,))
        res.states += 1
    if i == 1:
        res.sample({"document": mo_doc([("A", "Int!", MO_USES[1]), ("B", "Int", MO_USES[0])]), "checked": "accepted => each operation alone accepted and executing it gives the same response"})


def run_shard(shard, tier):
    from graphql import GraphQLSyntaxError, parse, validate
    from graphql.execution.values import get_variable_values

    res = Result()
    if shard[0] == "multiop":
        run_multiop(shard[1], tier, res)
        return res
    sname, op, k, a, b = shard
    schema = c02.schema_for(sname)
    faults_all = gdata.fault_menu(schema)
    cur = {}

    def viol(sig, label, summary, fault=None, vnull=False):
        res.violation(sig, f"{sname}: {label}: {summary}", {"schema": sname, "op": op, "doc": cur["doc"], "vars": cur["vars"],
                                                               "fault": list(fault) if fault else None, "variant_null": vnull})

    def scenario(c):
        g = gdocs.DocGen(c, schema, op=op, maxdepth=2, illtyped=True, free=("rootfield", "var"))
        return g.operation()

    def visit(c, out):
        text, values = out
        cur["doc"], cur["vars"] = text, values
        try:
            doc = parse(text)
        except GraphQLSyntaxError as e:
            raise AssertionError(f"generator produced unparseable text {text!r}: {e}") from e
        res.executions += 1
        try:
            errs = validate(schema, doc)
        except Exception as e:  # noqa: BLE001
            viol("validate_raises", text, f"{type(e).__name__}: {e}")
            return
        if errs:
            res.count("rejected_by_validation")
            return
        res.count("accepted_by_validation")
        opnode = [d for d in doc.definitions if type(d).__name__ == "OperationDefinitionNode"][0]
        coerced = get_variable_values(schema, opnode.variable_definitions or (), values)
        if isinstance(coerced, list):
            res.count("variables_rejected")
            return
        check_case(schema, doc, op, text, values, None, False, res, viol)
        check_case(schema, doc, op, text, values, None, True, res, viol)
        names = c02.fields_in(text)
        for f in faults_all:
            if f[1] in names and f[2] in ("null", "raise", "badtype", "wrongleaf", "unserializable"):
                check_case(schema, doc, op, text, values, f, False, res, viol)
        if len(res.samples) < 1 and c.deviations == k and "$" in text:
            res.sample({"schema": sname, "accepted_document": text, "variables": {k2: repr(v) for k2, v in values.items()}})

    res.add_stats(explore(scenario, k, visit, root=(a, b)))
    return res


BAD_MESSAGES = ("was not provided", "has invalid value", "has invalid default value", "Unknown argument", "Cannot query field")


def check_case(schema, doc, op, text, values, fault, vnull, res, viol):
    roots, _ = gdata.build(schema, variant_null=vnull, fault=fault)
    log = []
    res.evaluations += 1
    res.executions += 1
    try:
        got = c02.run_impl(schema, doc, roots[op], values, log)
    except Exception as e:  # noqa: BLE001
        viol("execute_raises", text, f"vars={values!r} fault={fault}: {type(e).__name__}: {e}", fault, vnull)
        return
    roots2, _ = gdata.build(schema, variant_null=vnull, fault=fault)
    try:
        want = refx.execute(schema, doc, roots2[op], values)
    except Exception as e:  # noqa: BLE001
        viol("validated_document_is_not_well_typed", text, f"the reference executor cannot run a document validate() accepted: {type(e).__name__}: {e}", fault, vnull)
        return
    if want.unspecified:
        res.count("unspecified_by_spec")
        return
    if want.request_error:
        viol("validated_request_has_request_error", text, f"vars={values!r}: reference reports {want.request_error}", fault, vnull)
        return
    gd = json.dumps(got.data, default=repr)
    wd = json.dumps(want.data, default=repr)
    gp = [tuple(e.path or ()) for e in got.errors or []]
    allowed = set(want.null_variable_paths)
    for e in got.errors or []:
        p = tuple(e.path or ())
        if any(m in e.message for m in BAD_MESSAGES) and p not in allowed:
            viol("error_validation_should_have_caught", text, f"vars={values!r} fault={fault}: {e.message!r} at {list(p)}", fault, vnull)
            return
    if fault is None:
        unexpected = [p for p in gp if p not in allowed]
        if unexpected:
            viol("errors_on_conforming_data", text, f"vars={values!r} null_variant={vnull}: {[e.message for e in got.errors]} at {unexpected}", fault, vnull)
            return
    if gd != wd:
        viol("shape_differs", text, f"vars={values!r} fault={fault}: implementation {gd} prescribed {wd}", fault, vnull)
        return
    if not set(gp) <= set(want.errors):
        viol("error_not_attributable_to_data", text, f"fault={fault}: error paths {gp}, errors the data explains {want.errors}", fault, vnull)
        return
    res.outcome((text, json.dumps(values, default=repr), fault, vnull, gd))


def replay(payload):
    from graphql import parse

    res = Result()
    out = []

    def viol(sig, label, summary, fault=None, vnull=False):
        out.append({"signature": sig, "summary": f"{label}: {summary}"})

    if payload.get("multiop"):
        for i in range(len(MO_TYPES)):
            run_multiop(i, "quick", res)
        return [{"signature": v["signature"], "summary": v["summary"]} for v in res.violations if payload["multiop"] in v["summary"]]
    schema = c02.schema_for(payload["schema"])
    doc = parse(payload["doc"])
    fault = tuple(payload["fault"]) if payload.get("fault") else None
    check_case(schema, doc, payload["op"], payload["doc"], payload["vars"], fault, payload.get("variant_null", False), res, viol)
    return out
