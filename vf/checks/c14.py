"""C14  Field-merge validation accepts exactly what the specification accepts."""

from __future__ import annotations

import itertools

from vf.engine.runner import Result
from vf.ref import overlap

ID = "C14"
BOUNDS = {
    "quick": "argument-equality family (ordered pairs of 40 argument forms x 3 positions); every fifth document also parsed without locations; 14 fragment environments (chains, diamonds, self/mutual recursion, 3-cycles, same fragment under exclusive and non-exclusive parents) x every pair of 30 Dog-level items (incl. __typename) x 11 Cat-level items x 6 interface-level items (every pair collides on a response name in a different way), both definition orders for a quarter of them",
    "thorough": "15 Cat-level and 10 interface-level items, plus triples of Dog-level items, both definition orders everywhere",
}
RULE = (
    "exhaustive product: documents 'pet { ... on Dog { d1 d2 } ... on Cat { c } p }' over menus whose entries collide on response names in "
    "every way the rule distinguishes (different field, same field with different arguments incl. variables and input objects in permuted key "
    "order, leaf vs composite, list vs non-list, non-null vs nullable, nested sub-selections through fragments) x fragment environments; "
    "validate(schema, doc, [OverlappingFieldsCanBeMergedRule]) reports a conflict iff the reference FieldsInSetCanMerge/SameResponseShape "
    "(vf/ref/overlap.py) finds one; the rule must terminate on cyclic spreads. distinct = distinct documents judged, split by verdict"
)
ASSUMPTIONS = [
    "argument identity across literal forms of one value (block string vs quoted string) is outside the alphabet: the specification says 'identical arguments' without defining it across forms; the rule (like graphql-js) compares printed forms and reports a conflict, the reference compares values",
    "all documents satisfy FieldsOnCorrectType so that the specification's algorithm is defined",
    "reference least-fixed-point implementation of the spec text (vf/ref/overlap.py)",
]

SCHEMA = """
interface Pet { name: String nick: String n: Int same: Pet l: [Int] owner: Pet }
type Dog implements Pet { name: String nick: String n: Int same: Pet l: [Int] owner: Pet x: Int y: String z: Int! a(i: Int, o: In): Int m(ps: [In], pp: [[In]]): Int sub: Dog ll: [[Int]] }
type Cat implements Pet { name: String nick: String n: Int same: Pet l: [Int] owner: Pet x: String y: String z: Int a(i: Int, o: In): Int m(ps: [In], pp: [[In]]): Int sub: Cat ll: [Int] }
input In { p: Int q: Int }
union CD = Cat | Dog
type Query { pet: Pet dog: Dog cd: CD }
"""

DOG_ITEMS = [
    "x", "y", "r: x", "r: y", "r: z", "r: n", "r: a(i: 1)", "r: a(i: 2)", "r: a(o: {p: 1, q: 2})", "r: a(o: {q: 2, p: 1})", "r: a(i: $v)",
    "r: sub { x }", "r: sub { x: y }", "r: l", "r: ll", "...F", "...G", "... on Dog { r: n }",
    "r: m(ps: [{p: 1, q: 2}])", "r: m(ps: [{q: 2, p: 1}])", "r: m(pp: [[{q: 2, p: 1}], []])",
    "same { r: name }", "same { ...Q }", "owner { ...A }", "owner { r: name ...A }", "r: sub { ...F }", "same { r: nick t: n }",
    "r: __typename", "x: __typename", "same { r: __typename }",
]
CAT_ITEMS = [
    "x", "y", "r: x", "r: y", "r: z", "r: n", "r: a(i: 1)", "r: sub { x }", "r: sub { x: n }", "r: l", "r: ll", "...H", "... on Cat { r: n }",
    "same { ...Q }", "owner { ...B }", "r: __typename", "y: __typename",
]
PET_ITEMS = [None, "name", "r: n", "...P", "r: name", "same { ...Q }", "owner { ...A ...B }", "same { r: name }", "owner { ...B ...A }", "same { t: name ...Q }"]
CAT_QUICK = ["x", "r: x", "r: y", "r: n", "r: a(i: 1)", "r: sub { x }", "r: l", "...H", "same { ...Q }", "owner { ...B }", "r: __typename"]
PET_QUICK = [None, "r: n", "...P", "same { ...Q }", "owner { ...A ...B }", "same { t: name ...Q }"]
FTYPE = {"F": "Dog", "G": "Dog", "K": "Dog", "H": "Cat", "P": "Pet", "Q": "Pet", "A": "Pet", "B": "Pet", "C": "Pet"}
# fragment environments: name -> body
ENVS = [
    {"F": "r: x", "G": "r: y", "H": "r: x", "P": "r: name", "Q": "r: nick", "A": "r: name", "B": "r: name", "C": "r: n"},
    {"F": "r: y", "G": "r: x", "H": "r: n", "P": "r: n", "Q": "r: name", "A": "r: nick", "B": "r: name", "C": "r: name"},
    # chains and diamonds
    {"F": "...G", "G": "r: y", "H": "...P", "P": "r: name", "Q": "...P", "A": "...C", "B": "...C", "C": "r: nick"},
    {"F": "...G ...K", "G": "r: x", "K": "r: y", "H": "r: x", "P": "... on Dog { r: x }", "Q": "r: nick", "A": "r: name ...C", "B": "...C r: nick", "C": "t: n"},
    # self and mutual recursion
    {"F": "r: x ...F", "G": "...F", "H": "r: x", "P": "...P r: name", "Q": "...Q", "A": "...A", "B": "...A r: name", "C": "r: n"},
    {"F": "...G", "G": "...F r: y", "H": "...P", "P": "...H2", "H2": "r: n ...P", "Q": "r: nick", "A": "...B", "B": "...A", "C": "r: n"},
    # three-cycles, with and without payload
    {"F": "...G", "G": "...K", "K": "...F", "H": "r: x", "P": "r: name", "Q": "r: nick", "A": "...B", "B": "...C", "C": "...A"},
    {"F": "...G r: x", "G": "...K", "K": "...F r: y", "H": "r: x", "P": "r: name", "Q": "r: nick", "A": "...B r: name", "B": "...C", "C": "...A r: nick"},
    {"F": "r: sub { ...F }", "G": "r: sub { x: y }", "H": "r: sub { x }", "P": "same { ...P }", "Q": "same { r: nick }", "A": "owner { ...B }", "B": "owner { ...A }", "C": "r: n"},
    # nested conflicts only visible through fragments
    {"F": "r: sub { x }", "G": "r: sub { x: y }", "H": "r: sub { x: n }", "P": "same { r: name }", "Q": "r: nick same { r: n }", "A": "same { r: name }", "B": "same { r: nick }", "C": "r: n"},
    {"F": "r: a(i: 1)", "G": "r: a(i: $v)", "H": "r: a(i: 1)", "P": "r: l", "Q": "r: name", "A": "r: l", "B": "r: n", "C": "r: n"},
    {"F": "... on Dog { r: x }", "G": "... on Pet { r: n }", "H": "... on Pet { r: name }", "P": "... on Cat { r: x }", "Q": "... on Dog { r: y }", "A": "... on Dog { r: y }", "B": "... on Cat { r: y }", "C": "r: n"},
    {"F": "same { ...Q }", "G": "same { r: name }", "H": "same { ...Q }", "P": "same { ...Q }", "Q": "r: nick", "A": "...Q", "B": "r: name", "C": "r: n"},
    {"F": "owner { ...A }", "G": "owner { ...B }", "H": "owner { ...B }", "P": "owner { ...A ...B }", "Q": "r: nick", "A": "...B t: name", "B": "...C", "C": "...A t: nick"},
]
FTYPE["H2"] = "Cat"


# argument-equality family: every ordered pair of argument lists for the same field under one response name, in three positions
ARG_FORMS = [
    "", "(i: 1)", "(i: 2)", "(i: 1, o: null)", "(o: null, i: 1)", "(i: null)", "(o: {p: 1, q: 2})", "(o: {q: 2, p: 1})", "(o: {p: 2, q: 1})",
    # keys that differ only in case, keys with numbers (natural vs lexicographic order), many keys
    "(o: {p: 1, P: 2})", "(o: {P: 2, p: 1})", "(o: {p: 2, P: 1})", "(o: {a1: 1, a10: 2, a2: 3})", "(o: {a2: 3, a10: 2, a1: 1})", "(o: {a10: 2, a1: 1, a2: 3})",
    "(o: {a1: 1, A1: 2, a01: 3})", "(o: {a01: 3, A1: 2, a1: 1})", "(o: {a1: 2, A1: 1, a01: 3})",
    "(o: {p: {q: 1, r: 2}})", "(o: {p: {r: 2, q: 1}})", "(o: {p: [1, 2]})", "(o: {p: [2, 1]})", "(o: {p: [{x: 1, X: 2}]})", "(o: {p: [{X: 2, x: 1}]})",
    "(i: $v)", "(i: $w)", "(o: {p: $v})", "(o: {p: $w})", '(o: {p: "1"})', "(o: {p: 1.0})", "(o: {p: 1})", "(o: {p: true})", "(o: {p: E})", '(o: {p: "E"})',
    "(o: {p: null})", "(o: {})", "(o: [])", "(o: [{p: 1, q: 2}])", "(o: [{q: 2, p: 1}])", "(o: [[{q: 2, p: 1}]])",
]
ARG_SHAPES = [
    "query ($v: Int, $w: Int) { dog { r: a%s r: a%s } }",
    "query ($v: Int, $w: Int) { dog { r: a%s ...F } } fragment F on Dog { r: a%s }",
    "query ($v: Int, $w: Int) { pet { ... on Dog { same { ... on Dog { r: a%s } } } ... on Cat { same { ... on Dog { r: a%s } } } } }",
]


def shards(tier):
    out = []
    for i in range(len(ARG_FORMS)):
        out.append(("args", (i, 0)))
    for e in range(len(ENVS)):
        for d1 in range(len(DOG_ITEMS)):
            out.append(("env", (e, d1)))
    return out


_schema = None


def schema():
    global _schema
    if _schema is None:
        from graphql import build_schema

        _schema = build_schema(SCHEMA)
    return _schema


def judge(src, res, viol, no_location=False):
    from graphql import parse, validate
    from graphql.validation import OverlappingFieldsCanBeMergedRule

    doc = parse(src, no_location=no_location)
    res.evaluations += 1
    res.executions += 1
    try:
        impl = bool(validate(schema(), doc, [OverlappingFieldsCanBeMergedRule]))
    except RecursionError:
        viol("rule_does_not_terminate", src, "RecursionError in OverlappingFieldsCanBeMergedRule")
        return
    except Exception as e:  # noqa: BLE001
        viol("rule_raises", src, f"{type(e).__name__}: {e}")
        return
    want = overlap.conflicts(schema(), doc)
    if impl != want:
        viol(("implementation_accepts_conflict" if want else "implementation_rejects_mergeable") + (":no_location" if no_location else ""), src,
             f"rule reports {'a conflict' if impl else 'no conflict'}, the specification's algorithm finds {'a conflict' if want else 'none'}")
        return
    res.count("conflicting" if want else "conflict_free")
    res.outcome((src, want))


def make_doc(env, d_items, c, p, reverse=False):
    frs = [f"fragment {k} on {FTYPE[k]} {{ {b} }}" for k, b in env.items()]
    sel = "... on Dog { " + " ".join(d_items) + " } ... on Cat { " + c + " }" + (" " + p if p else "")
    q = "query ($v: Int) { pet { " + sel + " } }"
    parts = frs[::-1] + [q] if reverse else [q] + frs
    return " ".join(parts)


def run_shard(shard, tier):
    res = Result()
    _k, (e, d1) = shard

    def viol(sig, src, summary):
        res.violation(sig, f"{src}: {summary}", {"source": src})

    if _k == "args":
        for b in ARG_FORMS:
            for shape in ARG_SHAPES:
                res.states += 1
                res.transitions += 1
                judge(shape % (ARG_FORMS[e], b), res, viol)
        if e == 0:
            res.sample({"document": ARG_SHAPES[1] % (ARG_FORMS[9], ARG_FORMS[10])})
        return res
    env = ENVS[e]

    n = 0
    for d2 in range(d1 + 1, len(DOG_ITEMS)):
        dsets = [(DOG_ITEMS[d1], DOG_ITEMS[d2])]
        if tier == "thorough":
            dsets += [(DOG_ITEMS[d1], DOG_ITEMS[d2], DOG_ITEMS[d3]) for d3 in range(d2 + 1, len(DOG_ITEMS), 3)]
        cats = CAT_ITEMS if tier == "thorough" else CAT_QUICK
        pets = PET_ITEMS if tier == "thorough" else PET_QUICK
        for ds in dsets:
            for c in cats:
                for p in pets:
                    n += 1
                    res.states += 1
                    res.transitions += 1
                    judge(make_doc(env, ds, c, p), res, viol)
                    if n % 5 == 0:
                        # the same document parsed without locations: structurally equal nodes then compare (and hash) equal
                        judge(make_doc(env, ds, c, p), res, viol, no_location=True)
                    if tier == "thorough" or n % 4 == 0:
                        judge(make_doc(env, ds, c, p, reverse=True), res, viol)
    if d1 == 0:
        res.sample({"document": make_doc(env, (DOG_ITEMS[18], DOG_ITEMS[19]), CAT_ITEMS[13], PET_ITEMS[5])})
    return res


def replay(payload):
    res = Result()
    out = []

    def viol(sig, src, summary):
        out.append({"signature": sig, "summary": f"{src}: {summary}"})

    judge(payload["source"], res, viol)
    judge(payload["source"], res, viol, no_location=True)
    return out
