"""C10  Every reported source location is the true line and column."""

from __future__ import annotations

import itertools

from vf.engine.runner import Result
from vf.ref import location as ref

ID = "C10"
TITLE = "Every reported source location is the true line and column"
ALPHA = ["a", " ", "\n", "\r", "\x0c", "\x85", "\u2028", "#", '"', "{"]
BOUNDS = {
    "quick": "all strings <=6 over 10 symbols x all offsets x 4 location offsets; error corpus x 5 line-terminator styles",
    "thorough": "all strings <=7 over 10 symbols x all offsets x 4 location offsets; error corpus x 5 styles x single edits",
}
RULE = (
    "exhaustive: every string up to length L over {a,SP,LF,CR,FF,U+0085,U+2028,#,\",{} x every offset 0..len "
    "(get_location, token line/column, syntax-error location, rendering) compared with a terminator-counting "
    "reference; plus validation/execution/syntax errors of a seed corpus re-laid-out with LF/CR/CRLF/mixed "
    "terminators. distinct = distinct (terminator skeleton, offset->location map, error position) observations"
)
ASSUMPTIONS = [
    "offsets strictly inside a CR LF pair are not compared (no location is defined for them)",
    "rendering of lines longer than 120 characters: only totality, header and caret column are checked",
]
OFFSETS = [(1, 1), (1, 5), (3, 1), (4, 7)]


def _L(tier):
    return 6 if tier == "quick" else 7


def shards(tier):
    L = _L(tier)
    out = [("short", None)]
    k = 2 if tier == "quick" else 3
    for pre in itertools.product(range(len(ALPHA)), repeat=k):
        out.append(("pre", pre))
    out.append(("corpus", 0))
    out.append(("corpus", 1))
    out.append(("longline", 0))
    for i in range(len(BLOCK_ALPHA)):
        out.append(("block", i))
    return out


# ---------------------------------------------------------------------------


def check_string(body, res, viol):
    from graphql import GraphQLSyntaxError, Lexer, Source, TokenKind
    from graphql.language import get_location, print_source_location, SourceLocation

    src = Source(body)
    n = len(body)
    obs = []
    # 1. get_location at every offset
    for off in range(n + 1):
        want = ref.location(body, off)
        if want is None:
            continue
        got = get_location(src, off)
        res.evaluations += 1
        if tuple(got) != want:
            viol("get_location", body, f"offset {off}: got {tuple(got)} want {want}", {"offset": off})
            return
        obs.append(want)
    # 2. tokens and syntax error
    lexer = Lexer(src)
    err = None
    toks = 0
    try:
        while True:
            tok = lexer.advance()
            toks += 1
            want = ref.location(body, tok.start)
            res.evaluations += 1
            if want is not None and (tok.line, tok.column) != want:
                viol("token_line_column", body,
                     f"token {tok.kind} at {tok.start}: line/column {(tok.line, tok.column)} want {want}", {})
                return
            if tok.kind == TokenKind.EOF:
                break
    except GraphQLSyntaxError as e:
        err = e
    except Exception as e:  # noqa: BLE001
        viol("lexer_raises", body, f"{type(e).__name__}: {e}", {})
        return
    if err is not None:
        pos = err.positions[0] if err.positions else None
        res.evaluations += 1
        if pos is None or not err.locations:
            viol("syntax_error_no_location", body, repr(err), {})
            return
        want = ref.location(body, pos)
        if want is not None and tuple(err.locations[0]) != want:
            viol("syntax_error_location", body, f"position {pos}: locations {err.locations} want {want}", {})
            return
        if not check_render(err, body, (1, 1), viol):
            return
        obs.append(("err", pos))
        # same error under location offsets
        for lo in OFFSETS[1:]:
            s2 = Source(body, "X", SourceLocation(*lo))
            try:
                lx = Lexer(s2)
                while lx.advance().kind != TokenKind.EOF:
                    pass
                viol("offset_changes_lexing", body, f"location_offset {lo} made the source lex", {})
                return
            except GraphQLSyntaxError as e2:
                res.evaluations += 1
                if e2.positions != err.positions or [tuple(l) for l in e2.locations] != [tuple(l) for l in err.locations]:
                    viol("offset_changes_location", body, f"{lo}: {e2.locations} vs {err.locations}", {})
                    return
                if not check_render(e2, body, lo, viol):
                    return
    else:
        obs.append(("toks", toks))
    # 3. rendering of every offset's location (not only error positions)
    for off in range(n + 1):
        want = ref.location(body, off)
        if want is None:
            continue
        for lo in (OFFSETS[0], OFFSETS[3]):
            s2 = src if lo == (1, 1) else Source(body, "X", SourceLocation(*lo))
            try:
                txt = print_source_location(s2, SourceLocation(*want))
            except Exception as e:  # noqa: BLE001
                viol("print_source_location_raises", body, f"offset {off} {lo}: {type(e).__name__}: {e}", {})
                return
            res.evaluations += 1
            msg = render_ok(txt, body, s2.name, want, lo)
            if msg:
                viol("print_source_location_wrong", body, f"offset {off} {lo}: {msg}: {txt!r}", {})
                return
    skeleton = "".join(c if c in "\n\r" else ("x" if c in "\x0c\x85\u2028" else ".") for c in body)
    res.outcome((skeleton, tuple(obs)))


def render_ok(txt, body, name, loc, lo):
    """Check the text produced for location `loc` (1-based, in-body) under location offset lo."""
    line, col = loc
    dl, dc = lo[0] - 1, lo[1] - 1
    line_num = line + dl
    col_num = col + (dc if line == 1 else 0)
    rows = txt.split("\n")
    if rows[0] != f"{name}:{line_num}:{col_num}":
        return f"header {rows[0]!r} want {name}:{line_num}:{col_num}"
    ref_lines = ref.lines(" " * dc + body)
    if line - 1 >= len(ref_lines):
        return "line beyond reference"
    want_line = ref_lines[line - 1]
    # the excerpt is cut at real terminators only; rows of the excerpt may themselves
    # not contain LF/CR, so split("\n") is faithful
    if len(want_line) > 120:
        if not any("^" in r for r in rows[1:]):
            return "no caret row"
        return None
    found = None
    for i, r in enumerate(rows[1:], 1):
        pre, bar, rest = r.partition("|")
        if bar and pre.strip() == str(line_num):
            found = (i, rest)
            break
    if found is None:
        return "no excerpt row for the line"
    i, rest = found
    want_rest = (" " + want_line) if want_line else ""
    if rest != want_rest:
        return f"excerpt {rest!r} want {want_rest!r}"
    if i + 1 >= len(rows):
        return "no caret row"
    pre, bar, rest = rows[i + 1].partition("|")
    if pre.strip() != "" or rest != " " + "^".rjust(col_num):
        return f"caret row {rows[i + 1]!r} want caret at {col_num}"
    return None


def check_render(err, body, lo, viol):
    try:
        s = str(err)
        f = err.formatted
    except Exception as e:  # noqa: BLE001
        viol("render_raises", body, f"location_offset {lo}: {type(e).__name__}: {e}", {"offset": list(lo)})
        return False
    locs = f.get("locations")
    if not locs or any(l["line"] < 1 or l["column"] < 1 for l in locs):
        viol("formatted_locations", body, repr(f), {})
        return False
    # every location of the error is rendered; check the first block
    parts = s.split("\n\n")
    if len(parts) < 2:
        viol("render_no_excerpt", body, repr(s), {})
        return False
    loc = tuple(err.locations[0])
    msg = render_ok(parts[1], body, err.source.name, loc, lo)
    if msg:
        viol("render_wrong", body, f"location_offset {lo}: {msg}: {parts[1]!r}", {})
        return False
    return True


# --- corpus: validation and execution errors ----------------------------------

SCHEMA = """
type Query { a: Int b(x: Int!): String! q: Query l: [Query] }
"""
SEEDS = [
    # (document lines, kind)
    ["{", "  a", "  zz", "  q {", "    yy", "  }", "}"],
    ["query Q($v: Int) {", "  b", "  q { b(x: \"s\") }", "}", "", "fragment F on Nope { a }"],
    ["{", "  a {", "    a", "  }", "  q", "}"],
    ["{ a }", "{ b(x: 1) }", "", "query A { a }", "query A { a }"],
    ["{", "  q { l { b(x: 1) } }", "  \"\"\"", "  x", "  \"\"\" a", "}"],
    ["{", "  x: b(x: 1)", "  q {", "     y: b(x: 2) }", "  l { q { b(x: 3) } }", "}"],
    ["# c", "", "{", "  q { ...F }", "}", "fragment F on Query {", "  b(x: 1)", "  ...G", "}", "fragment G on Query { q { b(x: 4) } }"],
    ["{", '  a(d: """', "   block", "   string", '  """)', "  nope", "}"],
]
STYLES = {
    "lf": lambda i: "\n",
    "cr": lambda i: "\r",
    "crlf": lambda i: "\r\n",
    "mixed": lambda i: ["\n", "\r", "\r\n"][i % 3],
    "mixed2": lambda i: ["\r\n", "\r", "\n", "\r"][i % 4],
}
FILLERS = ["", "\x0c", "\u2028", "\x85"]


def layouts(lines):
    for sname, sep in STYLES.items():
        for fill in FILLERS:
            body = ""
            for i, ln in enumerate(lines):
                if fill and ln.startswith("  ") and '"""' not in ln:
                    pass
                body += ln + (sep(i) if i < len(lines) - 1 else "")
            if fill:
                # put a non-terminator "line-break lookalike" into a comment: must not count
                body = "#" + fill + sep(0) + body
            yield sname, fill, body


def check_document(body, res, viol, execute=True):
    from graphql import GraphQLError, GraphQLSyntaxError, Source, build_schema, execute_sync, parse, validate

    global _schema
    try:
        schema = _schema
    except NameError:
        schema = _schema = build_schema(SCHEMA)
    src = Source(body, "doc")
    try:
        doc = parse(src)
    except GraphQLSyntaxError as e:
        res.evaluations += 1
        pos = e.positions[0]
        want = ref.location(body, pos)
        if want is not None and tuple(e.locations[0]) != want:
            viol("syntax_error_location", body, f"position {pos}: {e.locations} want {want}", {})
            return
        check_render(e, body, (1, 1), viol)
        res.outcome(("syn", want))
        return
    tok = doc.loc.start_token
    while tok is not None:
        if tok.kind.name == "SOF":
            tok = tok.next
            continue
        want = ref.location(body, tok.start)
        res.evaluations += 1
        if want is not None and (tok.line, tok.column) != want:
            viol("token_line_column", body, f"token {tok.kind} at {tok.start}: line/column {(tok.line, tok.column)} want {want}", {})
            return
        tok = tok.next
    errors = list(validate(schema, doc))
    kinds = ["validation"] * len(errors)
    if execute and not errors:

        def boom(_src, info, **kw):
            raise RuntimeError(f"boom {kw}")

        root = {"a": 1, "b": boom, "q": None, "l": None}
        inner = dict(root)
        root["q"] = inner
        root["l"] = [inner, inner]
        inner["q"] = dict(inner)
        r = execute_sync(schema, doc, root)
        for e in r.errors or []:
            errors.append(e)
            kinds.append("execution")
    obs = []
    for e, kind in zip(errors, kinds):
        res.evaluations += 1
        nodes = [n for n in (e.nodes or []) if n.loc]
        if not nodes:
            continue
        want = [ref.location(body, n.loc.start) for n in nodes]
        got = [tuple(l) for l in (e.locations or [])]
        if got != want:
            viol(f"{kind}_error_location", body, f"{e.message!r}: locations {got} want {want} (node starts)", {})
            return
        try:
            s = str(e)
            f = e.formatted
        except Exception as x:  # noqa: BLE001
            viol(f"{kind}_render_raises", body, f"{type(x).__name__}: {x}", {})
            return
        blocks = s.split("\n\n")[1:]
        if len(blocks) != len(want):
            viol(f"{kind}_render_blocks", body, f"{len(blocks)} excerpts for {len(want)} locations", {})
            return
        for blk, loc in zip(blocks, want):
            msg = render_ok(blk, body, "doc", loc, (1, 1))
            if msg:
                viol(f"{kind}_render_wrong", body, f"{msg}: {blk!r}", {})
                return
        if [(l["line"], l["column"]) for l in f.get("locations", [])] != want:
            viol(f"{kind}_formatted_locations", body, repr(f), {})
            return
        obs.append((kind, tuple(want)))
    res.outcome(("doc", tuple(obs)))


EDIT_CHARS = ["\n", "\r", "\r\n", "\u2028", "\x0c", "?", '"', "}"]


BLOCK_ALPHA = ["a", " ", "\n", "\r", "\\", '"']
BLOCK_PRE = ["", "\n", "a ", "\r\n "]
BLOCK_TAIL = ["", "a", " a", "\na", "\r\na", "?", "\r?", ' "x" b']


def run_shard(shard, tier):
    res = Result()
    kind, arg = shard
    cur = {}

    def viol(sig, body, summary, extra):
        res.violation(sig, f"source {body!r}: {summary}", dict(extra, body=body, mode=cur.get("mode", "string")))

    L = _L(tier)
    if kind == "short":
        k = 2 if tier == "quick" else 3
        for n in range(k):
            for tup in itertools.product(ALPHA, repeat=n):
                body = "".join(tup)
                check_string(body, res, viol)
                res.states += 1
                res.transitions += 1
                res.executions += 1
        res.sample({"source": "a\r\n{", "offsets": "0..4"})
    elif kind == "pre":
        pre = "".join(ALPHA[i] for i in arg)
        for n in range(0, L - len(arg) + 1):
            for tup in itertools.product(ALPHA, repeat=n):
                body = pre + "".join(tup)
                check_string(body, res, viol)
                res.states += 1
                res.transitions += 1
                res.executions += 1
        if arg == (2,) * len(arg):
            res.sample({"source": pre + "\r\n", "offsets": f"0..{len(pre) + 2}"})
    elif kind == "corpus":
        cur["mode"] = "document"
        for si, lines in enumerate(SEEDS):
            if si % 2 != arg:
                continue
            for sname, fill, body in layouts(lines):
                check_document(body, res, viol)
                res.states += 1
                res.transitions += 1
                res.executions += 1
                if tier == "thorough" or sname in ("mixed", "crlf"):
                    # single insert edits: syntax errors (and shifted locations) at every position
                    step = 1 if tier == "thorough" else 3
                    for pos in range(0, len(body) + 1, step):
                        for ch in EDIT_CHARS:
                            b2 = body[:pos] + ch + body[pos:]
                            check_document(b2, res, viol, execute=False)
                            res.states += 1
                            res.transitions += 1
                            res.executions += 1
            res.sample({"document": "\n".join(lines)[:80], "layouts": list(STYLES)})
    elif kind == "block":
        # block strings: the lexer's own line bookkeeping (line / line_start) across inner terminators
        LB = 4 if tier == "quick" else 5
        first = BLOCK_ALPHA[arg]
        for n in range(0, LB):
            for tup in itertools.product(BLOCK_ALPHA, repeat=n):
                inner = first + "".join(tup)
                for pre in BLOCK_PRE:
                    for tail in BLOCK_TAIL:
                        body = pre + '"""' + inner + '"""' + tail
                        check_string(body, res, viol)
                        res.states += 1
                        res.transitions += 1
                        res.executions += 1
        res.sample({"source": '"""a\r\n"""a', "checks": "token line/column after a block string"})
    elif kind == "longline":
        cur["mode"] = "string"
        # minified documents: lines > 120 chars, error at several columns
        for width in (119, 120, 121, 161, 240, 241):
            for tail in ("?", "\n?", "\r\n ?"):
                body = "{" + "a " * (width // 2) + tail
                check_string(body, res, viol)
                res.states += 1
                res.transitions += 1
                res.executions += 1
    return res


def replay(payload):
    res = Result()
    out = []

    def viol(sig, body, summary, extra):
        out.append({"signature": sig, "summary": f"source {body!r}: {summary}"})

    if payload.get("mode") == "document":
        check_document(payload["body"], res, viol)
    else:
        check_string(payload["body"], res, viol)
    return out
