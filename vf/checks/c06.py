"""C06  Stopping early never hangs or leaks: work settles and sources are closed."""

from __future__ import annotations

from vf.checks import c04
from vf.engine import incr
from vf.engine.choice import explore, run_once
from vf.engine.runner import Result

ID = "C06"
BOUNDS = {
    "quick": "abort also before execute() is called, from inside any resolver call and between any two loop callbacks; 13 incremental + 2 plain requests x site sets x early execution off/on x stop kind {consumer aclose, abort(None), abort(exception), abort(non-exception value)} inserted at EVERY choice point of EVERY completion order (complete), plus the same runs without a stop and with resolver / source failures; 4 subscription scenarios x stop at every point; component level: consumer close at every choice point of every synthetic work graph (<=2 groups with <=2 tasks, or 1 group + 1 task + 1 stream over 15 scripts) on the real WorkQueue/publisher/StreamItemQueue(capacity 1|2)",
    "thorough": "all C04 requests; early release <=1 before a consumer close",
}
RULE = (
    "crash-point style exploration on the hand-stepped loop: for every schedule of every request one stop action is inserted at every choice "
    "point and - for abort - at every boundary between two loop callbacks, inside every resolver call and before the call of execute() (the consumer closes the payload stream, or the abort signal fires with each kind of reason; resolver and source failures come from "
    "the fault menu). After the stop no resolver or source gate is released, only the consumer's own pulls; the caller must be released with the "
    "result / the abort reason / AbortedGraphQLExecutionError. Then the outside world completes what it had started and at quiescence: no task "
    "started by the execution is pending, every started source iterator was closed exactly once, the work-finished hook ran exactly once and "
    "saw no tracked future and no pending task. distinct = distinct (request, schedule with stop point, outcome)"
)
ASSUMPTIONS = [
    "aclose() is issued by the consuming task between pulls (Python rejects aclose() on a running async generator)",
    "library-internal helper generators (WorkQueue.events, batches) need not be closed; only tasks and harness source iterators are checked",
]

REQ_NAMES_QUICK = ["failing_defer_owns_streaming_child", "stream_in_stream", "stream_next_to_failing", "stream_next_to_failing_deferred", "stream_next_to_root_failure", "shared_stream_both_fail", "nested_stream_item_fails", "plain_bg1", "plain_bg2", "initial_async", "defer1", "defer_stream", "nested", "defer_list", "stream_agen", "defer_in_stream", "two_streams", "nonnull_deferred", "overlap"]
STOPS = [("none", None), ("aclose", None), ("abort", None), ("abort", "exc"), ("abort", "value")]


STEP_STOPS = True


class Reason(Exception):
    pass


def shards(tier):
    out = []
    names = REQ_NAMES_QUICK if tier == "quick" else [r[0] for r in c04.REQUESTS]
    for ri, r in enumerate(c04.REQUESTS):
        if r[0] not in names:
            continue
        for si in range(len(r[3])):
            if tier == "quick" and r[0] == "two_streams" and si == 0:
                continue  # two independent sources: > 10^5 schedules with a stop at every point (thorough only)
            for early in (False, True):
                for st in range(len(STOPS)):
                    out.append(("incr", (ri, si, early, st)))
    for i in range(len(SUB_SCENARIOS)):
        for st in ("none", "aclose", "abort"):
            out.append(("sub", (i, st)))
    # component level: the consumer closes the stream at every choice point of every synthetic work graph
    from vf.checks import c05

    for parents in ((0,), (0, 0), (0, 1)):
        out.append(("graph", (parents, 0, 2, None)))
    for si in range(len(c05.STREAM_SCRIPTS)):
        out.append(("graph", ((0,), 1, 1, si)))
    return out


# ---------------------------------------------------------------------------


def stop_point_class(obs, stop):
    if stop == "aclose":
        return "before_first_pull" if len(obs.payloads) <= 1 else "after_payloads"
    if stop == "abort":
        if obs.stop_label in ("abort_before_execute", "abort_in_resolver", "abort_between_handles"):
            return obs.stop_label[6:] + ("" if obs.result_kind is None else "_while_streaming")
        return "during_initial_execution" if obs.result_kind is None else ("before_first_pull" if len(obs.payloads) <= 1 else "while_streaming")
    return "no_stop"


def judge(obs, stop, reason_kind, reason, label, payload, res):
    from graphql.execution import AbortedGraphQLExecutionError

    res.evaluations += 1
    spc = stop_point_class(obs, stop if obs.stopped else "none")
    pre = f"{stop if obs.stopped else 'none'}:{spc}"

    def v(clause, detail):
        res.violation(f"{pre}:{clause}", f"{label}: {detail}", payload)

    if obs.status.startswith("hang"):
        if any(t.startswith("caller:aborted") for t in obs.trace):
            v("aborted_result_never_settles", f"the caller got {type(obs.exc).__name__} but the partial result exposed on it never settled: {obs.status}")
            return False
        v("caller_not_released", f"{obs.status}; payloads so far {len(obs.payloads)}; pending tasks {obs.left}")
        return False
    if obs.status == "raised":
        e = obs.exc
        if not obs.stopped or stop != "abort":
            v("caller_got_exception", f"{type(e).__name__}: {e}")
            return False
        ok = False
        if isinstance(e, AbortedGraphQLExecutionError):
            ok = reason is None or e.reason is reason
        elif reason_kind == "exc":
            ok = e is reason
        elif reason_kind == "value":
            ok = "Unexpected error value" in str(e) or getattr(e, "reason", None) is reason
        else:
            ok = True  # abort() without a reason: the library's own default abort error
        if not ok:
            v("wrong_abort_exception", f"caller got {type(e).__name__}: {e!r}, abort reason was {reason!r}")
            return False
    if obs.status == "cancelled":
        v("caller_cancelled", "the awaiting caller was cancelled instead of being given a result or the abort reason")
        return False
    if obs.left:
        v("task_left_pending", f"pending after quiescence: {obs.left}")
        return False
    started = [k for what, k in obs.closes if what == "started"]
    closed = [k for what, k in obs.closes if what == "closed"]
    finished = [k for what, k in obs.closes if what == "finished"]
    for k in set(started):
        # an async generator logs "closed" from its finally block (exhaustion, failure or aclose); a custom iterator logs
        # "finished" when it raised StopAsyncIteration and "closed" per aclose() call
        n_closed = closed.count(k)
        if n_closed > started.count(k):
            v("source_closed_twice", f"source {k}: started {started.count(k)}x, aclose {n_closed}x")
            return False
        if n_closed + finished.count(k) < started.count(k):
            v("source_not_closed", f"source {k}: started {started.count(k)}x, closed {n_closed}x, exhausted {finished.count(k)}x")
            return False
    if len(obs.hook) != 1:
        v("hook_count", f"work-finished hook ran {len(obs.hook)} times")
        return False
    bg, inc, pend = obs.hook[0]
    if bg or inc or pend:
        what = ",".join(sorted(set(p.split(" object at")[0] for p in pend))) or "tracked_futures"
        v(f"hook_before_work_settled[{what}]", f"hook saw {bg} unfinished background futures, {inc} unfinished incremental futures, running (not cancelled) tasks {pend}")
        return False
    if obs.errs:
        v("loop_error_logged", f"{obs.errs}")
        return False
    return True


def run_incr(arg, tier, res, only=None):
    from graphql import parse

    ri, si, early, sti = arg
    name, text, enclosing, site_sets, varsets = c04.REQUESTS[ri]
    sites = site_sets[si]
    stop, reason_kind = STOPS[sti]
    reason_box = {}

    def new_reason():
        # a fresh object per execution: re-raising one exception instance thousands of times grows its traceback
        if reason_kind == "exc":
            reason_box["r"] = Reason("stop it")
        elif reason_kind == "value":
            reason_box["r"] = "just a string"
        else:
            reason_box["r"] = None
        return reason_box["r"]
    schema = incr.make_schema()
    doc = incr.gparse(text)
    variables = (varsets or [None])[0]
    faults = [None] if stop != "none" else incr.FAULTS
    cap = 40000 if tier == "quick" else 600000
    for fault in faults:
        def scenario(c, fault=fault):
            # thorough: one early release before the consumer's close; for abort the stop points between all loop callbacks already
            # cover "the signal lands while callbacks are queued", and the product with early releases is beyond any budget
            return incr.run(c, schema, doc, sites, fault, early, early_bound=(tier == "thorough" and stop == "aclose"), variables=variables,
                            stop=None if stop == "none" else stop, abort_reason=new_reason(), settle_after=True, sync_stops=True, step_stops=STEP_STOPS)

        def visit(c, obs, fault=fault):
            label = f"{name} sites={sites} fault={fault} early_execution={early} stop={stop}({reason_kind}) schedule={obs.trace}"
            payload = {"mode": "incr", "arg": list(arg), "fault": fault, "choices": list(c.choices)}
            if judge(obs, stop, reason_kind, reason_box.get("r"), label, payload, res):
                res.outcome((name, tuple(obs.trace), obs.status, len(obs.payloads)))
                if len(res.samples) < 1 and obs.stopped and len(obs.trace) > 3:
                    res.sample({"request": text, "awaitable_sites": sites, "early_execution": early, "stop": stop, "schedule": obs.trace,
                                "caller": obs.status, "closes": obs.closes})

        if only is not None:
            if fault != only[0]:
                continue
            c, obs = run_once(scenario, only[1])
            visit(c, obs)
            return
        st = explore(scenario, 1 if (tier == "thorough" and stop == "aclose") else 0, visit, max_executions=cap)
        res.add_stats(st)
        if st.pruned:
            res.notes.append(f"cap {cap} hit: {name} sites {sites} stop {stop}")


# --------------------------------------------------------------------------- subscriptions

SUB_SCENARIOS = [
    ("agen", "subscription { ev { id msg } }", 2, False),
    ("agen_async_resolver", "subscription { ev { id msg } }", 2, True),
    ("iter_aclose", "subscription { ev { id } }", 2, False),
    ("iter_plain", "subscription { ev { msg } }", 1, True),
    ("iterable_fresh", "subscription { ev { id } }", 2, False),
]


def scenario_sub(c, idx, stop):
    import gc

    from graphql import ExecutionResult, build_schema, parse, subscribe
    from graphql.pyutils import AbortController

    from vf.checks import c07
    from vf.engine.vloop import Hang, Livelock, World, task_names

    kind, text, n, async_res = SUB_SCENARIOS[idx]
    schema = build_schema(c07.SCHEMA)
    doc = incr.gparse(text)
    trace = []
    closes = []
    out = []
    with World() as w:
        async def agen():
            closes.append(("started", "src"))
            try:
                for i in range(n):
                    await w.gate(f"src{i}", None, kind="src")
                    yield {"ev": {"id": str(i), "msg": f"m{i}"}}
                await w.gate("srcend", None, kind="src")
            finally:
                closes.append(("closed", "src"))

        class It:
            def __init__(self):
                self.i = 0

            def __aiter__(self):
                return self

            async def __anext__(self):
                i = self.i
                self.i += 1
                if i == 0:
                    closes.append(("started", "src"))
                await w.gate(f"src{i}", None, kind="src")
                if i >= n:
                    closes.append(("finished", "src"))
                    raise StopAsyncIteration
                return {"ev": {"id": str(i), "msg": f"m{i}"}}

        class ItClose(It):
            async def aclose(self):
                closes.append(("closed", "src"))

        class FreshIterable:
            """An async iterable that is not its own iterator: only the iterator it hands out can be closed."""

            def __aiter__(self):
                return ItClose()

        def sub(_r, _i, **_a):
            if kind.startswith("agen"):
                return agen()
            if kind == "iterable_fresh":
                return FreshIterable()
            return ItClose() if kind == "iter_aclose" else It()

        schema.subscription_type.fields["ev"].subscribe = sub

        def resolver(src, info, **args):
            v = src.get(info.field_name) if isinstance(src, dict) else None
            if async_res and info.field_name == "msg":
                return w.gate(f"msg@{info.path.as_list()}", v, kind="res")
            return v

        ctl = AbortController() if stop == "abort" else None
        stopped = {"v": False}

        async def main():
            kw = {"abort_signal": ctl.signal} if ctl is not None else {}
            try:
                r = subscribe(schema, doc, field_resolver=resolver, **kw)
            except TypeError:
                r = subscribe(schema, doc, field_resolver=resolver)
            if hasattr(r, "__await__"):
                r = await r
            if isinstance(r, ExecutionResult):
                out.append("single")
                return
            while True:
                act = await w.gate("pull", None, kind="pull")
                if act == "close":
                    await r.aclose()
                    out.append("closed")
                    return
                try:
                    p = await r.__anext__()
                except StopAsyncIteration:
                    out.append("end")
                    return
                out.append("response")

        t = w.task(main())
        status = "done"
        pulls_after = 0
        try:
            while not t.done():
                w.drain()
                if t.done():
                    break
                og = w.open_gates()
                if stopped["v"]:
                    og = [g for g in og if g.kind == "pull"]
                    if not og:
                        raise Hang("stopped: caller waits, no pull possible")
                    pulls_after += 1
                    if pulls_after > 8:
                        raise Hang("stopped: responses keep coming")
                    trace.append("pull*")
                    og[0].release()
                    continue
                stops = []
                if stop == "abort":
                    stops = ["abort"]
                elif stop == "aclose" and any(g.kind == "pull" for g in og):
                    stops = ["aclose"]
                if not og and not stops:
                    raise Hang("nothing can happen")
                k = c.choose(len(og) + len(stops), "release", cost=0)
                if k >= len(og):
                    stopped["v"] = True
                    trace.append("STOP:" + stop)
                    if stop == "abort":
                        ctl.abort(Reason("stop"))
                    else:
                        next(g for g in og if g.kind == "pull").release(("ok", "close"))
                else:
                    trace.append(og[k].label)
                    og[k].release()
            w.drain()
            if t.exception() is not None:
                status = "raised:" + type(t.exception()).__name__
        except (Hang, Livelock) as e:
            status = "hang:" + str(e)
        # the world completes what it started
        for _ in range(10):
            og = [g for g in w.open_gates() if g.kind != "pull"]
            if not og:
                break
            og[0].release()
            try:
                w.drain()
            except Livelock:
                break
        gc.collect(1)
        w.drain()
        left = task_names(w.pending_tasks(exclude=(t,)))
    return {"status": status, "trace": trace, "closes": closes, "left": left, "out": out, "stopped": stopped["v"], "kind": kind}


def judge_sub(obs, idx, stop, res, c):
    label = f"subscription {SUB_SCENARIOS[idx][0]} stop={stop} schedule={obs['trace']}"
    payload = {"mode": "sub", "idx": idx, "stop": stop, "choices": list(c.choices)}
    res.evaluations += 1
    pre = f"sub_{stop if obs['stopped'] else 'none'}"
    if obs["status"].startswith("hang"):
        res.violation(f"{pre}:caller_not_released", f"{label}: {obs['status']}", payload)
        return
    if obs["status"].startswith("raised") and not (obs["stopped"] and stop == "abort"):
        res.violation(f"{pre}:caller_got_exception", f"{label}: {obs['status']}", payload)
        return
    if obs["left"]:
        res.violation(f"{pre}:task_left_pending", f"{label}: {obs['left']}", payload)
        return
    started = sum(1 for w, _k in obs["closes"] if w == "started")
    closed = sum(1 for w, _k in obs["closes"] if w == "closed")
    can_close = obs["kind"] != "iter_plain"
    finished = sum(1 for w, _k in obs["closes"] if w == "finished")
    if obs["kind"] in ("iter_aclose", "iterable_fresh"):
        # a custom iterator that ran to exhaustion need not be closed as well; closing it twice is wrong in any case
        bad = closed > started or closed + finished < started
    else:
        bad = closed != started
    if can_close and started and bad:
        res.violation(f"{pre}:source_not_closed_exactly_once", f"{label}: started {started} closed {closed}", payload)
        return
    res.outcome((idx, stop, tuple(obs["trace"]), obs["status"]))
    res.sample({"subscription": SUB_SCENARIOS[idx][1], "source": obs["kind"], "stop": stop, "schedule": obs["trace"], "observed": obs["out"]}, 1)


def judge_graph(obs, parents, ns, T, res, c, si=None):
    if obs is None:
        return
    label = f"work graph {obs['desc']} schedule {obs['trace']}"
    payload = {"mode": "graph", "parents": list(parents), "ns": ns, "T": T, "si": si, "choices": list(c.choices)}
    res.evaluations += 1
    pre = "graph_" + ("aclose" if obs["stopped"] else "none")
    if obs["status"] != "done":
        res.violation(f"{pre}:consumer_{obs['status'].split(':')[0]}", f"{label}: {obs['status']}", payload)
        return
    if obs["left"]:
        res.violation(f"{pre}:task_left_pending", f"{label}: {obs['left']}", payload)
        return
    if obs["hook"] != 1 or obs["cancelled"] != 1:
        res.violation(f"{pre}:cleanup_count", f"{label}: work-finished hook ran {obs['hook']}x, cancel_incremental_work {obs['cancelled']}x", payload)
        return
    res.outcome((repr(obs["desc"]), tuple(obs["trace"])))
    res.sample({"work_graph": obs["desc"], "schedule": obs["trace"]}, 1)


def run_shard(shard, tier):
    res = Result()
    kind, arg = shard
    if kind == "graph":
        from vf.checks import c05

        parents, ns, T, si = arg
        scripts = [c05.STREAM_SCRIPTS[si]] if si is not None else None

        def visit(c, obs):
            judge_graph(obs, parents, ns, T, res, c, si)

        st = explore(lambda c: c05.scenario_graph(c, parents, ns, T, stop=True, scripts=scripts), 0, visit, max_executions=300000)
        res.add_stats(st)
        if st.pruned:
            res.notes.append(f"cap hit for work graphs {parents} streams {ns}")
        return res
    if kind == "incr":
        run_incr(arg, tier, res)
    else:
        idx, stop = arg

        def visit(c, obs):
            judge_sub(obs, idx, stop, res, c)

        res.add_stats(explore(lambda c: scenario_sub(c, idx, stop), 0, visit, max_executions=100000))
    return res


def replay(payload):
    res = Result()
    if payload["mode"] == "graph":
        from vf.checks import c05

        parents = tuple(payload["parents"])
        si = payload.get("si")
        scripts = [c05.STREAM_SCRIPTS[si]] if si is not None else None
        c, obs = run_once(lambda c: c05.scenario_graph(c, parents, payload["ns"], payload["T"], stop=True, scripts=scripts), payload["choices"])
        judge_graph(obs, parents, payload["ns"], payload["T"], res, c, si)
        return [{"signature": v["signature"], "summary": v["summary"]} for v in res.violations]
    if payload["mode"] == "incr":
        run_incr(tuple(payload["arg"]), "quick", res, only=(payload["fault"], payload["choices"]))
    else:
        c, obs = run_once(lambda c: scenario_sub(c, payload["idx"], payload["stop"]), payload["choices"])
        judge_sub(obs, payload["idx"], payload["stop"], res, c)
    return [{"signature": v["signature"], "summary": v["summary"]} for v in res.violations]
