"""C16  Leaf results are serialised within the specification's value domains."""

from __future__ import annotations

import enum

from vf.engine.runner import Result
from vf.gen import values as V
from vf.ref import leaf as ref

ID = "C16"
TITLE = "Leaf results are serialised within the specification's value domains"
BOUNDS = {
    "quick": "every value of the gen/values.py menu (208) + each enum's own names/internal values/members, x 5 built-in "
             "scalars, 11 hand-written and 89 generated enum definitions (every assignment of {absent, a member name, an int} to 2 and 3 members), x {coerce_output_value, serialize, execute_sync as field T, T!, item of [T], [T!]}",
    "thorough": "quick + every ordered pair [a, b] and 1-tuple/dict wrapping of menu values as a resolver result "
                "(direct, field T and item of [T!])",
}
RULE = (
    "exhaustive product: every menu value (bool/int/float edges, numeric-looking and non-ASCII-digit strings, bytes, "
    "containers, None/Undefined, int/str/float subclasses, IntEnum/Enum members, Decimal, Fraction, objects with "
    "__str__/__int__/__float__/__bool__) as a resolver result for every built-in scalar and 11 enum definitions, "
    "through coerce_output_value/serialize directly and through execute_sync as a nullable/non-null field and list item. "
    "Oracle ref/leaf.py (exact Fraction/Decimal arithmetic): result is an error, or lies in the type's domain and is "
    "numerically/textually the input, is JSON-representable (allow_nan=False), and the type's input coercion takes it "
    "back with the same meaning; the executed response has the value or null + exactly one located error. "
    "distinct = distinct (type, input class, ok/error, emitted value) observations"
)
ASSUMPTIONS = [
    "an error is always an allowed outcome (the property is a safety property); no value is required to be accepted",
    "a string's numeric meaning is its exact decimal reading by decimal.Decimal; strings Decimal cannot read have none, "
    "and an Int/Float emitted for them is judged a wrong value",
    "for inputs that are neither bool/number/str (objects with __str__, containers) String/ID/Boolean results are only "
    "checked for their domain (text / boolean), JSON-representability and round trip",
    "an enum value declared without an internal value (None) is identified by its name on output; on the way "
    "back the name must yield that declared internal value (graphql-core yields None there - documented behaviour)",
    "internal enum values range over ordinary Python values, not the Undefined sentinel (which the library reserves "
    "for 'no value')",
    "direct calls: any exception counts as an error outcome (GraphQLError is not required outside execution)",
]

SCALARS = ["Int", "Float", "String", "Boolean", "ID"]
ENUMS = ["names", "sdl", "ints", "absent", "cross", "py_values", "py_names", "py_members", "intenum_members",
         "unhashable", "equal"]
# generated enums: every assignment of {absent, own or another member's name, an int} to 2 and 3 members - explicit values
# that equal the name of another (value-less) member are where "first value or name wins" matters
GEN_VALUES = [None, "A", "B", "C", 1]
GEN_ENUMS = [f"gen2:{a}{b}" for a in range(5) for b in range(5) if GEN_VALUES[a] != "C" and GEN_VALUES[b] != "C"] + \
            [f"gen3:{a}{b}{c}" for a in range(4) for b in range(4) for c in range(4)]
ENUMS = ENUMS + GEN_ENUMS
MODES = ["direct", "field", "nonnull_field", "list_item", "nonnull_list_item"]


class Color(enum.Enum):
    RED = 1
    GREEN = 2
    BLUE = "blue"
    CRIMSON = 1  # alias of RED


_NAN = float("nan")


def build_type(key):
    """-> (graphql leaf type, extras: list of (label, value) specific to the type)"""
    import graphql as g
    from graphql.pyutils import Undefined

    if key in SCALARS:
        return getattr(g, "GraphQL" + key), []
    E, EV = g.GraphQLEnumType, g.GraphQLEnumValue
    if key == "names":
        t = E("E", {"A": "A", "B": "B", "RED": "RED"})
    elif key == "sdl":
        t = g.build_schema("enum E { A B RED } type Query { e: E }").type_map["E"]
    elif key == "ints":
        t = E("E", {"ZERO": 0, "ONE": 1, "TWO": 2, "MAX": 2 ** 31})
    elif key == "absent":
        t = E("E", {"A": None, "B": EV(), "D": "d", "ONE": EV(None, description="x")})
    elif key == "cross":
        t = E("E", {"A": "B", "B": "A", "C": "c"})
    elif key == "py_values":
        t = E("E", Color)
    elif key == "py_names":
        t = E("E", Color, names_as_values=True)
    elif key == "py_members":
        t = E("E", Color, names_as_values=None)
    elif key == "intenum_members":
        t = E("E", V.Num, names_as_values=None)
    elif key == "unhashable":
        t = E("E", {"L": [1], "D": {"x": 1}, "S": {1}, "N": 1, "T": (1,), "LL": [[1]], "E": [], "P": [1, 2]})
    elif key == "equal":
        t = E("E", {"I": 1, "T": True, "F": 1.0, "Z": 0, "NO": False, "S": "1", "NAN": _NAN, "NEG0": -0.0})
    elif key.startswith("gen"):
        idx = key.split(":")[1]
        t = E("E", {name: GEN_VALUES[int(i)] for name, i in zip("ABC", idx)})
    else:
        raise KeyError(key)
    extras = []
    for i, (name, ev) in enumerate(t.values.items()):
        extras.append((f"name:{name}", name))
        extras.append((f"internal:{i}", ev.value))
        extras.append((f"lower:{name}", name.lower()))
    if key.startswith("py_"):
        for m in Color.__members__:
            extras.append((f"member:{m}", Color[m]))
            extras.append((f"member_value:{m}", Color[m].value))
    return t, extras


def declared(t):
    return [(n, ev.value) for n, ev in t.values.items()]


# ---------------------------------------------------------------------------


def shards(tier):
    out = []
    n = len(V.menu())
    step = 52
    for key in SCALARS + ENUMS:
        for lo in range(0, n, step):
            if key.startswith("gen") and lo:
                continue  # generated enums: names, internal values, lower-case names (extras) + the first chunk of the value menu
            out.append(("menu", key, lo, min(n, lo + step)))
        if key in ENUMS:
            out.append(("extras", key, 0, 0))
    if tier == "thorough":
        for key in SCALARS + [k for k in ENUMS if not k.startswith("gen")]:
            for lo in range(0, n, 26):
                out.append(("pairs", key, lo, min(n, lo + 26)))
    return out


class Harness:
    """One leaf type, its schema with four field shapes, and the judging code."""

    def __init__(self, key):
        import graphql as g

        self.key = key
        self.t, self.extras = build_type(key)
        self.is_enum = key in ENUMS
        self.tname = "enum" if self.is_enum else key
        self.decl = declared(self.t) if self.is_enum else None
        self.cell = [None]
        cell = self.cell
        t = self.t
        fields = {
            "f": g.GraphQLField(t, resolve=lambda _s, _i: cell[0]),
            "g": g.GraphQLField(g.GraphQLNonNull(t), resolve=lambda _s, _i: cell[0]),
            "l": g.GraphQLField(g.GraphQLList(t), resolve=lambda _s, _i: [cell[0]]),
            "m": g.GraphQLField(g.GraphQLList(g.GraphQLNonNull(t)), resolve=lambda _s, _i: [cell[0]]),
        }
        self.schema = g.GraphQLSchema(g.GraphQLObjectType("Query", fields))
        self.docs = {f: g.parse("{ %s }" % f) for f in fields}

    # -- judging one emitted value ------------------------------------------------
    def judge(self, v, out):
        from graphql.pyutils import Undefined
        from graphql.utilities import coerce_input_value

        if self.is_enum:
            bad = ref.judge_enum(self.decl, v, out)
        else:
            bad = ref.judge_scalar(self.key, v, out)
        if bad:
            return bad
        msg = ref.json_ok(out)
        if msg:
            return "json", msg
        try:
            back = self.t.coerce_input_value(out)
            back2 = coerce_input_value(out, self.t)
        except Exception as e:  # noqa: BLE001
            return "roundtrip_rejected", f"the type's input coercion rejects the emitted value: {type(e).__name__}: {e}"
        if back2 is Undefined:
            return "roundtrip_rejected", "coerce_input_value(emitted, type) is Undefined"
        for b in (back, back2):
            bad = ref.roundtrip_enum(self.decl, v, out, b) if self.is_enum else ref.roundtrip_scalar(self.key, out, b)
            if bad:
                return bad
        return None

    def direct(self, v):
        outs = []
        for fn in (self.t.coerce_output_value, self.t.serialize):
            try:
                outs.append(("ok", fn(v)))
            except Exception as e:  # noqa: BLE001
                outs.append(("err", type(e).__name__))
        return outs

    def execute(self, field, v):
        from graphql import execute_sync

        self.cell[0] = v
        try:
            return execute_sync(self.schema, self.docs[field])
        finally:
            self.cell[0] = None


FIELD_OF = {"field": "f", "nonnull_field": "g", "list_item": "l", "nonnull_list_item": "m"}


def vclass(v):
    if type(v) in (list, tuple):
        return (type(v).__name__,) + tuple(type(x).__name__ for x in v)
    if type(v) is dict:
        return ("dict",) + tuple(type(x).__name__ for x in v.values())
    return type(v).__name__


def same_value(a, b):
    return type(a) is type(b) and (a == b or a is b)


def check_value(h, label, v, res, modes=MODES):
    """All modes for one (type, value).  Returns after the first violation."""
    from graphql.pyutils import Undefined

    def viol(suffix, mode, msg):
        res.violation(f"{suffix}:{h.tname}", f"{h.key} <- {V.describe(v)} [{mode}]: {msg}",
                      {"type": h.key, "label": label, "mode": mode})

    is_null = v is None or v is Undefined
    # --- direct --------------------------------------------------------------------
    d1, d2 = h.direct(v)
    res.executions += 2
    res.evaluations += 1
    if d1[0] != d2[0] or (d1[0] == "ok" and not same_value(d1[1], d2[1])):
        viol("serialize_vs_coerce_output_value", "direct", f"coerce_output_value -> {d1!r}, serialize -> {d2!r}")
        return
    direct_ok = d1[0] == "ok"
    if direct_ok:
        out = d1[1]
        if out is None or out is Undefined:
            # complete_leaf_value turns this into an error; as a direct result it is outside every domain
            viol("type", "direct", f"coerce_output_value returned {out!r}")
            return
        bad = h.judge(v, out)
        if bad:
            viol(bad[0], "direct", f"emitted {V.describe(out)}: {bad[1]}")
            return
        res.outcome((h.key, "ok", vclass(v), type(out).__name__, repr(out)[:80]))
    else:
        res.outcome((h.key, "err", vclass(v), d1[1]))
        if d1[1] != "GraphQLError":
            res.count("direct_non_graphql_error")
    # --- executed -------------------------------------------------------------------
    for mode in modes:
        if mode == "direct":
            continue
        field = FIELD_OF[mode]
        try:
            r = h.execute(field, v)
        except Exception as e:  # noqa: BLE001
            viol("execute_raises", mode, f"{type(e).__name__}: {e}")
            return
        res.executions += 1
        res.evaluations += 1
        data, errors = r.data, r.errors or []
        # locate the leaf position
        nullable_leaf = mode in ("field", "list_item")
        is_item = mode in ("list_item", "nonnull_list_item")
        err_path = [field, 0] if is_item else [field]
        if data is None:
            got, null_at = None, "data"
        elif not isinstance(data, dict) or list(data) != [field]:
            viol("response_shape", mode, f"data = {data!r}")
            return
        elif is_item:
            lst = data[field]
            if lst is None:
                got, null_at = None, "list"
            elif type(lst) is not list or len(lst) != 1:
                viol("response_shape", mode, f"data = {data!r}")
                return
            else:
                got, null_at = lst[0], "item"
        else:
            got, null_at = data[field], "field"
        if got is not None:
            if errors:
                viol("value_and_error", mode, f"value {got!r} together with errors {[e.message for e in errors]}")
                return
            if is_null:
                viol("value_for_null", mode, f"value {got!r} for a null result")
                return
            bad = h.judge(v, got)
            if bad:
                viol(bad[0], mode, f"emitted {V.describe(got)}: {bad[1]}")
                return
            if not direct_ok or not same_value(got, d1[1]):
                viol("execute_vs_direct", mode, f"executed value {got!r}, direct {d1!r}")
                return
        else:
            want_null_at = {"field": "field", "nonnull_field": "data", "list_item": "item", "nonnull_list_item": "list"}[mode]
            if null_at != want_null_at:
                viol("null_position", mode, f"null at {null_at}, expected at {want_null_at}: data = {data!r}")
                return
            if is_null and nullable_leaf:
                if errors:
                    viol("error_for_null", mode, f"errors for a null result at a nullable position: {[e.message for e in errors]}")
                    return
            else:
                if len(errors) != 1:
                    viol("silent_null" if not errors else "error_count", mode,
                         f"null with {len(errors)} errors: {[e.message for e in errors]}")
                    return
                e = errors[0]
                if e.path != err_path or not e.locations:
                    viol("error_location", mode, f"path {e.path} locations {e.locations}, expected path {err_path}")
                    return
                if direct_ok and not is_null:
                    viol("execute_vs_direct", mode, f"executed error {e.message!r}, direct {d1!r}")
                    return
        msg = ref.json_ok(r.formatted)
        if msg:
            viol("json", mode, f"response: {msg}")
            return


def _menu_with_extras(h):
    return list(V.menu()) + [(f"x:{l}", v) for l, v in h.extras]


def wrap_pair(kind, a, b):
    if kind == "list":
        return [a, b]
    if kind == "tuple":
        return (a,)
    if kind == "dict":
        return {"x": a}
    raise KeyError(kind)


def run_shard(shard, tier):
    res = Result()
    kind, key, lo, hi = shard
    h = Harness(key)
    if kind == "menu":
        items = V.menu()[lo:hi]
        for label, v in items:
            check_value(h, label, v, res)
            res.states += 1
            res.transitions += len(MODES)
        if lo == 0:
            res.sample({"type": key, "values": [l for l, _ in items[:6]], "modes": MODES})
    elif kind == "extras":
        for label, v in h.extras:
            check_value(h, "x:" + label, v, res)
            res.states += 1
            res.transitions += len(MODES)
    elif kind == "pairs":
        first = V.menu()[lo:hi]
        modes = ["direct", "field", "nonnull_list_item"]
        for la, a in first:
            for lb, b in _menu_with_extras(h):
                check_value(h, f"list|{la}|{lb}", [a, b], res, modes)
                res.states += 1
                res.transitions += len(modes)
            check_value(h, f"tuple|{la}|", (a,), res, modes)
            check_value(h, f"dict|{la}|", {"x": a}, res, modes)
            res.states += 2
            res.transitions += 2 * len(modes)
    return res


def _value_for(h, label):
    def one(l):
        if l.startswith("x:"):
            for el, ev in h.extras:
                if "x:" + el == l:
                    return ev
            raise KeyError(l)
        return V.by_label(l)

    if "|" in label:
        kind, la, lb = label.split("|", 2)
        return wrap_pair(kind, one(la), one(lb) if lb else None)
    return one(label)


def replay(payload):
    res = Result()
    h = Harness(payload["type"])
    v = _value_for(h, payload["label"])
    check_value(h, payload["label"], v, res)
    return [{"signature": x["signature"], "summary": x["summary"]} for x in res.violations]
