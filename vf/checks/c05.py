"""C05  The incremental payload stream obeys the delivery protocol."""

from __future__ import annotations

import itertools

from vf.checks import c04
from vf.engine import incr
from vf.engine.choice import explore, run_once
from vf.engine.runner import Result
from vf.engine.vloop import Gate, Hang, Livelock, World, task_names
from vf.ref import incremental as refinc

ID = "C05"
BOUNDS = {
    "quick": "component level: every synthetic work graph with <=2 delivery groups (any parent relation) and either <=2 tasks (any non-empty group subset, sync/async, success/failure, optional nested group+task or nested stream) or 1 group, <=1 simple task + 1 root stream (15 scripts x capacity 1|2 x eager/lazy) x every order of task completions, stream steps and consumer pulls; end to end: the 20 C04 requests x faults x early execution x propagation x every completion order",
    "thorough": "(<=3 groups, <=3 tasks), (<=2 groups, <=2 tasks, 1 stream), (<=2 groups, <=1 task, 2 streams); early release <=1 end to end",
}
RULE = (
    "exhaustive within bounds: (1) the real WorkQueue + IncrementalPublisher + Computation + StreamItemQueue are driven with every small "
    "synthetic work graph and every order of the external events; (2) generated end-to-end requests under every explored schedule. The "
    "formatted payload sequence is judged by a protocol monitor written from the delivery format: ids announced exactly once and before use, "
    "never reused, incremental entries target pending ids and existing objects/lists, every announced id completed exactly once, a nested "
    "fragment never announced while its announced parent is pending, stream items in order without gap or repeat, hasNext true except on the "
    "last payload, nothing after it. distinct = distinct (graph, schedule, payload sequence)"
)
ASSUMPTIONS = [
    "synthetic graphs respect the construction rules of the executor: a task's groups form an antichain (never a fragment together with its ancestor), nested groups have a parent among the producing task's groups, group paths lie on one chain so that every task path is at or below the paths of all its groups",
    "verdicts are taken on the payloads produced by the real publisher; work-queue event batches are only logged",
]


def shards(tier):
    out = []
    # (max groups, max tasks, streams) families
    fams = [(2, 2, 0), (1, 1, 1)] if tier == "quick" else [(3, 3, 0), (2, 2, 1), (2, 1, 2)]
    for G, T, ns in fams:
        for g in range(1, G + 1):
            for parents in itertools.product(*[range(i + 1) for i in range(g)]):
                # parents[i] in 0..i : 0 = no parent, k = group k-1
                if parents[0] != 0:
                    continue
                out.append(("graph", (parents, ns, T)))
    for a in range(2):
        for b in range(3):
            for early in (False, True):
                out.append(("gen", (a, b, early)))
    for ri in range(len(c04.REQUESTS)):
        for si in range(len(c04.REQUESTS[ri][3])):
            for early in (False, True):
                for fi in range(len(incr.FAULTS)):
                    out.append(("e2e", (ri, si, early, fi)))
    return out


# --------------------------------------------------------------------------- component level

STREAM_SCRIPTS = [
    ["i", "i", "end"],
    ["i", "end"],
    ["f", "i", "end"],
    ["f", "f", "end"],
    ["i", "fail"],
    ["end"],
    ["fail"],
    ["i", "n", "end"],  # n: item carrying a nested deferred group
    ["f", "fail"],
    ["i", "f", "end"],
    ["i", "f", "i", "end"],
    ["i", "i", "f", "fail"],
    ["i", "f", "f", "end"],
    ["f", "i", "fail"],
    ["f", "f", "i", "fail"],
]
TASK_MODES = ["sync_ok", "async_ok", "sync_fail", "async_fail"]
NESTED = ["none", "group", "stream"]


class Ctx:
    abort_signal = None

    def __init__(self):
        self.hook = 0
        self.cancelled = 0

    def abort_error(self):
        return RuntimeError("aborted")

    async def cancel_incremental_work(self, reason=None):
        self.cancelled += 1

    def run_async_work_finished_hook(self):
        self.hook += 1


class TaskFailed(Exception):
    pass


def scenario_graph(c, parents, n_streams, T, stop=False, scripts=None):
    from graphql.execution.incremental.computation import Computation
    from graphql.execution.incremental.incremental_executor import (DeliveryGroup, ExecutionGroup, ExecutionGroupValue, ItemStream,
                                                                    StreamItemValue)
    from graphql.execution.incremental.incremental_publisher import IncrementalPublisher
    from graphql.execution.incremental.stream_item_queue import StreamItemQueue
    from graphql.execution.incremental.work_queue import Work, WorkResult
    from graphql.pyutils import Path

    desc = {"parents": list(parents), "tasks": [], "streams": []}
    with World() as w:
        # groups on one chain of paths: depth d -> path ['o'] * d
        groups = []
        depth = []
        for i, p in enumerate(parents):
            par = groups[p - 1] if p else None
            d = (depth[p - 1] + 1) if p else 0
            path = None
            for _ in range(d):
                path = Path(path, "o", None)
            groups.append(DeliveryGroup(path, f"g{i}", par))
            depth.append(d)
        maxd = max(depth) + 2
        data = cur = {}
        for _ in range(maxd):
            cur["o"] = {}
            cur = cur["o"]
        data["l"] = []
        data["l1"] = []
        for i in range(4):
            data[f"m{i}"] = []
        enclosing = {f"g{i}": f"g{p - 1}" for i, p in enumerate(parents) if p}

        def path_of(d):
            p = None
            for _ in range(d):
                p = Path(p, "o", None)
            return p

        counter = {"n": 0}

        def make_task(name, gidx, mode, nested, extra_groups=None):
            gs = [groups[i] for i in gidx]
            d = max(depth[i] for i in gidx)
            tpath = path_of(d)

            def value():
                work = None
                if nested == "group":
                    parent = gs[0]
                    child = DeliveryGroup(path_of(d + 1), f"{name}.c", parent)
                    enclosing[f"{name}.c"] = parent.label
                    ct = ExecutionGroup([child], Computation(lambda: WorkResult(ExecutionGroupValue([child], ["o"] * (d + 1), {f"{name}_c": 1}))), path_of(d + 1))
                    work = Work([child], [ct], [])
                elif nested == "stream":
                    q = make_queue(f"{name}.s", ["i", "end"], 2, False)
                    st = ItemStream(Path(None, "m" + name[1:], None), f"{name}.s", q, 0)
                    work = Work([], [], [st])
                return WorkResult(ExecutionGroupValue(gs, ["o"] * d, {name: 1}), work)

            def fn():
                if mode == "sync_ok":
                    return value()
                if mode == "sync_fail":
                    raise TaskFailed(name)
                if mode == "async_ok":
                    async def run():
                        await w.gate(name, None)
                        return value()
                    return run()

                async def run_fail():
                    await w.gate(name + "!", None)
                    raise TaskFailed(name)
                return run_fail()

            return ExecutionGroup(gs, Computation(fn), tpath)

        def make_queue(name, script, capacity, eager):
            async def produce(queue):
                n = 0
                for step in script:
                    if step == "end":
                        await w.gate(f"{name}:srcend", None, kind="src")
                        return
                    if step == "fail":
                        await w.gate(f"{name}:fail", None, kind="src")
                        raise TaskFailed(name)
                    await w.gate(f"{name}:src{n}", None, kind="src")
                    if step == "f":
                        fut = w.loop.create_future()
                        gname = f"{name}:item{n}"
                        w.gates.append(Gate(gname, fut, ("ok", WorkResult(StreamItemValue(n))), "res", len(w.gates)))
                        await queue.push(fut)
                    elif step == "n":
                        child = DeliveryGroup(Path(Path(None, "l", None), n, None), f"{name}.d{n}", None)
                        ct = ExecutionGroup([child], Computation(lambda child=child, n=n: WorkResult(ExecutionGroupValue([child], ["l", n], {"k": 1}))), child.path)
                        await queue.push(WorkResult(StreamItemValue({"n": n}), Work([child], [ct], [])))
                    else:
                        await queue.push(WorkResult(StreamItemValue(n)))
                    n += 1

            return StreamItemQueue(produce, None, eager, capacity)

        n_tasks = c.choose(T + 1, "n_tasks", cost=0)
        if n_tasks == 0 and n_streams == 0:
            return None  # no work at all: the executor would not build an incremental response
        tasks = []
        def ancestors(i):
            out = set()
            while parents[i]:
                i = parents[i] - 1
                out.add(i)
            return out

        # the executor never puts a field into a fragment and into one of its ancestors (parent filtering in
        # build_execution_plan): task group sets are antichains
        subsets = [s for r in range(1, len(groups) + 1) for s in itertools.combinations(range(len(groups)), r)
                   if not any(a in s for i in s for a in ancestors(i))]
        for t in range(n_tasks):
            sub = c.pick(subsets, f"t{t}.groups", cost=0)
            lean = n_streams > 0 and T <= 1  # quick tier: streams are explored next to one simple task
            mode = c.pick(["async_ok", "sync_fail"] if lean else TASK_MODES, f"t{t}.mode", cost=0)
            nested = c.pick(["none", "group"] if lean else NESTED, f"t{t}.nested", cost=0) if mode.endswith("ok") else "none"
            desc["tasks"].append({"groups": list(sub), "mode": mode, "nested": nested})
            tasks.append(make_task(f"t{t}", list(sub), mode, nested))
        streams = []
        for s in range(n_streams):
            script = c.pick(scripts or STREAM_SCRIPTS, f"s{s}.script", cost=0)
            cap = c.pick([1, 2], f"s{s}.capacity", cost=0)
            eager = c.flag(f"s{s}.eager", cost=0)
            desc["streams"].append({"script": script, "capacity": cap, "eager": eager})
            q = make_queue(f"s{s}", script, cap, eager)
            streams.append(ItemStream(Path(None, "l" if s == 0 else "l1", None), f"s{s}", q, 0))
        pub = IncrementalPublisher()
        ctx = Ctx()
        payloads = []
        trace = []
        status = "done"

        async def main():
            res = pub.build_response(data, None, Work(groups, tasks, streams), ctx)
            payloads.append(res.initial_result.formatted)
            it = res.subsequent_results
            while True:
                act = await w.gate("pull", None, kind="pull")
                if act == "close":
                    await it.aclose()
                    trace.append("closed")
                    return
                try:
                    p = await it.__anext__()
                except StopAsyncIteration:
                    return
                payloads.append(p.formatted)
                if len(payloads) > 40:
                    raise Livelock("payload stream does not end")

        t = w.task(main())
        stopped = False
        try:
            while not t.done():
                w.drain()
                if t.done():
                    break
                og = [g for g in w.gates if g.open]
                can_stop = stop and not stopped and any(g.kind == "pull" for g in og)
                if not og:
                    raise Hang("consumer waits, nothing can complete")
                k = c.choose(len(og) + (1 if can_stop else 0), "release", cost=0)
                if k == len(og):
                    stopped = True
                    trace.append("STOP:aclose")
                    next(g for g in og if g.kind == "pull").release(("ok", "close"))
                    continue
                trace.append(og[k].label)
                og[k].release()
            w.drain()
            if t.exception() is not None:
                status = "raised:" + repr(t.exception())
        except (Hang, Livelock) as e:
            status = "hang:" + str(e)
        if stop:
            # the outside world completes what it had started
            for _ in range(30):
                og = [g for g in w.gates if g.open and g.kind != "pull"]
                if not og:
                    break
                og[0].release()
                try:
                    w.drain()
                except Livelock:
                    break
        left = task_names(w.pending_tasks(exclude=(t,)))
    return {"desc": desc, "payloads": payloads, "trace": trace, "status": status, "left": left, "enclosing": enclosing, "hook": ctx.hook,
            "stopped": stopped, "cancelled": ctx.cancelled}


def check_graph(obs, res, c, parents, ns):
    if obs is None:
        return
    label = f"graph {obs['desc']} schedule {obs['trace']}"
    payload = {"mode": "graph", "parents": list(parents), "n_streams": ns, "T": len(obs["desc"]["tasks"]) or 1, "choices": list(c.choices)}
    res.evaluations += 1
    if obs["status"] != "done":
        res.violation("component_" + obs["status"].split(":")[0], f"{label}: {obs['status']}; payloads {incr.dumps(obs['payloads'])}", payload)
        return
    try:
        m = refinc.apply_payloads(obs["payloads"], obs["enclosing"])
    except refinc.ProtocolViolation as e:
        res.violation("protocol:" + e.signature, f"{label}: {e.detail}; payloads {incr.dumps(obs['payloads'])}", payload)
        return
    # stream items in list order without gaps or repeats
    for key in ("l", "l1", "m0", "m1", "m2", "m3"):
        lst = m.data.get(key) if isinstance(m.data, dict) else None
        if lst:
            vals = [x["n"] if isinstance(x, dict) else x for x in lst]
            if vals != list(range(len(vals))):
                res.violation("stream_items_out_of_order", f"{label}: list {key} assembled as {lst}", payload)
                return
    if obs["hook"] != 1:
        res.violation("finished_hook_count", f"{label}: work-finished hook ran {obs['hook']} times", payload)
        return
    res.outcome((repr(obs["desc"]), tuple(obs["trace"]), incr.dumps(obs["payloads"])))
    if len(res.samples) < 1 and len(obs["payloads"]) > 2:
        res.sample({"work_graph": obs["desc"], "schedule": obs["trace"], "payloads": obs["payloads"]})


# --------------------------------------------------------------------------- end to end


def run_e2e(arg, tier, res, only=None):
    from graphql import parse

    ri, si, early = arg[:3]
    only_fault = incr.FAULTS[arg[3]] if len(arg) > 3 else "ALL"
    name, text, enclosing, site_sets, varsets = c04.REQUESTS[ri]
    sites = site_sets[si]
    schema = incr.make_schema()
    cap = 60000 if tier == "quick" else 300000
    combos = [(f, v, np) for f in incr.FAULTS for v in (varsets or [None]) for np in (False, True)]
    for fault, variables, noprop in combos:
        if only_fault != "ALL" and fault != only_fault:
            continue
        t = c04.with_noprop(text) if noprop else text
        doc = incr.gparse(t)

        def scenario(c, ebound=False):
            return incr.run(c, schema, doc, sites, fault, early, early_bound=ebound, variables=variables)

        def visit(c, obs, fault=fault, variables=variables, noprop=noprop):
            label = f"{name} sites={sites} fault={fault} early_execution={early} noprop={noprop} vars={variables} schedule={obs.trace}"
            payload = {"mode": "e2e", "request": ri, "site_set": si, "early": early, "fault": fault, "variables": variables, "noprop": noprop,
                       "choices": list(c.choices)}
            res.evaluations += 1
            if obs.status != "done":
                res.violation("consumer_" + obs.status.split(":")[0], f"{label}: {obs.status} {obs.exc!r}", payload)
                return
            try:
                m = refinc.apply_payloads(obs.payloads, enclosing)
            except refinc.ProtocolViolation as e:
                res.violation("protocol:" + e.signature, f"{label}: {e.detail}; payloads {incr.dumps(obs.payloads)}", payload)
                return
            # stream items: the assembled lists are prefixes of the plain (non-propagating, fault-free source) lists
            ref = c04.plain_response(schema, text, fault, variables, True)
            for pe in m.announced:
                if "label" in pe and isinstance(pe.get("path"), list):
                    try:
                        got = refinc._get(m.data, pe["path"], "stream")
                        want = refinc._get(ref.get("data"), pe["path"], "stream")
                    except refinc.ProtocolViolation:
                        continue
                    if isinstance(got, list) and isinstance(want, list):
                        why = refinc.refines(got, want[: len(got)], list(pe["path"]), [list(pe["path"])])
                        if len(got) > len(want) or why:
                            res.violation("stream_items_out_of_order", f"{label}: list at {pe['path']} assembled as {got}, reference {want} ({why})", payload)
                            return
            res.outcome((name, tuple(obs.trace), incr.dumps(obs.payloads)))
            if len(res.samples) < 1 and len(obs.payloads) > 2:
                res.sample({"request": text, "schedule": obs.trace, "payloads": obs.payloads})

        if only is not None:
            if (fault, variables, noprop) != tuple(only[:3]):
                continue
            c, obs = run_once(lambda c: scenario(c, True), only[3])
            visit(c, obs)
            return
        st = explore(scenario, 0, visit, max_executions=cap)
        res.add_stats(st)
        if tier == "thorough" and st.executions <= 2500:
            st1 = explore(lambda c: scenario(c, True), 1, visit, max_executions=cap)
            res.add_stats(st1)


def run_shard(shard, tier):
    res = Result()
    kind, arg = shard
    if kind == "graph":
        parents, ns, T = arg

        def visit(c, obs):
            check_graph(obs, res, c, parents, ns)

        st = explore(lambda c: scenario_graph(c, parents, ns, T), 0, visit, max_executions=400000 if tier == "quick" else 3000000)
        res.add_stats(st)
        if st.pruned:
            res.notes.append(f"cap hit for graph family parents={parents} streams={ns}")
    elif kind == "gen":
        # generated @defer/@stream placements (shared with C04): only the protocol clauses are C05's business
        tmp = Result()
        c04.run_gen(arg, tier, tmp)
        keep = [v for v in tmp.violations if v["signature"].startswith(("protocol:", "consumer_"))]
        tmp.violations = keep
        tmp.extra.pop("violating_cases", None)
        res.merge(tmp)
    else:
        run_e2e(arg, tier, res)
    return res


def replay(payload):
    res = Result()
    if payload.get("gen"):
        return c04.replay(payload)
    if payload["mode"] == "graph":
        parents = tuple(payload["parents"])
        c, obs = run_once(lambda c: scenario_graph(c, parents, payload["n_streams"], 3), payload["choices"])
        check_graph(obs, res, c, parents, payload["n_streams"])
    else:
        run_e2e((payload["request"], payload["site_set"], payload["early"]), "thorough", res,
                only=(payload["fault"], payload["variables"], payload["noprop"], payload["choices"]))
    return [{"signature": v["signature"], "summary": v["summary"]} for v in res.violations]
