"""C09  Ignored tokens are ignored: layout never changes tokens or AST."""

from __future__ import annotations

import itertools

from vf.engine.choice import explore
from vf.engine.runner import Result
from vf.gen import grammar
from vf.ref import astshape
from vf.ref import lexer as ref

ID = "C09"
SIGMA = ["a", "1", "0", ".", "e", "-", '"', "\\", "#", "{", "(", ":", "\n", "\r", ",", " ", "\ufeff", "$", "..."]
BOUNDS = {
    "quick": "lexer vs lexical grammar on all strings <=4 over 19 symbols; documents with <=1 grammar deviation (4 parser-flag settings) x 9 ignored-sequences at every single boundary + uniform; single-char edits; max_tokens 0..n+1; 9 hand documents in which every literal kind is followed by every token kind",
    "thorough": "all strings <=5 over 19 symbols; documents with <=2 deviations; ignored-sequences at every single boundary, uniform and at every pair of boundaries for short documents; edits; max_tokens",
}
RULE = (
    "exhaustive: (1) every string up to length L over the lexical alphabet {a 1 0 . e - \" \\ # { ( : LF CR , SP BOM $ ...}: "
    "implementation token list (kind,start,end,value) equals the reference tokenizer's or both reject; "
    "(2) every grammar derivation within k deviations: each rewrite of the inter-token material parses to the same "
    "location-free AST, strip_ignored_characters is idempotent / value-preserving / rejects iff the source does not lex, "
    "max_tokens=n accepts iff n>=token count. distinct = distinct token-kind sequences / (document shape, rewrite class)"
)
ASSUMPTIONS = [
    "reference tokenizer written from the spec's lexical grammar (vf/ref/lexer.py) is the oracle for kinds, spans and values",
    "documents come from the grammar enumerator (vf/gen/grammar.py) within the deviation bound",
]
SEPS = ["", " ", "\t", ",", "\n", "\r\n", "\r", "\ufeff", "#c\n", " , \n#\r"]
EDIT = ["a", "1", ".", '"', "\\", "#", "\n", " ", "-", "e", "{", "$", "\ud83d", "\x00"]


# tokens whose adjacency is delicate (strings next to strings, numbers next to names / dots, spreads, punctuators)
ADJ_TOKENS = [("S", '""', ""), ("S", '"s"', "s"), ("B", '"""b"""', "b"), ("B", '""""""', ""), ("B", '"""\n  x\n"""', "x"), ("N", "a", "a"),
              ("I", "1", "1"), ("F", "1.5", "1.5"), ("I", "-1", "-1"), ("P", "...", None), ("P", "$", None), ("P", "{", None), ("P", ":", None),
              ("S", '"\\""', '"'), ("N", "e1", "e1")]
BLOCK_SIGMA = ["a", " ", "\n", '"', "\\", "\r"]


def _L(tier):
    return 4 if tier == "quick" else 5


# hand-written documents with every kind of literal next to every kind of following token (the grammar family reaches most of
# them only with >= 2 deviations); tokenised by the reference tokenizer
HAND_DOCS = [
    "{ f(a: 1.5, b: 1e3, c: -0.0E-2) }",
    "{ f(a: 1.5) g(b: [1.5, 2.5], c: {x: 1.5, y: 1e3}) }",
    "query ($v: Float = 1.5, $w: [Float] = [1.5 2.5]) { f(a: $v) @skip(if: true) }",
    "{ f(a: 1, b: \"s\", c: \"\"\"b\"\"\", d: true, e: null, g: E, h: $v, i: [1.5], j: {k: 1.5}) }",
    "type T { f(a: Float = 1.5, b: Int = 1, c: String = \"s\", d: [Float] = [1.5]): Int @d(x: 1.5) }",
    "directive @d(x: Float = 1.5 @e(y: 2.5)) on FIELD",
    "extend schema @d(x: 1.5) { query: Q }",
    "{ ...F @d(x: 1.5) ... on T @d(x: 1.5) { a } } fragment F on T @d(x: 1.5) { a }",
    "enum E { A @d(x: 1.5) B } input I { a: Float = 1.5 b: Float = 2.5 }",
]


def hand_tokens(src):
    rev = {v: k for k, v in KIND.items()}
    out = []
    for kind, a, b, val in ref.tokens(src):
        out.append((rev.get(kind, "P"), src[a:b], val if kind in rev else None))
    return out


def shards(tier):
    out = [("hand", i) for i in range(len(HAND_DOCS))]
    for i in range(len(SIGMA)):
        for j in (range(len(SIGMA)) if tier == "thorough" else [None]):
            out.append(("lex", (i, j)))
    out.append(("lexshort", None))
    for i in range(len(ADJ_TOKENS)):
        out.append(("tokseq", i))
    for i in range(len(BLOCK_SIGMA)):
        for j in range(len(BLOCK_SIGMA)):
            out.append(("blockstrip", (i, j)))
    k = 1 if tier == "quick" else 2
    for mode in ("executable", "typesystem", "extension", "mixed"):
        for fa, dd in ((False, False), (True, True), (True, False), (False, True)):
            kinds = grammar.kinds_for(mode, dd)
            if mode == "mixed" and tier == "quick":
                continue
            for ki in range(len(kinds)):
                out.append(("doc", (mode, fa, dd, ki, k)))
    return out


# ---------------------------------------------------------------------------


def impl_tokens(s):
    from graphql import GraphQLSyntaxError
    from graphql.language import Lexer, Source, TokenKind

    lx = Lexer(Source(s))
    out = []
    try:
        while True:
            t = lx.advance()
            if t.kind is TokenKind.EOF:
                if t.start != len(s) or t.end != len(s):
                    return ("BADEOF", t.start, t.end)
                return out
            out.append((t.kind.name, t.start, t.end, t.value))
    except GraphQLSyntaxError:
        return None
    except Exception as e:  # noqa: BLE001
        return ("EXC", type(e).__name__, str(e))


def check_lex(s, res, viol):
    want = ref.tokens(s)
    got = impl_tokens(s)
    res.evaluations += 1
    res.executions += 1
    if got != want:
        viol("lexer_vs_grammar", s, f"implementation {got!r} reference {want!r}")
        return None
    if got is not None:
        # spans disjoint, ordered, gaps ignored-only
        pos = 0
        for k, a, b, _v in got:
            if a < pos or b <= a:
                viol("token_spans", s, f"token {k} span {a}:{b} after {pos}")
                return None
            if not ref.is_ignored_only(s[pos:a]):
                viol("gap_not_ignored", s, f"gap {s[pos:a]!r} before token at {a}")
                return None
            pos = b
        if not ref.is_ignored_only(s[pos:]):
            viol("gap_not_ignored", s, f"trailing gap {s[pos:]!r}")
            return None
    return got


def check_strip(s, lexes, res, viol, expect_kv=None):
    from graphql import GraphQLSyntaxError
    from graphql.utilities import strip_ignored_characters

    res.evaluations += 1
    res.executions += 1
    try:
        out = strip_ignored_characters(s)
    except GraphQLSyntaxError:
        if lexes:
            viol("strip_rejects_lexable", s, "strip_ignored_characters raised on a source that lexes")
        return None
    except Exception as e:  # noqa: BLE001
        viol("strip_raises", s, f"{type(e).__name__}: {e}")
        return None
    if not lexes:
        viol("strip_accepts_unlexable", s, f"returned {out!r} for a source that does not lex")
        return None
    t1 = ref.tokens(s)
    t2 = ref.tokens(out)
    kv1 = [(k, v) for k, _a, _b, v in t1]
    if t2 is None or [(k, v) for k, _a, _b, v in t2] != kv1:
        viol("strip_changes_tokens", s, f"stripped {out!r} lexes to {t2!r}, original {t1!r}")
        return None
    try:
        out2 = strip_ignored_characters(out)
    except Exception as e:  # noqa: BLE001
        viol("strip_not_idempotent", s, f"second strip raised {type(e).__name__}: {e}")
        return None
    if out2 != out:
        viol("strip_not_idempotent", s, f"{out!r} -> {out2!r}")
        return None
    # minimality: no removable ignored material outside tokens
    pos = 0
    for i, (k, a, b, _v) in enumerate(t2):
        gap = out[pos:a]
        if gap not in ("", " "):
            viol("strip_not_minimal", s, f"gap {gap!r} in {out!r}")
            return None
        pos = b
    if out[pos:] != "":
        viol("strip_not_minimal", s, f"trailing {out[pos:]!r}")
        return None
    return out


def need_sep(a, b):
    return a[0] != "P" and (b[0] != "P" or b[1] == "...")


def render(tokens, seps):
    """seps[i] goes before token i; seps[len] after the last one."""
    parts = []
    for i, t in enumerate(tokens):
        parts.append(seps[i])
        parts.append(t[1])
    parts.append(seps[len(tokens)])
    return "".join(parts)


KIND = {"N": "NAME", "I": "INT", "F": "FLOAT", "S": "STRING", "B": "BLOCK_STRING"}


def expected_kv(tokens):
    out = []
    for k, text, val in tokens:
        if k == "P":
            out.append((ref.PUNCT.get(text, "SPREAD"), None))
        else:
            out.append((KIND[k], val))
    return out


def check_document(tokens, flags, tier, res, viol):
    from graphql import GraphQLSyntaxError, parse

    fa, dd = flags
    kw = dict(experimental_fragment_arguments=fa, experimental_directives_on_directive_definitions=dd)
    n = len(tokens)
    base_seps = [""] + [" "] * (n - 1) + [""]
    src0 = render(tokens, base_seps)
    # generator's expectation vs reference vs implementation
    want_kv = expected_kv(tokens)
    rt = ref.tokens(src0)
    if rt is None or [(k, v) for k, _a, _b, v in rt] != want_kv:
        res.notes.append("generator/reference disagreement (harness bug): " + src0[:80])
        raise AssertionError(f"generator and reference tokenizer disagree on {src0!r}: {rt!r} vs {want_kv!r}")
    got = check_lex(src0, res, viol)
    if got is None:
        return
    try:
        doc0 = parse(src0, no_location=True, **kw)
    except GraphQLSyntaxError as e:
        viol("generated_document_rejected", src0, f"grammar-derived document does not parse: {e.message}")
        return
    except Exception as e:  # noqa: BLE001
        viol("parse_raises", src0, f"{type(e).__name__}: {e}")
        return
    res.executions += 1
    shape0 = astshape.shape(doc0)
    tc = getattr(doc0, "token_count", None)
    res.evaluations += 1
    if tc != n:
        viol("token_count", src0, f"token_count {tc} but the document has {n} tokens")
        return

    def same(src, what):
        res.evaluations += 1
        res.executions += 1
        try:
            d = parse(src, no_location=True, **kw)
        except GraphQLSyntaxError as e:
            viol("rewrite_rejected", src, f"{what}: {e.message} (original {src0!r})")
            return False
        except Exception as e:  # noqa: BLE001
            viol("parse_raises", src, f"{what}: {type(e).__name__}: {e}")
            return False
        if astshape.shape(d) != shape0:
            viol("rewrite_changes_ast", src, f"{what}: AST differs from that of {src0!r}")
            return False
        if getattr(d, "token_count", None) != n:
            viol("token_count", src, f"{what}: token_count {d.token_count} != {n}")
            return False
        return True

    minimal = [""] + [" " if need_sep(tokens[i - 1], tokens[i]) else "" for i in range(1, n)] + [""]
    # uniform rewrites
    for s in SEPS:
        if s == "":
            seps = minimal
        else:
            seps = [s] * (n + 1)
        if not same(render(tokens, seps), f"uniform {s!r}"):
            return
    # single boundary
    for i in range(n + 1):
        for s in SEPS:
            seps = list(base_seps)
            if s == "":
                if 0 < i < n and need_sep(tokens[i - 1], tokens[i]):
                    continue
                seps[i] = ""
            else:
                seps[i] = s
            if seps == base_seps:
                continue
            if not same(render(tokens, seps), f"boundary {i} {s!r}"):
                return
    # pairs of boundaries (thorough, short documents)
    if tier == "thorough" and n <= 12:
        pair_seps = [",", "\n", "#c\r", "\ufeff"]
        for i, j in itertools.combinations(range(n + 1), 2):
            for s1 in pair_seps:
                for s2 in pair_seps:
                    seps = list(minimal)
                    seps[i] = s1
                    seps[j] = s2
                    if not same(render(tokens, seps), f"boundaries {i},{j} {s1!r},{s2!r}"):
                        return
    # strip_ignored_characters on three layouts
    for seps in (base_seps, [" , \n#\r"] * (n + 1), minimal):
        src = render(tokens, seps)
        out = check_strip(src, True, res, viol)
        if out is None:
            return
        if out != render(tokens, minimal) and not any(t[0] == "B" for t in tokens):
            viol("strip_not_canonical", src, f"stripped {out!r} expected {render(tokens, minimal)!r}")
            return
        if not same(out, "stripped"):
            return
    # max_tokens
    for m in range(0, n + 2):
        res.evaluations += 1
        res.executions += 1
        try:
            parse(src0, no_location=True, max_tokens=m, **kw)
            ok = True
        except GraphQLSyntaxError:
            ok = False
        if ok != (m >= n):
            viol("max_tokens", src0, f"max_tokens={m} {'accepted' if ok else 'rejected'} a document of {n} tokens")
            return
    # single-character edits of the minimal and the spaced text: lexer vs reference, strip iff lexes
    for src in (src0,) if tier == "quick" else (src0, render(tokens, minimal)):
        for pos in range(len(src) + 1):
            for ch in EDIT:
                for op in (0, 1):  # insert, substitute
                    if op == 1 and pos == len(src):
                        continue
                    m = src[:pos] + ch + src[pos + op :]
                    g = check_lex(m, res, viol)
                    if g is None and ref.tokens(m) is not None:
                        return
                    if (pos + len(ch)) % 4 == 0:
                        check_strip(m, ref.tokens(m) is not None, res, viol)
    res.outcome((tuple(k for k, _v in want_kv), flags))


def run_shard(shard, tier):
    res = Result()
    kind, arg = shard
    mode = {"m": "lex"}

    def viol(sig, s, summary):
        res.violation(sig, f"source {s!r}: {summary}", {"mode": mode["m"], "source": s, "flags": mode.get("flags"), "tokens": mode.get("tokens")})

    if kind == "hand":
        toks = hand_tokens(HAND_DOCS[arg])
        mode["m"] = "doc"
        mode["flags"] = [True, True]
        mode["tokens"] = [list(t) for t in toks]
        check_document(toks, (True, True), tier, res, viol)
        res.states += 1
        res.transitions += len(toks)
    elif kind == "lexshort":
        for n in range(0, 2 if tier == "quick" else 3):
            for tup in itertools.product(SIGMA, repeat=n):
                s = "".join(tup)
                g = check_lex(s, res, viol)
                check_strip(s, ref.tokens(s) is not None, res, viol)
                res.states += 1
                res.transitions += 1
                if g:
                    res.outcome(tuple(t[0] for t in g))
    elif kind == "tokseq":
        # every sequence of <= 3 (thorough 4) delicate tokens: spaced, with minimal separators, stripped
        first = ADJ_TOKENS[arg]
        mode["m"] = "lex"
        for n in range(0, 3 if tier == "quick" else 4):
            for tup in itertools.product(ADJ_TOKENS, repeat=n):
                toks = (first,) + tup
                want = expected_kv(toks)
                minimal = [""] + [" " if need_sep(toks[i - 1], toks[i]) else "" for i in range(1, len(toks))] + [""]
                for seps in ([""] + [" "] * (len(toks) - 1) + [""], minimal, [","] * (len(toks) + 1)):
                    src = render(toks, seps)
                    res.states += 1
                    res.transitions += 1
                    rt = ref.tokens(src)
                    if rt is None or [(k, v) for k, _a, _b, v in rt] != want:
                        raise AssertionError(f"harness: reference tokenizer disagrees with the token list for {src!r}")
                    if check_lex(src, res, viol) is None:
                        break
                    out = check_strip(src, True, res, viol)
                    if out is None:
                        break
                    res.outcome(tuple(k for k, _v in want))
        res.sample({"tokens": [t[1] for t in ADJ_TOKENS[:4]], "family": "token sequences"}, 1)
    elif kind == "blockstrip":
        # every block-string body over a small alphabet through strip_ignored_characters:
        # the minimised block string must keep its value (reference BlockStringValue)
        i, j = arg
        LB = 6 if tier == "quick" else 7
        nsym = 5 if tier == "quick" else 6
        if i >= nsym or j >= nsym:
            return res
        for n in range(0, LB - 1):
            for tup in itertools.product(BLOCK_SIGMA[:nsym], repeat=n):
                body = BLOCK_SIGMA[i] + BLOCK_SIGMA[j] + "".join(tup)
                bodies = [body] if n else [body, BLOCK_SIGMA[i]] + ([""] if i == 0 and j == 0 else [])
                for b in bodies:
                    for s in ('"""' + b + '"""', 'x """' + b + '""" y'):
                        res.states += 1
                        res.transitions += 1
                        lexes = ref.tokens(s) is not None
                        check_lex(s, res, viol)
                        check_strip(s, lexes, res, viol)
        res.sample({"source": '"""\na\n\n b"""', "check": "strip keeps the block string value"})
    elif kind == "lex":
        i, j = arg
        L = _L(tier)
        pre = SIGMA[i] + (SIGMA[j] if j is not None else "")
        plen = 1 if j is None else 2
        for n in range(1 if plen == 1 else 1, L - plen + 1):
            for tup in itertools.product(SIGMA, repeat=n):
                s = pre + "".join(tup)
                g = check_lex(s, res, viol)
                res.states += 1
                res.transitions += 1
                if g is not None or ref.tokens(s) is None:
                    if (len(s) + ord(s[-1])) % 3 == 0 or g:
                        check_strip(s, g is not None, res, viol)
                if g:
                    res.outcome(tuple(t[0] for t in g))
        if i == 0 and not j:
            res.sample({"source": 'a"\\', "reference": None})
            res.sample({"source": "1e1 ...", "reference": repr(ref.tokens("1e1 ..."))})
    else:
        gmode, fa, dd, ki, k = arg
        kinds = grammar.kinds_for(gmode, dd)
        mode["m"] = "doc"
        mode["flags"] = [fa, dd]

        def scenario(c):
            g = grammar.Gen(c, frag_args=fa, dir_on_dir=dd)
            return g.document(kinds)

        def visit(c, tokens):
            mode["tokens"] = [list(t) for t in tokens]
            check_document(tokens, (fa, dd), tier, res, viol)
            if c.deviations == k and len(res.samples) < 1:
                res.sample({"document": grammar.text_of(tokens), "choices": list(c.choices)})

        st = explore(scenario, k, visit, root=(ki,))
        res.add_stats(st)
    return res


def replay(payload):
    res = Result()
    out = []

    def viol(sig, s, summary):
        out.append({"signature": sig, "summary": f"source {s!r}: {summary}"})

    if payload["mode"] == "lex":
        s = payload["source"]
        check_lex(s, res, viol)
        check_strip(s, ref.tokens(s) is not None, res, viol)
    else:
        toks = [tuple(t) for t in payload["tokens"]]
        check_document(toks, tuple(payload["flags"]), "quick", res, viol)
    return out
