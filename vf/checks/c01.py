"""C01  The request pipeline is total: bad input becomes errors, never a crash."""

from __future__ import annotations

import asyncio
import builtins
import itertools
import sys

from vf.engine.runner import Result
from vf.ref import lexer as reflex
from vf.ref import respformat

ID = "C01"
SIGMA = ["{", "}", "(", ")", ":", '"', "\\", "u", "1", "a", ".", "-", "#", "\n", " ", "$", "'", "\ufeff",
         "\ud83d", "\udc00", "[", "@", "!", "e", "0"]
EDIT = ["{", "}", "(", '"', "\\", "u", "1", "a", ".", "-", "#", "\n", "$", "\ud83d", "\udc00", "\x00", "[", "@", "!", ":", "="]
BOUNDS = {
    "quick": "width family: 18 flat document shapes at sizes 1..2500 under the default recursion limit; all strings <=4 over 25 symbols x 5 parsing entry points; every prefix and every single edit (3 ops x 21 symbols x every position) of 2 kitchen-sink files and 30 hand seeds; nesting depth 1..100 x 6 productions complete and cut at every depth; 320 sources x 14 variable maps x 5 operation names through graphql_sync; every builtin Exception class + 190 attribute-shape classes (7 duck-typed attributes x 19 values, source x positions pairs) x 8 raise positions x sync/async; every ordered pair of 44 escape forms (fixed-width and braced unicode escapes at every surrogate / plane boundary, simple and invalid escapes, raw surrogates) in a string, alone and as an argument, cut at every position, value compared with the reference tokenizer; structured request matrix: 12 selection contexts (3 operation types, object/list/union/interface parents, fragments) x 21 directive targets (every meta field, every field kind, inline/named spreads) x 92 directive forms (7 directive arguments x 11 value forms, repeats, unknown) x variable definitions x variable maps, against a schema with @defer/@stream (all contexts) and without (3 contexts; all in the thorough tier); 10 typed variables x 18 runtime values x 20 map keys (case-mapping-length-changing, surrogate, non-str) at 5 nesting positions",
    "thorough": "strings <=5 over 25 symbols; double edits on hand seeds <=25 chars (10 symbols)",
}
RULE = (
    "exhaustive within bounds: every string up to length L over the lexical alphabet through parse / parse_value / parse_const_value / "
    "parse_type / parse_schema_coordinate (returns or raises GraphQLSyntaxError and nothing else; sources that do not lex per the reference "
    "tokenizer must be rejected); every truncation and every single edit of the seed corpus; every nesting depth 1..100; requests through "
    "graphql_sync must return an ExecutionResult that satisfies the response-format checker; resolver exceptions of every builtin class at "
    "every position must surface as exactly one located error. distinct = distinct (entry point, outcome class / error message) observations"
)
ASSUMPTIONS = [
    "exception classes whose __str__ raises are outside the alphabet (there is no message to surface); BaseException-only classes must propagate",
    "reference tokenizer (vf/ref/lexer.py) decides 'does not lex'",
    "a schema that itself defines @defer/@stream is refused by execute()/graphql() by design (GraphQLError about experimental directives): "
    "requests against such a schema go through parse + validate + experimental_execute_incrementally, the stages of graphql_impl",
]

SCHEMA_SDL = """
type Query {
  f(a: String, i: Int, l: [Int!], o: In, e: E, b: Boolean, id: ID, fl: Float): String
  q: Query
  l: [Query]
  n: Int!
}
input In { x: Int = 1, y: [In!], z: String! = "d" }
enum E { A B }
type Mutation { m(a: Int): Int }
type Subscription { s: Int }
"""

HAND_SEEDS = [
    '{ f(a: "x") }',
    '{ f(a: "\\u00e9\\n\\t\\"\\\\\\/\\b\\f\\r") }',
    '{ f(a: "\\u{1F600}") }',
    '{ f(a: "\\uD83D\\uDE00") }',
    '{ f(a: """b\\"""l\n  k""") }',
    '{ f(i: -12, fl: 1.5e+3) }',
    '{ f(i: 0, fl: -0.0E-2) }',
    "{ f(l: [1, 2], o: {x: 1, y: [{z: \"s\"}]}) }",
    "query Q($v: Int = 1, $w: [In!]) @skip(if: true) { f(i: $v, o: {y: $w}) }",
    "{ ...F ... on Query { f } ... @include(if: true) { f } } fragment F on Query { q { f } }",
    "# comment\n{ f }\n# end",
    "\ufeff{ f(e: A, b: true, id: null) }",
    "mutation M { m(a: 1) }",
    "subscription S { s }",
    "{ a: f b: f q { l { n } } }",
    'type T implements I & J @d(a: 1) { "d" f(a: Int = 1): [T!]! }',
    'extend schema @d { query: Q }',
    'directive @d(a: Int) repeatable on FIELD | QUERY',
    'enum E { A @deprecated(reason: "r") B }',
    'input I { a: [Int!]! = [1] }',
    'union U = | A | B',
    '"""d""" scalar S @specifiedBy(url: "u")',
    "{ f(a: $v) }",
    "{ f(o: {x: $v}) }",
    "query ($v: Int!) { f(i: $v) }",
    "{ __typename __schema { types { name } } __type(name: \"Q\") { kind } }",
    "{\n  f\n}\n\n{\n  q { f }\n}",
    "query A { f } query B { q { f } }",
    "{ q { q { q { f } } } l { l { n } } }",
    "{ f(a: \"\\",
    "mutation { ...F } fragment F on Mutation { m ...F }",
    "subscription { ...F } fragment F on Subscription { ...G } fragment G on Subscription { s ...F }",
    "{ ...F } fragment F on Query { f ...F }",
]
VALUE_SEEDS = ['"x"', "[1, {a: $v}]", '{a: "\\u{1F600}", b: [null, true, E]}', '"""b"""', "-1.5e3", "$v"]
TYPE_SEEDS = ["[[Int!]]!", "T", "[T]!"]
COORD_SEEDS = ["T", "T.f", "T.f(a:)", "@d", "@d(a:)"]


STRING_ENTRIES = ["parse", "parse_value", "parse_const_value", "parse_type", "parse_schema_coordinate"]


def shards(tier):
    out = []
    n = len(SIGMA)
    for i in range(n):
        if tier == "quick":
            out.append(("strings", (i, None)))
        else:
            for j in range(n):
                out.append(("strings", (i, j)))
    out.append(("short", None))
    for seed in ("ks", "sks"):
        for part in range(8):
            out.append(("edits", (seed, part, 8)))
    out.append(("edits", ("hand", 0, 1)))
    if tier == "thorough":
        for i in range(len(HAND_SEEDS)):
            out.append(("edits2", i))
    for prod in range(6):
        out.append(("nest", prod))
    for wi in range(len(WIDTH)):
        out.append(("width", wi))
    for part in range(8):
        out.append(("requests", (part, 8)))
    for part in range(4):
        out.append(("resolvers", (part, 4)))
    for ci in range(len(MX_CONTEXTS)):
        for with_incr in (False, True):
            if tier == "quick" and not with_incr and ci not in (0, 2, 5):
                continue  # quick: the plain schema (graphql_sync itself) for the query root, subscription root and union contexts
            out.append(("matrix", (ci, with_incr)))
    out.append(("varkeys", None))
    for i in range(len(ESCAPES)):
        out.append(("escapes", i))
    return out


# --------------------------------------------------------------------------- parsers

_entry = None


def entries():
    global _entry
    if _entry is None:
        from graphql import parse, parse_const_value, parse_type, parse_value
        from graphql.language import parse_schema_coordinate

        _entry = [
            ("parse", parse, True),
            ("parse_value", parse_value, True),
            ("parse_const_value", parse_const_value, True),
            ("parse_type", parse_type, True),
            ("parse_schema_coordinate", parse_schema_coordinate, False),
            ("parse+frag_args", lambda s: parse(s, experimental_fragment_arguments=True,
                                                  experimental_directives_on_directive_definitions=True), True),
        ]
    return _entry


def check_parsers(s, res, viol, which=None, lexes=None):
    from graphql import GraphQLSyntaxError

    if lexes is None:
        lexes = reflex.tokens(s) is not None
    for name, fn, uses_lexer in entries():
        if which is not None and name not in which:
            continue
        res.evaluations += 1
        res.executions += 1
        try:
            fn(s)
            ok = True
        except GraphQLSyntaxError as e:
            ok = False
            try:
                str(e)
                f = e.formatted
                if not isinstance(e.message, str) or not f.get("locations"):
                    viol("syntax_error_malformed", s, f"{name}: {f!r}")
                    return False
            except Exception as x:  # noqa: BLE001
                viol("syntax_error_unrenderable", s, f"{name}: {type(x).__name__}: {x}")
                return False
        except RecursionError:
            viol("parser_recursion", s[:60], f"{name}: RecursionError at length {len(s)}")
            return False
        except Exception as x:  # noqa: BLE001
            viol(f"parser_raises_{type(x).__name__}", s, f"{name} raised {type(x).__name__}: {x}")
            return False
        if ok and uses_lexer and not lexes:
            viol("unlexable_source_accepted", s, f"{name} accepted a source that does not lex")
            return False
        res.outcome((name, ok))
    return True


# --------------------------------------------------------------------------- requests

_schema = None


def schema():
    global _schema
    if _schema is None:
        from graphql import build_schema

        _schema = build_schema(SCHEMA_SDL)
    return _schema


def variables_menu():
    from graphql.pyutils import Undefined

    return [
        ("none", None), ("empty", {}), ("v_int", {"v": 1}), ("v_str", {"v": "s"}), ("v_null", {"v": None}),
        ("extra", {"zz": 1}), ("nested_wrong", {"w": [{"x": "s"}]}), ("nested_ok", {"w": [{"z": "s"}]}),
        ("huge", {"v": 10 ** 400}), ("nan", {"v": float("nan")}), ("undefined", {"v": Undefined}),
        ("list", {"v": [1, 2]}), ("obj", {"v": {"a": 1}}), ("bool", {"v": True}),
    ]


OPNAMES = [None, "", "Q", "Nope", "q", "A"]


def root_value():
    inner = {"f": "s", "n": 1, "q": None, "l": None}
    inner2 = {"f": "t", "n": None, "q": dict(inner), "l": [dict(inner), None]}
    return {"f": "r", "n": 2, "q": inner2, "l": [inner2, inner2], "m": 3, "s": 4}


def check_request(src, vname, variables, opname, res, viol):
    from graphql import ExecutionResult, graphql_sync

    res.evaluations += 1
    res.executions += 1
    try:
        r = graphql_sync(schema(), src, root_value(), variable_values=variables, operation_name=opname)
    except RecursionError:
        viol("request_recursion", src[:80], f"variables={vname} operation={opname!r}: RecursionError")
        return False
    except Exception as x:  # noqa: BLE001
        viol(f"request_raises_{type(x).__name__}", src, f"variables={vname} operation={opname!r}: {type(x).__name__}: {x}")
        return False
    if not isinstance(r, ExecutionResult):
        viol("request_returns_non_result", src, f"{type(r).__name__}")
        return False
    probs = respformat.check_result(r)
    if probs:
        viol("response_malformed:" + probs[0].split(":")[0][:40], src, f"variables={vname} operation={opname!r}: {probs}")
        return False
    msg = r.errors[0].message if r.errors else None
    res.outcome(("req", r.data is None, msg and msg[:40]))
    return True


# --------------------------------------------------------------------------- resolver exceptions

RES_SCHEMA = """
type Query { root: Int obj: Obj nn: Obj list: [Int] nnlist: [Int!] iface: Iface isty: Iface aiter: [Int] }
type Obj { leaf: Int nonnull: Int! }
interface Iface { x: Int }
type Impl implements Iface { x: Int }
type Other implements Iface { x: Int }
"""


def exception_menu():
    """(label, factory) for every Exception subclass in builtins + attribute-shape user classes."""
    out = []
    for name in sorted(vars(builtins)):
        cls = getattr(builtins, name)
        if not (isinstance(cls, type) and issubclass(cls, Exception)):
            continue
        if name in ("UnicodeDecodeError",):
            out.append((name, lambda: UnicodeDecodeError("utf-8", b"\xff", 0, 1, "bad")))
        elif name == "UnicodeEncodeError":
            out.append((name, lambda: UnicodeEncodeError("ascii", "\u00e9", 0, 1, "bad")))
        elif name == "UnicodeTranslateError":
            out.append((name, lambda: UnicodeTranslateError("\u00e9", 0, 1, "bad")))
        else:
            try:
                cls("m")
                out.append((name, lambda cls=cls: cls("m")))
            except Exception:  # noqa: BLE001
                try:
                    cls()
                    out.append((name, lambda cls=cls: cls()))
                except Exception:  # noqa: BLE001
                    pass
    from graphql import GraphQLError, Source
    from graphql.language import parse

    node = parse("{ zz }").definitions[0]

    def user(label, **attrs):
        def mk():
            cls = type("User_" + label, (Exception,), {})
            e = cls("user " + label)
            for k, v in attrs.items():
                setattr(e, k, v)
            return e

        out.append(("user:" + label, mk))

    user("plain")
    user("message_str", message="custom message")
    user("message_int", message=42)
    user("message_none", message=None)
    user("extensions_dict", extensions={"code": "X"})
    user("extensions_list", extensions=["a"])
    user("extensions_str", extensions="ext")
    user("extensions_none", extensions=None)
    user("path_list", path=["p", 1])
    user("path_str", path="path")
    user("locations_junk", locations="here")
    user("positions_list", positions=[1])
    user("positions_junk", positions="abc")
    user("positions_oor", positions=[10 ** 6], source="{ x }")
    user("source_str", source="{ x }", positions=[2])
    user("source_junk", source=42)
    user("nodes_ast", nodes=[node])
    user("nodes_single", nodes=node)
    user("nodes_strs", nodes=["a", "b"])
    user("nodes_int", nodes=3)
    user("nodes_empty", nodes=[])
    # systematic: every attribute the library reads by duck typing x a value menu, and source x positions pairs
    # (positions are only looked at when a source is present)
    vals = [("none", None), ("zero", 0), ("five", 5), ("float", 1.5), ("neg", -1), ("str", "abc"), ("ints", [1]), ("negs", [-1]), ("floats", [1.5]),
            ("nones", [None]), ("tuples", [(1, 2)]), ("dict", {"a": 1}), ("set", {1}), ("node_tuple", (node,)), ("node_list", [node]), ("node", node),
            ("source_obj", Source("{ x }")), ("bool_list", [True]), ("big", [10 ** 30])]
    for attr in ("message", "extensions", "path", "locations", "positions", "source", "nodes"):
        for vn, v in vals:
            user(f"{attr}={vn}", **{attr: v})
    for sn, sv in (("str", "abc"), ("two_lines", "abc\ndef"), ("obj", Source("{ x }")), ("empty", "")):
        for vn, v in vals:
            user(f"source={sn}+positions={vn}", source=sv, positions=v)
    out.append(("GraphQLError+node_tuple", lambda: GraphQLError("gql", (node,))))
    out.append(("GraphQLError", lambda: GraphQLError("gql")))
    out.append(("GraphQLError+path", lambda: GraphQLError("gql", path=["other", 0])))
    out.append(("GraphQLError+node", lambda: GraphQLError("gql", node)))
    out.append(("GraphQLError+positions_oor", lambda: GraphQLError("gql", source=Source("{ x }"), positions=[999])))
    out.append(("GraphQLError+extensions", lambda: GraphQLError("gql", extensions={"k": object.__name__})))
    out.append(("ExceptionGroup", lambda: ExceptionGroup("g", [ValueError("v")])))
    return out


POSITIONS = ["root", "nested", "nonnull", "listitem", "nnlistitem", "resolve_type", "is_type_of", "anext"]


def run_resolver_case(label, factory, position, mode, res, viol):
    """mode: 'sync' | 'async'."""
    from graphql import ExecutionResult, GraphQLObjectType, build_schema, execute, execute_sync, graphql, graphql_sync, parse

    sch = build_schema(RES_SCHEMA)
    exc_holder = []

    def boom(*_a, **_k):
        e = factory()
        exc_holder.append(e)
        raise e

    async def aboom(*_a, **_k):
        e = factory()
        exc_holder.append(e)
        raise e

    raiser = boom if mode == "sync" else aboom
    q = sch.query_type
    query = None
    want_path = None
    root = {}
    if position == "root":
        q.fields["root"].resolve = raiser
        query, want_path = "{ root }", ["root"]
    elif position == "nested":
        sch.type_map["Obj"].fields["leaf"].resolve = raiser
        root = {"obj": {}}
        query, want_path = "{ obj { leaf } }", ["obj", "leaf"]
    elif position == "nonnull":
        sch.type_map["Obj"].fields["nonnull"].resolve = raiser
        root = {"obj": {}}
        query, want_path = "{ obj { nonnull } }", ["obj", "nonnull"]
    elif position in ("listitem", "nnlistitem"):
        fname = "list" if position == "listitem" else "nnlist"
        if mode == "sync":
            def gen(*_a):
                yield 1
                boom()
            q.fields[fname].resolve = lambda *_a: gen()
            want_path = [fname]
        else:
            q.fields[fname].resolve = lambda *_a: [1, aboom()]
            want_path = [fname, 1]
        query = "{ %s }" % fname
    elif position == "resolve_type":
        sch.type_map["Iface"].resolve_type = raiser
        root = {"iface": {"x": 1}}
        query, want_path = "{ iface { x } }", ["iface"]
    elif position == "is_type_of":
        sch.type_map["Impl"].is_type_of = raiser
        sch.type_map["Other"].is_type_of = lambda *_a: False
        root = {"isty": {"x": 1}}
        query, want_path = "{ isty { x } }", ["isty"]
    elif position == "anext":
        if mode == "sync":
            return True

        class It:
            def __init__(self):
                self.n = 0

            def __aiter__(self):
                return self

            async def __anext__(self):
                self.n += 1
                if self.n == 1:
                    return 1
                await aboom()

        q.fields["aiter"].resolve = lambda *_a: It()
        query, want_path = "{ aiter }", ["aiter"]
    res.evaluations += 1
    res.executions += 1
    try:
        if mode == "sync":
            r = graphql_sync(sch, query, root)
        else:
            async def main():
                return await graphql(sch, query, root)
            r = asyncio.run(main())
    except Exception as x:  # noqa: BLE001
        viol(f"resolver_exception_escapes:{position}", f"{label} at {position} ({mode})", f"{type(x).__name__}: {x}")
        return False
    if not isinstance(r, ExecutionResult):
        viol("request_returns_non_result", f"{label} at {position}", type(r).__name__)
        return False
    probs = respformat.check_result(r)
    if label.startswith("GraphQLError+path"):
        # the resolver supplied its own path; the library reports it as given
        probs = [p for p in probs if "path" not in p]
    if probs:
        viol("response_malformed:" + probs[0].split(":")[0][:40], f"{label} at {position} ({mode})", f"{probs}")
        return False
    if label == "StopAsyncIteration" and position == "anext":
        return True
    errs = r.errors or []
    if len(errs) != 1:
        viol("resolver_error_count", f"{label} at {position} ({mode})", f"{len(errs)} errors: {errs!r}")
        return False
    e = errs[0]
    if not label.startswith("GraphQLError+path"):
        if (e.path or [])[: len(want_path)] != want_path:
            viol("resolver_error_path", f"{label} at {position} ({mode})", f"path {e.path!r}, expected {want_path!r}")
            return False
    if not e.locations and not label.startswith("GraphQLError+path"):
        viol("resolver_error_not_located", f"{label} at {position} ({mode})", f"{e!r}")
        return False
    if exc_holder and e.original_error is not exc_holder[0] and e is not exc_holder[0]:
        # Python converts StopIteration/StopAsyncIteration raised inside coroutines/generators to RuntimeError
        if not (label in ("StopIteration", "StopAsyncIteration")):
            viol("resolver_error_not_the_original", f"{label} at {position} ({mode})", f"original_error {e.original_error!r}")
            return False
    # the error is located at the field that failed - unless the exception brings a location of its own (AST nodes, or a source
    # together with offsets into it, or it is a GraphQLError); an unrelated 'source' attribute alone must not move it
    own_location = (label.startswith("GraphQLError") or "nodes=node" in label or label in ("user:nodes_ast", "user:nodes_single", "user:positions_oor", "user:source_str")
                    or label.endswith("+positions=ints") or label.endswith("+positions=big"))
    locs = [(loc.line, loc.column) for loc in e.locations or []]
    key = (position, mode)
    if label == "user:plain":
        _FIELD_LOCATION[key] = locs
    elif not own_location and key in _FIELD_LOCATION and locs != _FIELD_LOCATION[key]:
        viol("resolver_error_location", f"{label} at {position} ({mode})", f"located at {locs}, the failing field is at {_FIELD_LOCATION[key]}")
        return False
    res.outcome(("res", position, mode, type(e.original_error).__name__, r.data is None))
    return True


_FIELD_LOCATION = {}


# --------------------------------------------------------------------------- escape sequences

_HEX4 = ["0000", "0041", "007f", "D7FF", "D800", "D83D", "DBFF", "DC00", "DE00", "DFFF", "E000", "FFFD", "FFFF", "dbff", "12"]
_BRACED = ["0", "41", "D7FF", "D800", "DBFF", "DC00", "DFFF", "E000", "10000", "1F600", "10FFFF", "110000", "00000041", "FFFFFFFFF", "", "G"]
ESCAPES = (["\\u" + h for h in _HEX4] + ["\\u{" + h + "}" for h in _BRACED]
           + ["\\n", '\\"', "\\\\", "\\/", "\\x", "\\u", "\\u{", "\\", "a", "\ud83d", "\udc00", "\n", ""])


def run_escapes(i, tier, res, viol):
    """Every ordered pair (triple in the thorough tier) of escape forms inside a string, and every truncation of it."""
    from graphql import GraphQLSyntaxError, parse_value

    first = ESCAPES[i]
    thirds = ESCAPES if tier == "thorough" else [""]
    n = 0
    for second in ESCAPES:
        for third in thirds:
            body = first + second + third
            for full in ('"' + body + '"', '{ f(a: "' + body + '") }'):
                for cut in range(1, len(full) + 1):
                    s = full[:cut]
                    if not check_parsers(s, res, viol, ["parse", "parse_value"]):
                        break
                    n += 1
            # the value of the literal is the reference tokenizer's value
            src = '"' + body + '"'
            toks = reflex.tokens(src)
            if toks is not None and len(toks) == 1 and toks[0][0] == "STRING":
                res.evaluations += 1
                try:
                    got = parse_value(src).value
                except GraphQLSyntaxError:
                    continue  # reported by check_parsers as the reference accepts... only if it does not lex
                if got != toks[0][3]:
                    viol("string_value_differs", src, f"parse_value gives {got!r}, reference tokenizer {toks[0][3]!r}")
            res.states += 1
    res.transitions += n
    res.count("escape_sources", n)
    if i == 5:
        res.sample({"string_body": first + ESCAPES[7], "sources": "the string alone and as an argument, cut at every position"})


# --------------------------------------------------------------------------- structured request matrix

MX_SDL = """
type Query { f(a: String, i: Int, l: [Int!], o: In, e: E, b: Boolean): String q: Query l: [Query] n: Int! u: U i: I ls: [String] }
union U = Query | Other
interface I { x: Int }
type Other implements I { x: Int ls: [Int] }
input In { x: Int = 1, y: [In!], z: String! = "d", abc: Int, abcd: Int }
input One @oneOf { a: Int, b: String, abc: Int }
enum E { A B }
type Mutation { m(a: Int): Int q: Query }
type Subscription { s: Int q: Query }
"""
# (operation keyword, selection-set prefix, suffix): the slot sits where %s is
MX_CONTEXTS = [
    ("query", "%s", ""), ("mutation", "%s", ""), ("subscription", "%s", ""),
    ("query", "q { %s }", ""), ("query", "l { %s }", ""), ("query", "u { %s }", ""), ("query", "i { %s }", ""),
    ("subscription", "q { %s }", ""), ("subscription", "...F", " fragment F on Subscription { %s }"),
    ("query", "...F", " fragment F on Query { %s }"), ("query", "u { ...F }", " fragment F on Other { %s }"),
    ("mutation", "q { u { %s } }", ""),
]
MX_VALUES = ["true", "false", "1", "null", '"x"', "$v", "$nope", "[true]", "{a: 1}", "A", "1.5"]
MX_DIRECTIVES = (
    ["", "@nope", "@deprecated", "@oneOf", "@skip", "@defer", "@stream", "@skip(if: true) @skip(if: false)",
     "@defer @defer", "@stream @stream", '@defer(label: "a") @stream(label: "a")', "@defer(nope: 1)", "@stream(initialCount: -1)",
     "@stream(initialCount: 1, if: $v)", "@specifiedBy(url: 1)"]
    + [f"@{d}({a}: {v})" for d, a in (("skip", "if"), ("include", "if"), ("defer", "if"), ("defer", "label"),
                                      ("stream", "if"), ("stream", "label"), ("stream", "initialCount")) for v in MX_VALUES]
)
# selections the directive is attached to (%s = directive); every meta field and every field kind is in the menu
MX_TARGETS = [
    "__typename %s", "f %s", "n %s", "ls %s", "l %s { n }", "q %s { f }", "u %s { __typename }", "x %s", "s %s", "m %s", "nope %s",
    "__schema %s { queryType { name } }", '__type(name: "Query") %s { name }', "... %s { __typename }", "... on Query %s { f }",
    "... on Nope %s { f }", "...G %s", "a: f b: f %s", "f(a: 1) %s", "f(o: {x: $v, nope: 1}) %s", "f(o: {z: null}) f(e: B) %s",
]
MX_VARDEFS = ["", "($v: Boolean)", "($v: Boolean! = true)", "($v: Int = 1)", "($v: [In!] = {z: 1})", "($v: Nope)", "($v: Query)",
              "($v: One = {a: 1, b: null})", "($v: Boolean %s)", "($v: Boolean = $v)"]
MX_VARS = [("none", None), ("v_true", {"v": True}), ("v_null", {"v": None}), ("v_int", {"v": 1}), ("v_obj", {"v": {"a": 1, "b": "x"}})]

_mx = {}


def mx_schema(with_incr):
    if with_incr not in _mx:
        from graphql import GraphQLDeferDirective, GraphQLStreamDirective, build_schema
        from graphql.type import GraphQLSchema

        sch = build_schema(MX_SDL)
        if with_incr:
            kw = sch.to_kwargs()
            kw["directives"] = [*kw["directives"], GraphQLDeferDirective, GraphQLStreamDirective]
            sch = GraphQLSchema(**kw)
        _mx[with_incr] = sch
    return _mx[with_incr]


def mx_root():
    other = {"__typename": "Other", "x": 1, "ls": [1, 2]}
    inner = {"__typename": "Query", "f": "s", "n": 1, "q": None, "l": None, "u": other, "i": other, "ls": ["a", "b"], "s": 1, "m": 2}
    root = dict(inner)
    root["q"] = inner
    root["l"] = [inner, inner]
    return root


def incremental_request(sch, src, variables):
    """The stages of graphql_sync with the incremental executor (a schema that defines @defer/@stream is refused by execute())."""
    from graphql import ExecutionResult, GraphQLError, parse, validate
    from graphql.execution import ExperimentalIncrementalExecutionResults, experimental_execute_incrementally

    try:
        doc = parse(src)
    except GraphQLError as e:
        return ExecutionResult(None, [e])
    errs = validate(sch, doc)
    if errs:
        return ExecutionResult(None, errs)
    r = experimental_execute_incrementally(sch, doc, mx_root(), variable_values=variables)
    if isinstance(r, ExperimentalIncrementalExecutionResults):
        async def drain():
            out = []
            async for p in r.subsequent_results:
                out.append(p.formatted)
            return out

        payloads = asyncio.run(drain())
        if not payloads or payloads[-1].get("hasNext") is not False:
            raise AssertionError(f"incremental stream does not end with hasNext false: {payloads!r:.200}")
        i = r.initial_result
        return ExecutionResult(i.data, i.errors or None)
    if asyncio.iscoroutine(r):
        return asyncio.run(r)
    return r


def check_matrix_request(sch, src, vname, variables, res, viol):
    from graphql import ExecutionResult, graphql_sync

    res.evaluations += 1
    res.executions += 1
    try:
        if sch is _mx.get(True):
            r = incremental_request(sch, src, variables)
        else:
            r = graphql_sync(sch, src, mx_root(), variable_values=variables)
    except Exception as x:  # noqa: BLE001
        viol(f"request_raises_{type(x).__name__}", src, f"variables={vname}: {type(x).__name__}: {str(x)[:200]}")
        return False
    if not isinstance(r, ExecutionResult):
        viol("request_returns_non_result", src, f"{type(r).__name__}")
        return False
    probs = respformat.check_result(r)
    if probs:
        viol("response_malformed:" + probs[0].split(":")[0][:40], src, f"variables={vname}: {probs}")
        return False
    msg = r.errors[0].message if r.errors else None
    res.outcome(("mx", r.data is None, msg and msg[:48]))
    return True


def run_matrix(ci, with_incr, tier, res, viol):
    sch = mx_schema(with_incr)
    op, pre, suf = MX_CONTEXTS[ci]
    n = 0
    for ti, target in enumerate(MX_TARGETS):
        for di, d in enumerate(MX_DIRECTIVES):
            sel = pre % (target % d) if "%s" in pre else pre
            tail = suf % (target % d) if "%s" in suf else suf
            # variable definitions: all of them for the first directive forms, the two Boolean ones elsewhere
            vardefs = MX_VARDEFS if (di < 15 or tier == "thorough") else MX_VARDEFS[:2]
            for vi, vd in enumerate(vardefs):
                vdt = vd % d if "%s" in vd else vd
                src = f"{op} {vdt} {{ {sel} }}{tail} fragment G on Query {{ f }}"
                vms = MX_VARS if (vd and (vi < 3 or tier == "thorough")) else MX_VARS[:2]
                for vname, v in vms:
                    check_matrix_request(sch, src, vname, v, res, viol)
                    n += 1
        res.states += 1
    res.transitions += n
    res.count("matrix_requests", n)
    res.sample({"context": MX_CONTEXTS[ci], "incremental_directives_in_schema": with_incr,
                "source": f"{op} ($v: Boolean) {{ {pre % (MX_TARGETS[0] % MX_DIRECTIVES[20]) if '%s' in pre else pre} }}"})


def varkey_menu():
    """Variable maps whose keys / values stress the message builders (suggestions, inspect, did-you-mean)."""
    from graphql.pyutils import Undefined

    keys = ["x", "X", "\u0130", "\u0130\u0130", "\u0130\u0130\u0130x", "\u00df", "\ufb03", "", " ", "a" * 300, "\ud800", "\x00", "x\ny",
            "__proto__", "$v", 0, None, (1, 2), 1.5, True]
    vals = [1, None, "s", 10 ** 5000, -(10 ** 5000), float("inf"), float("nan"), "s" * 5000, [], {}, [[[[[[1]]]]]], Undefined, b"b",
            {"\u0130\u0130": {"\u0130\u0130": 1}}, object, 1 + 2j, {1, 2}, Ellipsis]
    return keys, vals


VARKEY_QUERIES = [
    "query ($v: In) { f(o: $v) }", "query ($v: [In!]) { f(o: {y: $v}) }", "query ($v: One) { __typename }", "query ($v: Int) { f(i: $v) }",
    "query ($v: [Int!]) { f(l: $v) }", "query ($v: E) { f(e: $v) }", "query ($v: String = \"d\") { f(a: $v) }", "query ($v: Boolean!) { f(b: $v) }",
    "query ($v: ID) { __typename }", "query ($v: Float) { __typename }",
]


def run_varkeys(res, viol):
    sch = mx_schema(False)
    keys, vals = varkey_menu()
    n = 0
    for q in VARKEY_QUERIES:
        for val in vals:
            # the value itself, as the variable and under every key of an input object / top-level map
            vl = type(val).__name__ + (f":{val.bit_length()}bits" if type(val) is int else f":{val!r:.30}")
            check_matrix_request(sch, q, "v=" + vl, {"v": val}, res, viol)
            n += 1
            for k in keys:
                label = f"{k!r:.30}:" + vl
                check_matrix_request(sch, q, "top:" + label, {"v": None, k: val}, res, viol)
                check_matrix_request(sch, q, "in:" + label, {"v": {k: val}}, res, viol)
                check_matrix_request(sch, q, "in2:" + label, {"v": [{"z": "s", k: val}]}, res, viol)
                check_matrix_request(sch, q, "in3:" + label, {"v": {"z": "s", "y": [{k: val}]}}, res, viol)
                n += 4
        res.states += 1
    res.transitions += n
    res.count("varkey_requests", n)
    res.sample({"queries": VARKEY_QUERIES[:3], "keys": [repr(k)[:20] for k in keys], "values": [type(v).__name__ if type(v) is int and abs(v) > 10 ** 100 else repr(v)[:20] for v in vals]})


# --------------------------------------------------------------------------- nesting

NEST = [
    ("selection", lambda d: "{ q " * d + "{ f }" + " }" * d, "parse+request"),
    ("listvalue", lambda d: "{ f(l: " + "[" * d + "1" + "]" * d + ") }", "parse+request"),
    ("objectvalue", lambda d: "{ f(o: " + "{y: " * d + "{z: \"s\"}" + "}" * d + ") }", "parse+request"),
    ("listtype", lambda d: "query ($v: " + "[" * d + "Int" + "]" * d + ") { f }", "parse+request"),
    ("fragments", lambda d: "{ " + "... { q { " * d + "f" + " } }" * d + " }", "parse+request"),
    ("valueentry", lambda d: "[{a: " * (d // 2) + "[" * (d % 2) + "1" + "]" * (d % 2) + "}]" * (d // 2), "value"),
]


# --------------------------------------------------------------------------- width (flat documents, nesting depth 1-3)

WIDTH_SDL = """
type Query { f(l: [Int], o: In, i: Int): Int af: Int l: [Int] al: [Int] o: Obj }
type Mutation { f: Int af: Int }
type Obj { f: Int af: Int }
input In { a: Int b: Int }
"""
WIDTH_NS = {"quick": [1, 2, 10, 100, 500, 1000, 1500, 2500], "thorough": [1, 2, 10, 100, 500, 1000, 1500, 2500, 5000, 10000]}
# (name, document builder, uses the event loop)
WIDTH = [
    ("query_sync_fields", lambda n: "{ " + " ".join(f"a{i}: f" for i in range(n)) + " }", False),
    ("query_async_fields", lambda n: "{ " + " ".join(f"a{i}: af" for i in range(n)) + " }", True),
    ("mutation_sync_fields", lambda n: "mutation { " + " ".join(f"a{i}: f" for i in range(n)) + " }", False),
    ("mutation_async_fields", lambda n: "mutation { " + " ".join(f"a{i}: af" for i in range(n)) + " }", True),
    ("mutation_mixed_fields", lambda n: "mutation { " + " ".join(f"a{i}: {'af' if i % 2 else 'f'}" for i in range(n)) + " }", True),
    ("nested_async_fields", lambda n: "{ o { " + " ".join(f"a{i}: af" for i in range(n)) + " } }", True),
    ("list_items", lambda n: "{ l al }", True),
    ("list_literal", lambda n: "{ f(l: [" + ", ".join("1" for _ in range(n)) + "]) }", False),
    ("variables", lambda n: "query (" + " ".join(f"$v{i}: Int" for i in range(n)) + ") { " + " ".join(f"a{i}: f(i: $v{i})" for i in range(n)) + " }", False),
    ("fragments_flat", lambda n: "{ " + " ".join(f"...F{i}" for i in range(n)) + " } " + " ".join(f"fragment F{i} on Query {{ a{i}: f }}" for i in range(n)), False),
    ("fragment_chain", lambda n: "{ ...F0 } " + " ".join(f"fragment F{i} on Query {{ a{i}: f {'...F' + str(i + 1) if i + 1 < n else ''} }}" for i in range(n)), False),
    ("inline_fragments_flat", lambda n: "{ " + " ".join(f"... on Query {{ a{i}: f }}" for i in range(n)) + " }", False),
    ("operations", lambda n: " ".join(f"query Q{i} {{ f }}" for i in range(n)), False),
    ("repeated_directives", lambda n: "{ f " + " ".join("@skip(if: false)" for _ in range(n)) + " }", False),
    ("same_response_key", lambda n: "{ " + " ".join("f" for _ in range(n)) + " }", False),
    ("conflicting_response_key", lambda n: "{ " + " ".join(f"x: f(i: {i})" for i in range(n)) + " }", False),
    ("unknown_fields", lambda n: "{ " + " ".join(f"zz{i}" for i in range(n)) + " }", False),
    ("long_name", lambda n: "{ " + "a" * (n * 10) + ": f }", False),
]
_width_schema = None


def run_width(wi, tier, res, viol):
    """Flat documents: the size of a request (fields, items, fragments ...) must not be limited by the interpreter's recursion limit.
    A fragment chain is nesting in the fragment graph and is only checked up to the stated bound of 100."""
    import asyncio
    import inspect

    from graphql import ExecutionResult, build_schema, graphql, graphql_sync

    global _width_schema
    name, make, use_loop = WIDTH[wi]
    base = len(inspect.stack())
    old = sys.getrecursionlimit()
    sys.setrecursionlimit(1000 + base)
    try:
        for n in WIDTH_NS[tier]:
            if name == "fragment_chain" and n > 100:
                continue
            if name in ("conflicting_response_key", "fragments_flat", "repeated_directives", "same_response_key") and n > 1000:
                continue  # quadratic validation work, not a question of totality
            if _width_schema is None:
                _width_schema = build_schema(WIDTH_SDL)

                async def af(_s, _i):
                    await asyncio.sleep(0)
                    return 1

                for tname in ("Query", "Mutation", "Obj"):
                    t = _width_schema.type_map[tname]
                    t.fields["f"].resolve = lambda _s, _i, **_a: 1
                    t.fields["af"].resolve = af
            sch = _width_schema
            items = list(range(n))

            async def item(i):
                await asyncio.sleep(0)
                return i

            sch.type_map["Query"].fields["l"].resolve = lambda _s, _i: items
            sch.type_map["Query"].fields["al"].resolve = lambda _s, _i: [item(i) for i in items]
            sch.type_map["Query"].fields["o"].resolve = lambda _s, _i: {}
            src = make(n)
            variables = {f"v{i}": i for i in range(n)} if name == "variables" else None
            opname = f"Q{n - 1}" if name == "operations" else None
            res.evaluations += 1
            res.executions += 1
            res.states += 1
            res.transitions += 1
            try:
                if use_loop:
                    r = asyncio.run(graphql(sch, src, variable_values=variables, operation_name=opname))
                else:
                    r = graphql_sync(sch, src, variable_values=variables, operation_name=opname)
            except RecursionError:
                viol(f"wide_request_recursion:{name}", src[:60], f"{name} with n={n}: RecursionError (nesting depth of the document <= 3)")
                break
            except Exception as x:  # noqa: BLE001
                viol(f"wide_request_raises_{type(x).__name__}:{name}", src[:60], f"{name} with n={n}: {type(x).__name__}: {x}")
                break
            if not isinstance(r, ExecutionResult):
                viol("request_returns_non_result", src[:60], f"{type(r).__name__}")
                break
            probs = respformat.check_result(r)
            if probs:
                viol("response_malformed:" + probs[0].split(":")[0][:40], src[:60], f"{name} n={n}: {probs[:2]}")
                break
            res.outcome(("width", name, n, r.data is None, bool(r.errors)))
    finally:
        sys.setrecursionlimit(old)
    res.sample({"family": "width", "shape": name, "sizes": WIDTH_NS[tier]}, 1)


def run_shard(shard, tier):
    res = Result()
    kind, arg = shard

    def viol(sig, s, summary):
        res.violation(sig, f"{s!r}: {summary}", {"kind": kind, "input": s, "detail": summary[:300]})

    if kind == "short":
        for n in range(0, 2 if tier == "quick" else 3):
            for tup in itertools.product(SIGMA, repeat=n):
                s = "".join(tup)
                check_parsers(s, res, viol)
                res.states += 1
                res.transitions += 1
    elif kind == "strings":
        i, j = arg
        L = 4 if tier == "quick" else 5
        pre = SIGMA[i] + (SIGMA[j] if j is not None else "")
        for n in range(1 if j is None else 1, L - len(pre) + 1):
            for tup in itertools.product(SIGMA, repeat=n):
                s = pre + "".join(tup)
                check_parsers(s, res, viol, STRING_ENTRIES)
                res.states += 1
                res.transitions += 1
        if i == 5 and not j:
            res.sample({"source": '"\\u', "entry_points": [e[0] for e in entries()]})
    elif kind == "edits":
        seedname, part, parts = arg
        if seedname == "hand":
            seeds = [(s, None) for s in HAND_SEEDS] + [(s, ["parse_value", "parse_const_value"]) for s in VALUE_SEEDS] + \
                    [(s, ["parse_type"]) for s in TYPE_SEEDS] + [(s, ["parse_schema_coordinate"]) for s in COORD_SEEDS]
        else:
            path = "/repo/tests/fixtures/" + ("kitchen_sink.graphql" if seedname == "ks" else "schema_kitchen_sink.graphql")
            try:
                text = open(path, encoding="utf-8").read()
            except OSError:
                text = HAND_SEEDS[8] * 5
            seeds = [(text, ["parse"])]
        for seed, which in seeds:
            if which is None:
                which = ["parse", "parse+frag_args"]
            n = len(seed)
            lo, hi = part * (n + 1) // parts, (part + 1) * (n + 1) // parts
            for pos in range(lo, hi):
                check_parsers(seed[:pos], res, viol, which)  # truncation
                res.states += 1
                for ch in (EDIT if (tier == "thorough" or seedname == "hand") else EDIT[::3]):
                    for op in (0, 1, 2):  # insert, substitute, delete
                        if op == 2 and ch != EDIT[0]:
                            continue
                        if op and pos >= n:
                            continue
                        m = seed[:pos] + (ch if op < 2 else "") + seed[pos + (1 if op else 0):]
                        if not check_parsers(m, res, viol, which):
                            return res
                        res.states += 1
                        res.transitions += 1
        res.sample({"seed": seeds[0][0][:60], "edits": "every prefix; insert/substitute/delete x %d symbols at every position" % len(EDIT)})
    elif kind == "edits2":
        seed = HAND_SEEDS[arg]
        if len(seed) <= 25:
            alpha = EDIT[:10]
            n = len(seed)
            for p1 in range(n + 1):
                for c1 in alpha:
                    m1 = seed[:p1] + c1 + seed[p1:]
                    for p2 in range(p1, len(m1) + 1):
                        for c2 in alpha:
                            m2 = m1[:p2] + c2 + m1[p2 + 1:]
                            if not check_parsers(m2, res, viol, ["parse"]):
                                return res
                            res.states += 1
                            res.transitions += 1
    elif kind == "width":
        run_width(arg, tier, res, viol)
    elif kind == "nest":
        name, make, how = NEST[arg]
        import inspect

        base = len(inspect.stack())
        old = sys.getrecursionlimit()
        # the library must cope with depth 100 under the interpreter's default limit
        sys.setrecursionlimit(1000 + base)
        try:
            for d in range(1, 101):
                full = make(d)
                which = ["parse_value", "parse_const_value"] if how == "value" else ["parse"]
                if not check_parsers(full, res, viol, which):
                    break
                res.evaluations += 1
                try:
                    for name_, fn, _u in entries():
                        if name_ == which[0]:
                            fn(full)
                except Exception as x:  # noqa: BLE001
                    viol("nested_source_rejected", full[:50], f"depth {d} ({name}): {type(x).__name__}: {x}")
                    break
                if how != "value":
                    if not check_request(full, "none", None, None, res, viol):
                        break
                if d == 100:
                    # cut at every position of the deepest document = cut at every depth
                    for cut in range(1, len(full)):
                        if not check_parsers(full[:cut], res, viol, which):
                            break
                        if how != "value" and cut % 7 == 1:
                            check_request(full[:cut], "none", None, None, res, viol)
                res.states += 1
                res.transitions += 1
        finally:
            sys.setrecursionlimit(old)
        res.sample({"production": name, "depths": "1..100", "source_depth_3": make(3)})
    elif kind == "requests":
        part, parts = arg
        sources = list(HAND_SEEDS)
        # single-edit neighbours of the executable seeds that reach each pipeline stage
        for seed in HAND_SEEDS[:15] + HAND_SEEDS[22:29]:
            for pos in range(0, len(seed), 5):
                for ch in ("$", "!", '"', "q", "1"):
                    sources.append(seed[:pos] + ch + seed[pos + 1:])
        sources = sources[:320]
        vm = variables_menu()
        for si, src in enumerate(sources):
            if si % parts != part:
                continue
            for vname, v in vm:
                for op in OPNAMES:
                    if not check_request(src, vname, v, op, res, viol):
                        break
            res.states += 1
            res.transitions += len(vm) * len(OPNAMES)
        res.sample({"source": sources[8], "variables": [v[0] for v in vm], "operation_names": OPNAMES})
    elif kind == "escapes":
        run_escapes(arg, tier, res, viol)
    elif kind == "matrix":
        run_matrix(arg[0], arg[1], tier, res, viol)
    elif kind == "varkeys":
        run_varkeys(res, viol)
    elif kind == "resolvers":
        part, parts = arg
        menu = exception_menu()
        plain = next(m for m in menu if m[0] == "user:plain")
        for pos in POSITIONS:  # where the failing field of each position is (for the location clause)
            for mode in ("sync", "async"):
                run_resolver_case(plain[0], plain[1], pos, mode, res, viol)
        for ei, (label, factory) in enumerate(menu):
            if ei % parts != part:
                continue
            for pos in POSITIONS:
                for mode in ("sync", "async"):
                    run_resolver_case(label, factory, pos, mode, res, viol)
            res.states += 1
            res.transitions += len(POSITIONS) * 2
        res.count("exception_classes", len([1 for i in range(len(menu)) if i % parts == part]))
        res.sample({"exception": menu[0][0], "positions": POSITIONS, "modes": ["sync", "async"]})
    return res


def replay(payload):
    res = Result()
    out = []

    def viol(sig, s, summary):
        out.append({"signature": sig, "summary": f"{s!r}: {summary}"})

    kind = payload["kind"]
    s = payload["input"]
    if kind in ("strings", "short", "edits", "edits2", "escapes"):
        check_parsers(s, res, viol)
        if kind == "escapes":
            for i in range(len(ESCAPES)):
                run_escapes(i, "quick", res, viol)
    elif kind == "nest":
        check_parsers(s, res, viol, ["parse", "parse_value"])
        check_request(s, "none", None, None, res, viol)
    elif kind == "requests":
        for vname, v in variables_menu():
            for op in OPNAMES:
                check_request(s, vname, v, op, res, viol)
    elif kind == "matrix":
        for with_incr in (False, True):
            for vname, v in MX_VARS:
                check_matrix_request(mx_schema(with_incr), s, vname, v, res, viol)
    elif kind == "varkeys":
        run_varkeys(res, viol)
    else:
        label = s.split(" at ")[0]
        for l, f in exception_menu():
            if l == label:
                for pos in POSITIONS:
                    for mode in ("sync", "async"):
                        run_resolver_case(l, f, pos, mode, res, viol)
    return out
