"""C12  Validation is a deterministic, compositional function of document and schema."""

from __future__ import annotations

import itertools
import re

from vf.engine.choice import explore
from vf.engine.runner import Result
from vf.gen import docs as gdocs
from vf.gen import execschemas, grammar
from vf.ref import astshape

ID = "C12"
BOUNDS = {
    "quick": "history: every ordered pair (A, B) of the seeds validated in that order on one schema object, B compared with a never-used schema object; 81 near-miss seed documents, each also with its definitions in reverse order (one or two violations of each specified rule) + every ordered pair of 30 of them + type-directed (incl. ill-typed) operations with <=1 deviation + grammar-random executable documents with <=1 deviation + single-token deletions of 12 seeds; rule sets: each of the 32 rules alone, every ordered pair (seeds), full set in 6 orders; max_errors 0..n+1",
    "thorough": "<=2 deviations; every ordered pair of all seeds; rule triples inside the three interference clusters",
}
RULE = (
    "exhaustive within bounds: for each document validate() with a set of rules reports exactly the multiset union of what each rule reports "
    "alone (all singles, all ordered pairs, the full set in specified / reversed / rotated orders); messages are unchanged by print->parse, by "
    "rewriting ignored characters and by adding descriptions; a second run gives the same answer and document and schema are unchanged; with "
    "max_errors=n the result is the first n unlimited errors plus the abort notice iff there are more; validate never raises. "
    "distinct = distinct (document, error multiset) observations"
)
ASSUMPTIONS = [
    "the union law is checked on the multiset of (message, locations); order of errors is only compared for the max_errors prefix law",
]

SCHEMA = execschemas.S1.replace("type Query {", "type Mutation { m(a: Int): Int }\ntype Subscription { s: Int t: Int }\ninput In { p: Int = 3, q: [Int!], r: In }\ninput One @oneOf { i: Int, s: String }\ndirective @defer(if: Boolean! = true, label: String) on FRAGMENT_SPREAD | INLINE_FRAGMENT\ndirective @stream(if: Boolean! = true, label: String, initialCount: Int! = 0) on FIELD\ndirective @d(x: Int) repeatable on FIELD | QUERY\ndirective @once on FIELD\ntype Query { arg(i: Int!, o: In, l: [Int]): Int one(o: One, n: Int): Int ")

SEEDS = [
    # valid
    "{ a { id name } }",
    "query Q($v: Int = 1) { arg(i: $v) a { ...F } } fragment F on A { name self { id } }",
    "{ n { ... on A { a } ... on B { b } } u { __typename } }",
    "subscription { s }",
    "mutation M { m(a: 1) }",
    "{ a { kids @stream(initialCount: 1) { id } ... @defer(label: \"x\") { name } } }",
    # one violation each (near misses)
    "type T { f: Int } { a { id } }",  # ExecutableDefinitions
    "query A { a { id } } query A { a { name } }",  # UniqueOperationNames
    "{ a { id } } query B { a { id } }",  # LoneAnonymousOperation
    "subscription { s t }",  # SingleFieldSubscriptions
    "subscription { __typename }",
    "subscription { s @skip(if: true) }",  # forbidden @skip / @include on the root field of a subscription
    "subscription A { s t } subscription B { s @include(if: false) }",
    "subscription A { s @skip(if: true) } subscription B { s t }",
    "query ($v: Nope) { arg(i: 1) a { ... on Nope2 { id } } }",  # KnownTypeNames
    "{ a { ... on E { id } } } ",  # FragmentsOnCompositeTypes (E is an enum)
    "fragment F on E { x } { a { ...F } }",
    "query ($v: A) { arg(i: 1) }",  # VariablesAreInputTypes
    "{ a }",  # ScalarLeafs
    "{ a { id { x } } }",
    "{ a { nope } zz }",  # FieldsOnCorrectType
    "fragment F on A { id } fragment F on A { name } { a { ...F } }",  # UniqueFragmentNames
    "{ a { ...Nope } }",  # KnownFragmentNames
    "fragment U on A { id } { a { id } }",  # NoUnusedFragments
    "{ a { ... on B { b } } }",  # PossibleFragmentSpreads
    "fragment F on A { ...G } fragment G on A { ...F } { a { ...F } }",  # NoFragmentCycles
    "fragment F on A { self { ...F } } { a { ...F } }",
    "query ($v: Int, $v: Int) { arg(i: $v) }",  # UniqueVariableNames
    "{ arg(i: $nope) }",  # NoUndefinedVariables
    "query ($v: Int) { a { id } }",  # NoUnusedVariables
    "{ a @nope { id } }",  # KnownDirectives
    "{ a { id @defer } }",
    "query @once { a { id } }",
    "{ a { id @once @once } }",  # UniqueDirectivesPerLocation
    "{ a { id @d @d(x: 1) } }",
    "mutation { ... @defer { m } }",  # DeferStreamDirectiveOnRootField
    "subscription { ...F @defer } fragment F on Subscription { s }",
    "subscription { s ... @defer { t } }",  # OnValidOperations (and single field)
    "{ a { ... @defer(label: \"x\") { id } } n { ... @defer(label: \"x\") { id } } }",  # DeferStreamDirectiveLabel
    "query ($l: String) { a { ... @defer(label: $l) { id } } }",
    "{ a { id @stream } }",  # StreamDirectiveOnListField
    "{ arg(i: 1, nope: 2) a { id @skip(if: true, bogus: 1) } }",  # KnownArgumentNames
    "{ a @skip(if: true, bogus: 1) { id } }",
    "{ arg(i: 1, i: 2) }",  # UniqueArgumentNames
    "{ arg(i: \"s\") }",  # ValuesOfCorrectType
    "{ arg(i: 1, o: {p: \"s\", nope: 1}) }",
    "{ arg(i: 1, l: [1, \"x\"]) }",
    "{ arg }",  # ProvidedRequiredArguments
    "{ a { id @skip } }",
    "query ($v: Int) { arg(i: $v) }",  # VariablesInAllowedPosition
    "query ($v: String) { arg(i: 1, l: [$v]) }",
    "{ a { x: id x: name } }",  # OverlappingFieldsCanBeMerged
    "{ n { ... on A { x: a } ... on B { x: name } } }",
    "{ arg(i: 1, o: {p: 1, p: 2}) }",  # UniqueInputFieldNames
    "{ __schema { types { fields { type { fields { type { fields { type { name } } } } } } } } }",  # MaxIntrospectionDepth
    # two interacting violations
    "query ($v: Int, $w: Nope) { arg(i: $u) a @skip(if: $v) { nope @nope } }",
    "fragment F on Nope { x ...F } { a { ...F ...G } }",
    "{ a { id @skip(if: true, bogus: 1) @include(iff: false) } arg(j: 1) }",
    "query ($v: [Int!]) { arg(i: 1, l: $v) a { kids @stream(initialCount: $v) { id } } }",
    "{ a { self { self { nope { deeper } } } } }",
    "{ a { ... on Node { ... on B { ... on A { id } } } } }",
    "query Q { a { id } } query Q { ...F } fragment F on Query { a { idd } }",
    "{ a { e(x: 1) grid { y } } }",
    "mutation { m(a: \"s\", b: 1) @defer }",
    "subscription S($v: Int) { s @skip(if: $w) }",
    "{ a { ... @defer(label: 1) { id } kids @stream(initialCount: \"x\", label: \"k\") { id } peers @stream(label: \"k\") { id } } }",
    "{ u { id ... on A { id } ... on Node { name } ... on In { p } } }",
    "{ x: a { id } x: an { id } y: arg(i: 1) y: arg(i: 2) }",
    "query ($a: Int = \"s\", $b: In = {q: [null]}) { arg(i: $a, o: $b) }",
    "{ a { id } } fragment A on A { ...B } fragment B on A { ...C } fragment C on A { ...A id }",
    "{ ...on Query { ...on Mutation { m } } }",
    "{ a { __typename @stream } __type(name: 1) { name } __nope }",
    "{ a { peers @stream(initialCount: -1) { id } } }",
    # fragments defined BEFORE the operation that uses them, variables used inside fragments, OneOf variables
    "fragment F on Query { one(n: $n) } query ($n: Int, $o: One) { ...F x: one(o: $o) }",
    "fragment F on Query { arg(i: $n) } query ($o: One, $n: Int) { ...F one(o: $o) }",
    "fragment F on Query { one(o: {i: $n}) } query ($n: Int) { ...F }",
    "fragment G on A { self { ...H } } fragment H on A { id @skip(if: $s) } query ($s: Boolean!, $o: One) { a { ...G } one(o: $o) }",
    "query ($o: One = {i: 1}, $p: One) { one(o: $o) y: one(o: $p) z: one(o: {i: 1, s: \"x\"}) }",
    # a fragment name defined twice with different variables / directives / spreads in the two bodies, before and after the operation
    "fragment F on Query { one(n: $p) } fragment F on Query { one(n: $q) } query Q($q: Int) { ...F }",
    "fragment F on Query { one(n: $p) } query Q($q: Int) { ...F } fragment F on Query { one(n: $q) }",
    "fragment F on A { ...G } fragment F on A { id @nope } fragment G on A { name } { a { ...F } }",
    # definitions the document brings along for names the schema does not know
    "directive @nope on FIELD { a @nope { id } }",
    "directive @once on QUERY query @once { a { id @once } }",
    "type Nope { x: Int } scalar Nope2 query ($v: Nope) { arg(i: 1) a { ... on Nope2 { id } } }",
]


def shards(tier):
    out = []
    for i in range(len(SEEDS)):
        out.append(("seed", i))
    n2 = 30 if tier == "quick" else len(SEEDS)
    for i in range(n2):
        out.append(("seedpair", (i, n2)))
    k = 1 if tier == "quick" else 2
    for sname in ("S1", "S2"):
        for a in range(2):
            for b in range(3):
                out.append(("gen", (sname, k, a, b)))
    for ki in range(len(grammar.EXECUTABLE)):
        out.append(("gram", (ki, k)))
    for i in range(0, 12):
        out.append(("tokens", i))
    for i in range(len(SEEDS)):
        out.append(("history", i))
    return out


_schemas = {}


def schema_for(name):
    from graphql import build_schema

    s = _schemas.get(name)
    if s is None:
        if name == "C12":
            s = build_schema(SCHEMA)
        else:
            s = execschemas.build(name)
        _schemas[name] = s
    return s


_baseline = {}


def run_history(i, res, viol):
    """validate(S, B) is the same before and after S has been used to validate A - for every ordered pair of seeds, on one schema object."""
    from graphql import build_schema, parse, validate

    if not _baseline:
        for j, t in enumerate(SEEDS):
            # each baseline on a schema object that has never validated anything else
            _baseline[j] = key(validate(build_schema(SCHEMA), parse(t)))
    s = build_schema(SCHEMA)
    first = key(validate(s, parse(SEEDS[i])))
    res.evaluations += 1
    if first != _baseline[i]:
        viol("validation_not_deterministic", SEEDS[i], f"two fresh schemas give {first} and {_baseline[i]}")
        return
    for j, t in enumerate(SEEDS):
        got = key(validate(s, parse(t)))
        res.evaluations += 1
        res.executions += 1
        res.transitions += 1
        if got != _baseline[j]:
            viol("validation_depends_on_history", t, f"after validating {SEEDS[i]!r} (and {j} other seed documents) on the same schema object: {got}, "
                 f"on a fresh schema object: {_baseline[j]}")
            return
    # and the first document again, after all the others
    again = key(validate(s, parse(SEEDS[i])))
    if again != first:
        viol("validation_depends_on_history", SEEDS[i], f"after validating every other seed on the same schema object: {again}, before: {first}")
    res.states += 1
    res.outcome(("history", i, len(first)))


def key(errors):
    return sorted((e.message, tuple((l.line, l.column) for l in e.locations or ())) for e in errors)


def msgs(errors):
    return sorted(e.message for e in errors)


def add_descriptions(text):
    if text.lstrip().startswith("{"):
        return None
    t = re.sub(r"\b(query|mutation|subscription|fragment)\b(?=\s+[_A-Za-z(@{$])", r'"d" \1', text)
    # variable definitions live in the operation header only: never touch argument lists inside selection sets
    head, brace, rest = t.partition("{")
    if "=" not in head:  # (a default value may itself contain braces/variables - keep it simple and skip those)
        head = re.sub(r"([(,]\s*)\$", r'\1"""v""" $', head)
    return head + brace + rest


def reversed_definitions(text):
    """The same document with its definitions in reverse order (None if it has a single definition)."""
    from graphql import GraphQLSyntaxError, parse

    try:
        doc = parse(text)
    except GraphQLSyntaxError:
        return None
    if len(doc.definitions) < 2:
        return None
    return " ".join(text[d.loc.start:d.loc.end] for d in reversed(doc.definitions))


def check_doc(text, sname, res, viol, pairs=True, tier="quick"):
    from graphql import GraphQLSyntaxError, parse, print_ast, validate
    from graphql.validation import specified_rules

    from vf.ref import schemafp_lite

    schema = schema_for(sname)
    try:
        doc = parse(text)
    except GraphQLSyntaxError:
        res.count("unparseable_skipped")
        return
    rules = list(specified_rules)
    before_doc = astshape.shape(doc)
    before_schema = schemafp_lite.fingerprint(schema)

    def run(rs, max_errors=None, d=doc):
        res.executions += 1
        try:
            return validate(schema, d, rs, max_errors) if max_errors is not None else validate(schema, d, rs)
        except RecursionError:
            viol("validate_recursion", text, f"rules {[r.__name__ for r in rs][:4]}")
            return None
        except Exception as e:  # noqa: BLE001
            viol("validate_raises", text, f"rules {[r.__name__ for r in rs][:4]}: {type(e).__name__}: {e}")
            return None

    singles = {}
    for r in rules:
        out = run([r])
        if out is None:
            return
        singles[r] = key(out)
    res.evaluations += 1
    full = run(rules)
    if full is None:
        return
    union = sorted(itertools.chain.from_iterable(singles.values()))
    if key(full) != union:
        extra = [x for x in key(full) if x not in union]
        missing = [x for x in union if x not in key(full)]
        viol("full_set_is_not_union_of_singles", text, f"only in the full run: {extra[:3]}; only in single-rule runs: {missing[:3]}")
        return
    # orders of the full set
    n = len(rules)
    for order in (rules[::-1], rules[n // 4:] + rules[: n // 4], rules[n // 2:] + rules[: n // 2], rules[3 * n // 4:] + rules[: 3 * n // 4],
                  rules[1::2] + rules[0::2]):
        res.evaluations += 1
        out = run(order)
        if out is None:
            return
        if key(out) != union:
            viol("rule_order_changes_result", text, f"order starting with {order[0].__name__}: {key(out)[:3]} vs union {union[:3]}")
            return
    # ordered pairs
    if pairs:
        relevant = [r for r in rules if singles[r]]
        others = [r for r in rules if not singles[r]]
        cand = relevant + others if tier == "thorough" else relevant + others[:: max(1, len(others) // 6)]
        for r1 in cand:
            for r2 in rules:
                if r1 is r2:
                    continue
                for rs in ((r1, r2), (r2, r1)):
                    if rs[0] not in relevant and rs[1] not in relevant and tier != "thorough":
                        continue
                    res.evaluations += 1
                    out = run(list(rs))
                    if out is None:
                        return
                    want = sorted(singles[rs[0]] + singles[rs[1]])
                    if key(out) != want:
                        viol("pair_is_not_union_of_singles", text, f"rules ({rs[0].__name__}, {rs[1].__name__}): {key(out)[:4]} vs {want[:4]}")
                        return
    # second run, no mutation
    res.evaluations += 1
    again = run(rules)
    if again is None or key(again) != key(full):
        viol("second_run_differs", text, "validate() answered differently the second time")
        return
    if astshape.shape(doc) != before_doc:
        viol("document_modified", text, "validate() modified the document")
        return
    if schemafp_lite.fingerprint(schema) != before_schema:
        viol("schema_modified", text, "validate() modified the schema")
        return
    # invariances (messages only: locations move)
    res.evaluations += 1
    try:
        d2 = parse(print_ast(doc))
    except Exception as e:  # noqa: BLE001
        viol("reprint_unparseable", text, f"{type(e).__name__}: {e}")
        return
    o2 = run(rules, d=d2)
    if o2 is None or msgs(o2) != msgs(full):
        viol("reprint_changes_messages", text, f"{msgs(o2 or [])[:3]} vs {msgs(full)[:3]}")
        return
    spaced = re.sub(r"([{}():,])", r" \1 ", text).replace("  ", " ,\n")
    try:
        d3 = parse("# c\n" + spaced + "\n#end")
    except GraphQLSyntaxError:
        d3 = None
    if d3 is not None and astshape.shape(d3) == before_doc:
        res.evaluations += 1
        o3 = run(rules, d=d3)
        if o3 is None or msgs(o3) != msgs(full):
            viol("ignored_characters_change_messages", text, f"{msgs(o3 or [])[:3]} vs {msgs(full)[:3]}")
            return
    desc = add_descriptions(text)
    if desc:
        try:
            d4 = parse(desc)
        except GraphQLSyntaxError:
            d4 = None
        if d4 is not None:
            res.evaluations += 1
            o4 = run(rules, d=d4)
            if o4 is None or msgs(o4) != msgs(full):
                viol("descriptions_change_messages", text, f"with descriptions {msgs(o4 or [])[:3]} vs {msgs(full)[:3]}")
                return
    # max_errors
    unlimited = run(rules, max_errors=10 ** 6)
    if unlimited is None:
        return
    if key(unlimited) != key(full) and len(full) < 100:
        viol("max_errors_changes_result", text, "a large limit changes the result")
        return
    m = len(unlimited)
    for lim in range(0, m + 2):
        res.evaluations += 1
        out = run(rules, max_errors=lim)
        if out is None:
            return
        want = [(e.message, tuple(e.locations or ())) for e in unlimited[:lim]]
        got = [(e.message, tuple(e.locations or ())) for e in out]
        if m > lim:
            ok = len(out) == lim + 1 and got[:lim] == want and "Too many validation errors" in out[-1].message
        else:
            ok = got == [(e.message, tuple(e.locations or ())) for e in unlimited]
        if not ok:
            viol("max_errors_prefix_law", text, f"max_errors={lim} with {m} errors in total returned {[g[0][:40] for g in got]}")
            return
    res.outcome((text, tuple(union)))


def run_shard(shard, tier):
    from graphql import parse

    res = Result()
    kind, arg = shard
    cur = {"schema": "C12"}

    def viol(sig, text, summary):
        res.violation(sig, f"{text!r}: {summary}", {"doc": text, "schema": cur["schema"], "history": cur.get("history")})

    if kind == "seed":
        check_doc(SEEDS[arg], "C12", res, viol, pairs=True, tier=tier)
        rev = reversed_definitions(SEEDS[arg])
        if rev:
            check_doc(rev, "C12", res, viol, pairs=True, tier=tier)
        res.states += 1
        res.transitions += 1
        if arg == 38:
            res.sample({"document": SEEDS[arg], "rule_sets": "32 singles, ordered pairs, full set in 6 orders, max_errors 0..n+1"})
    elif kind == "history":
        cur["history"] = arg
        run_history(arg, res, viol)
    elif kind == "seedpair":
        i, n2 = arg
        for j in range(n2):
            if i == j:
                continue
            a, b = SEEDS[i], SEEDS[j]
            # merge two seeds into one document (second one's anonymous operation gets a name)
            def named(t, nm):
                t = t.strip()
                if t.startswith("{"):
                    return f"query {nm} " + t
                return re.sub(r"^(query|mutation|subscription)(\s*)([({@])", rf"\1 {nm} \3", t, count=1)
            text = named(a, "P1") + " " + named(b, "P2")
            check_doc(text, "C12", res, viol, pairs=False, tier=tier)
            res.states += 1
            res.transitions += 1
    elif kind == "gen":
        sname, k, a, b = arg
        cur["schema"] = sname
        schema = schema_for(sname)

        def scenario(c):
            g = gdocs.DocGen(c, schema, illtyped=True, maxdepth=2)
            return g.operation()[0]

        def visit(c, text):
            check_doc(text, sname, res, viol, pairs=False, tier=tier)

        res.add_stats(explore(scenario, k, visit, root=(a, b)))
    elif kind == "gram":
        ki, k = arg

        def scenario(c):
            return grammar.text_of(grammar.Gen(c).document(grammar.EXECUTABLE))

        def visit(c, text):
            check_doc(text, "C12", res, viol, pairs=False, tier=tier)

        res.add_stats(explore(scenario, k, visit, root=(ki,)))
    else:
        # single-token deletions / duplications of a valid or near-valid seed
        from vf.ref import lexer as reflex

        text = SEEDS[arg * 5 % len(SEEDS)]
        toks = reflex.tokens(text) or []
        for i, (_k, a, b, _v) in enumerate(toks):
            check_doc(text[:a] + text[b:], "C12", res, viol, pairs=False, tier=tier)
            check_doc(text[:b] + " " + text[a:b] + text[b:], "C12", res, viol, pairs=False, tier=tier)
            res.states += 2
            res.transitions += 2
    return res


def replay(payload):
    res = Result()
    out = []

    def viol(sig, text, summary):
        out.append({"signature": sig, "summary": f"{text!r}: {summary}"})

    if payload.get("history") is not None:
        run_history(payload["history"], res, viol)
        return out
    check_doc(payload["doc"], payload.get("schema", "C12"), res, viol, pairs=True, tier="thorough")
    return out
