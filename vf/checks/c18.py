"""C18  Introspection describes the schema truthfully and can rebuild it."""

from __future__ import annotations

import copy
import itertools
import json

from vf.engine.runner import Result
from vf.ref import schemafp_lite

ID = "C18"
BOUNDS = {
    "quick": "22 hand schemas (every type kind, deprecations incl. empty reasons, defaults of every input kind, OneOf, specifiedBy, repeatable directives, non-default roots, programmatic schemas with explicit directive lists) x all 128 option combinations of the introspection query; the schema family with <=1 feature (SDL and programmatic) x 16 option sets (all on, all off, each single option on / off) x ad-hoc selections (every type name and one unknown through __type, includeDeprecated true/false on fields / args / inputFields / enumValues / directives)",
    "thorough": "schema family with <=2 features",
}
RULE = (
    "exhaustive product schemas x 2^7 option sets: the introspection query validates and executes without errors, its result conforms to the "
    "introspection types (type-directed walk), equals the full-options result minus exactly the attributes and deprecated input values the "
    "switched-off options omit, __type(name:) agrees with the __schema.types entry, includeDeprecated filters exactly the deprecated elements; "
    "build_client_schema(full result) prints identically, has an equal structural fingerprint (order sensitive), no changes either way and "
    "introspects to the identical result (key and list order included). distinct = distinct (schema, option set, result hash)"
)
ASSUMPTIONS = [
    "deprecated = deprecation_reason is not None on the schema object (an empty reason is a deprecation)",
]

OPTION_NAMES = ["descriptions", "specified_by_url", "directive_is_repeatable", "schema_description", "input_value_deprecation",
                "experimental_directive_deprecation", "one_of"]

SDLS = [
    "type Query { a: Int }",
    '"""S desc"""\nschema { query: Q }\ntype Q { a: Int }',
    'directive @d(a: Int = 1 @deprecated, b: String) repeatable on FIELD | OBJECT\ntype Query { a: Int }',
    'scalar U @specifiedBy(url: "http://x")\ntype Query { u: U }',
    'enum E { A B @deprecated(reason: "r") C @deprecated(reason: "") }\ntype Query { e: E }',
    'input I { a: Int = 2, old: String @deprecated, older: Int @deprecated(reason: ""), n: I }\ntype Query { f(i: I): Int }',
    "input O @oneOf { x: Int, y: String }\ntype Query { f(o: O): Int }",
    "interface N { id: ID }\ninterface M implements N { id: ID m: Int }\ntype T implements M & N { id: ID m: Int }\ntype Query { n: N }",
    "type A { a: Int }\ntype B { b: Int }\nunion W = A | B\ntype Query { w: W }",
    'type Query { f(x: Int = 3, dep: Int @deprecated, dep2: Int @deprecated(reason: ""), l: [Int!]! = [1, 2], s: String = "a\\"b", e: E = B, o: I = {k: [1]}, nn: Boolean = null): [E!]! @deprecated }\nenum E { A B }\ninput I { k: [Int] = [1, null], f: Float = 1.5 }',
    '"""multi\n  line"""\ntype Query {\n  "field d"\n  a("arg d" x: Int): Int @deprecated(reason: "why")\n}\n"""e"""\nenum E { "v" A }',
    "schema { query: Q mutation: M subscription: S }\ntype Q { a: Int }\ntype M { m: Int }\ntype S { s: Int }",
    "type Query { q: Mutation }\ntype Mutation { x: Int }\nschema { query: Query }",
    "type Query { a: Int }\ntype Mutation { m: Int }\ntype Subscription { s: Int }",
    'directive @only(x: [Int!] = [1]) on QUERY | ENUM_VALUE | INPUT_FIELD_DEFINITION\ndirective @dep(old: Int @deprecated, o2: Int @deprecated(reason: "")) on FIELD\ntype Query { a: Int }',
    "type Query { l: [[Int!]]! n: Int! ll: [[[Query]]] }",
    'input R { r: R, l: [R!] = [], d: R = {r: null, d: null} }\ntype Query { f(r: R = {}): Int }',
    'enum E { A }\ninterface I { e(a: E = A): E }\ntype T implements I { e(a: E = A, b: Int @deprecated(reason: "x")): E }\ntype Query { i: I t: T }',
]

# string defaults whose printed form is delicate (leading tab / space, trailing quote or backslash, more than 70 characters, inner line break)
# as block and as quoted literals: defaultValue is printed by the library and re-parsed by build_client_schema
for _lit in ['"""\ta"\n"""', '""" a"\n"""', '"""\ta\\\n"""', '"""\t' + "x" * 75 + '"""', '""" ' + "x" * 75 + '"""', '"""a\n  b\n c"""', '"""\ta\n\tb"""',
             '"\\ta\\""', '"\\t' + "x" * 75 + '"', '" a\\\\"', '"a\\nb"', '"\\u0007\\u2028"']:
    SDLS.append("input I { s: String = %s }\ndirective @d(s: String = %s) on FIELD\ntype Query { f(a: String = %s, i: I): Int }" % (_lit, _lit, _lit))


def programmatic_schemas():
    from graphql import (GraphQLArgument, GraphQLDirective, GraphQLEnumType, GraphQLEnumValue, GraphQLField, GraphQLFloat, GraphQLID,
                         GraphQLInputField, GraphQLInputObjectType, GraphQLInt, GraphQLList, GraphQLNonNull, GraphQLObjectType, GraphQLSchema)
    from graphql.language import DirectiveLocation

    out = []
    # explicit directive list without the specified directives; own types use neither String nor Boolean
    q = GraphQLObjectType("Query", {"a": GraphQLField(GraphQLInt), "f": GraphQLField(GraphQLFloat)})
    d = GraphQLDirective("mine", [DirectiveLocation.FIELD], {"n": GraphQLArgument(GraphQLInt, default_value=1)})
    out.append(("prog_no_specified_directives", GraphQLSchema(q, directives=[d])))
    out.append(("prog_no_directives", GraphQLSchema(GraphQLObjectType("Query", {"i": GraphQLField(GraphQLID)}), directives=[])))
    e = GraphQLEnumType("E", {"A": GraphQLEnumValue(1), "B": GraphQLEnumValue(2, deprecation_reason="")})
    inp = GraphQLInputObjectType("In", {"x": GraphQLInputField(GraphQLInt, default_value=5), "e": GraphQLInputField(e, default_value=2),
                                        "old": GraphQLInputField(GraphQLInt, deprecation_reason="")})
    q2 = GraphQLObjectType("Query", lambda: {"g": GraphQLField(GraphQLList(GraphQLNonNull(e)), args={"i": GraphQLArgument(inp, default_value={"x": 1})})})
    out.append(("prog_defaults_by_value", GraphQLSchema(q2, types=[inp])))
    # value-based defaults of input-object type that leave out fields which have their own defaults (non-null and nullable),
    # at every place a default can stand
    from graphql import GraphQLString
    from graphql.type import GraphQLDefaultInput as DI

    flt = GraphQLInputObjectType("Filter", lambda: {
        "limit": GraphQLInputField(GraphQLNonNull(GraphQLInt), default=DI(value=10)),
        "tag": GraphQLInputField(GraphQLString),
        "opt": GraphQLInputField(GraphQLInt, default=DI(value=1)),
        "sub": GraphQLInputField(flt),
    })
    outer = GraphQLInputObjectType("Outer", {
        "f": GraphQLInputField(flt, default=DI(value={"tag": "o"})),
        "fs": GraphQLInputField(GraphQLList(GraphQLNonNull(flt)), default=DI(value=[{"tag": "a"}, {"limit": 2, "sub": {"opt": 3}}])),
    })
    dd = GraphQLDirective("flt", [DirectiveLocation.FIELD], {"f": GraphQLArgument(flt, default=DI(value={"tag": "d"}))})
    q3 = GraphQLObjectType("Query", {"g": GraphQLField(GraphQLInt, args={"f": GraphQLArgument(flt, default=DI(value={"tag": "x"})),
                                                                         "fs": GraphQLArgument(GraphQLList(flt), default=DI(value=[{}, None, {"opt": None}])),
                                                                         "o": GraphQLArgument(outer, default=DI(value={}))})})
    from graphql import specified_directives

    out.append(("prog_partial_object_defaults", GraphQLSchema(q3, types=[flt, outer], directives=[*specified_directives, dd])))
    # ID defaults given as values through both default APIs: integer-looking, almost integer-looking, and plain strings
    ids = ["12", "12\n", "012", "-0", "-12", " 12", "1e3", "", "a"]
    args = {}
    for i, v in enumerate(ids):
        args[f"legacy{i}"] = GraphQLArgument(GraphQLID, default_value=v)
        args[f"new{i}"] = GraphQLArgument(GraphQLID, default=DI(value=v))
    args["lst"] = GraphQLArgument(GraphQLList(GraphQLID), default_value=["1", "1\n", 2])
    out.append(("prog_id_defaults", GraphQLSchema(GraphQLObjectType("Query", {"h": GraphQLField(GraphQLInt, args=args)}))))
    extra = GraphQLObjectType("Extra", {"x": GraphQLField(GraphQLInt)})
    out.append(("prog_extra_types", GraphQLSchema(GraphQLObjectType("Query", {"a": GraphQLField(GraphQLInt)}), types=[extra], description="desc")))
    return out


_all = {}


def all_schemas(tier):
    """Built once per process (the runner calls shards() before forking, so workers inherit them); each shard uses its own schema."""
    if tier not in _all:
        _all[tier] = _build_all(tier)
    return _all[tier]


def _build_all(tier):
    from graphql import build_schema

    out = [(f"sdl{i}", build_schema(s)) for i, s in enumerate(SDLS)]
    out += programmatic_schemas()
    from vf.gen import schemas as gs

    k = 1 if tier == "quick" else 2
    for ids in gs.enumerate_schemas(k, experimental=False):
        if not ids:
            continue
        out.append(("fam:" + ",".join(map(str, ids)), build_schema(gs.build_sdl(ids))))
        if len(ids) == 1:
            out.append(("famprog:" + ",".join(map(str, ids)), gs.build_programmatic(ids)))
    return out


def shards(tier):
    n = len(all_schemas(tier))
    return [("schema", i) for i in range(n)]


# ---------------------------------------------------------------------------


def project(full, opts):
    r = copy.deepcopy(full)

    def walk(x, where):
        if isinstance(x, dict):
            if not opts["descriptions"] and "description" in x:
                del x["description"]
            if where == "schema" and not opts["schema_description"] and "description" in x:
                del x["description"]
            if not opts["specified_by_url"]:
                x.pop("specifiedByURL", None)
            if not opts["directive_is_repeatable"]:
                x.pop("isRepeatable", None)
            if not opts["one_of"]:
                x.pop("isOneOf", None)
            if where == "directive" and not opts["experimental_directive_deprecation"]:
                x.pop("isDeprecated", None)
                x.pop("deprecationReason", None)
            for k in ("args", "inputFields"):
                if k in x and x[k] is not None and not opts["input_value_deprecation"]:
                    x[k] = [a for a in x[k] if not a.get("isDeprecated")]
                    for a in x[k]:
                        a.pop("isDeprecated", None)
                        a.pop("deprecationReason", None)
            for k, v in list(x.items()):
                walk(v, "directive" if k == "directives" else ("schema" if k == "__schema" else ("other" if k in ("types", "args", "fields", "inputFields", "enumValues") else where)))
        elif isinstance(x, list):
            for v in x:
                walk(v, where)

    walk(r, "top")
    return r


def conforms(schema, doc, data):
    """Type-directed walk of an introspection result: kinds, non-null, lists, leaf kinds.  Returns a problem string or None."""
    from graphql import (GraphQLEnumType, GraphQLList, GraphQLNonNull, GraphQLObjectType, GraphQLScalarType, introspection_types)
    from graphql.type import SchemaMetaFieldDef, TypeMetaFieldDef, TypeNameMetaFieldDef

    frags = {d.name.value: d for d in doc.definitions if type(d).__name__ == "FragmentDefinitionNode"}
    op = [d for d in doc.definitions if type(d).__name__ == "OperationDefinitionNode"][0]

    def fields_of(selset, out):
        for s in selset.selections:
            k = type(s).__name__
            if k == "FieldNode":
                out.setdefault(s.alias.value if s.alias else s.name.value, []).append(s)
            elif k == "InlineFragmentNode":
                fields_of(s.selection_set, out)
            else:
                fields_of(frags[s.name.value].selection_set, out)
        return out

    def check(t, value, nodes, path):
        if isinstance(t, GraphQLNonNull):
            if value is None:
                return f"{path}: null at non-null {t}"
            return check(t.of_type, value, nodes, path)
        if value is None:
            return None
        if isinstance(t, GraphQLList):
            if not isinstance(value, list):
                return f"{path}: {type(value).__name__} where a list is prescribed"
            for i, v in enumerate(value):
                p = check(t.of_type, v, nodes, path + [i])
                if p:
                    return p
            return None
        if isinstance(t, GraphQLEnumType):
            return None if value in t.values else f"{path}: {value!r} is not a value of {t.name}"
        if isinstance(t, GraphQLScalarType):
            ok = {"String": str, "Boolean": bool, "Int": int, "ID": str, "Float": (int, float)}.get(t.name, object)
            if t.name == "Int" and isinstance(value, bool):
                return f"{path}: bool for Int"
            return None if isinstance(value, ok) else f"{path}: {type(value).__name__} for {t.name}"
        if not isinstance(value, dict):
            return f"{path}: {type(value).__name__} where object {t.name} is prescribed"
        sel = {}
        for n in nodes:
            if n.selection_set:
                fields_of(n.selection_set, sel)
        if list(value) != list(sel):
            return f"{path}: keys {list(value)} prescribed {list(sel)}"
        for key, ns in sel.items():
            fname = ns[0].name.value
            if fname == "__typename":
                if value[key] != t.name:
                    return f"{path}: __typename {value[key]!r}"
                continue
            fdef = t.fields.get(fname)
            if fdef is None:
                return f"{path}: no field {fname} on {t.name}"
            p = check(fdef.type, value[key], ns, path + [key])
            if p:
                return p
        return None

    top = fields_of(op.selection_set, {})
    if list(data) != list(top):
        return f"top-level keys {list(data)} prescribed {list(top)}"
    for key, ns in top.items():
        fname = ns[0].name.value
        fdef = {"__schema": SchemaMetaFieldDef, "__type": TypeMetaFieldDef, "__typename": TypeNameMetaFieldDef}.get(fname) or schema.query_type.fields.get(fname)
        p = check(fdef.type, data[key], ns, [key])
        if p:
            return p
    return None


TYPE_FRAGMENT = """
fragment T on __Type { kind name description specifiedByURL isOneOf
  fields(includeDeprecated: true) { name description isDeprecated deprecationReason type { ...R } args(includeDeprecated: true) { ...IV } }
  inputFields(includeDeprecated: true) { ...IV } interfaces { ...R } enumValues(includeDeprecated: true) { name description isDeprecated deprecationReason }
  possibleTypes { ...R } }
fragment IV on __InputValue { name description type { ...R } defaultValue isDeprecated deprecationReason }
fragment R on __Type { kind name ofType { kind name ofType { kind name ofType { kind name ofType { kind name } } } } }
"""


def check_schema(label, schema, res, viol):
    from graphql import build_client_schema, execute_sync, get_introspection_query, parse, print_schema, validate
    from graphql.utilities import find_schema_changes, introspection_from_schema

    all_on = dict.fromkeys(OPTION_NAMES, True)
    results = {}
    if label.startswith("fam"):
        # schema family: all options on, all off, each single option off, each single option on (16 sets);
        # the hand-written schemas run all 128
        bit_sets = {(True,) * 7, (False,) * 7}
        for i in range(7):
            bit_sets.add(tuple(j != i for j in range(7)))
            bit_sets.add(tuple(j == i for j in range(7)))
        bit_sets = sorted(bit_sets)
    else:
        bit_sets = list(itertools.product([False, True], repeat=7))
    for bits in bit_sets:
        opts = dict(zip(OPTION_NAMES, bits))
        res.evaluations += 1
        res.executions += 1
        try:
            q = get_introspection_query(**opts)
            doc = parse(q)
            errs = validate(schema, doc)
            if errs:
                viol("introspection_query_invalid", label, f"options {opts}: {errs[0].message}")
                return
            r = execute_sync(schema, doc)
        except Exception as e:  # noqa: BLE001
            viol("introspection_raises", label, f"options {opts}: {type(e).__name__}: {e}")
            return
        if r.errors:
            viol("introspection_errors", label, f"options {opts}: {r.errors[0].message}")
            return
        p = conforms(schema, doc, r.data)
        if p:
            viol("result_does_not_conform", label, f"options {opts}: {p}")
            return
        try:
            via = introspection_from_schema(schema, **opts)
        except Exception as e:  # noqa: BLE001
            viol("introspection_from_schema_raises", label, f"options {opts}: {type(e).__name__}: {e}")
            return
        if json.dumps(via) != json.dumps(r.data):
            viol("introspection_from_schema_differs", label, f"options {opts}")
            return
        results[bits] = r.data
        res.outcome((label, bits, json.dumps(r.data)))
    full = results[(True,) * 7]
    for bits, got in results.items():
        res.evaluations += 1
        opts = dict(zip(OPTION_NAMES, bits))
        want = project(full, opts)
        if json.dumps(got) != json.dumps(want):
            g, w = json.dumps(got, sort_keys=True), json.dumps(want, sort_keys=True)
            i = next((i for i, (a, b) in enumerate(zip(g, w)) if a != b), min(len(g), len(w)))
            viol("projection_law", label, f"options {opts}: result differs from the projection of the full result near ...{g[max(0, i - 120):i + 60]}... vs ...{w[max(0, i - 120):i + 60]}...")
            return
    # client schema
    res.evaluations += 1
    try:
        client = build_client_schema(full)
        p1, p2 = print_schema(schema), print_schema(client)
    except Exception as e:  # noqa: BLE001
        viol("build_client_schema_raises", label, f"{type(e).__name__}: {e}")
        return
    if p1 != p2:
        viol("client_schema_prints_differently", label, f"original {p1!r} client {p2!r}")
        return
    try:
        ch = find_schema_changes(schema, client) + find_schema_changes(client, schema)
    except Exception as e:  # noqa: BLE001
        viol("find_schema_changes_raises", label, f"{type(e).__name__}: {e}")
        return
    if ch:
        viol("client_schema_differs", label, f"{[c.description for c in ch][:3]}")
        return
    again = introspection_from_schema(client, **all_on)
    if json.dumps(again) != json.dumps(full):
        g, w = json.dumps(again), json.dumps(full)
        i = next((i for i, (a, b) in enumerate(zip(g, w)) if a != b), min(len(g), len(w)))
        viol("client_schema_introspects_differently", label, f"near ...{g[max(0, i - 100):i + 80]}... vs ...{w[max(0, i - 100):i + 80]}...")
        return
    # single type lookups agree with the type list; unknown name gives null
    tdoc_all = parse("{ __schema { types { ...T } } }" + TYPE_FRAGMENT)
    rall = execute_sync(schema, tdoc_all)
    if rall.errors:
        viol("adhoc_introspection_errors", label, f"{rall.errors[0].message}")
        return
    for entry in rall.data["__schema"]["types"]:
        res.evaluations += 1
        res.executions += 1
        r1 = execute_sync(schema, parse('{ __type(name: "%s") { ...T } }' % entry["name"] + TYPE_FRAGMENT))
        if r1.errors or json.dumps(r1.data["__type"]) != json.dumps(entry):
            viol("type_lookup_differs_from_type_list", label, f"type {entry['name']}: {r1.errors or 'different entry'}")
            return
    r0 = execute_sync(schema, parse('{ __type(name: "NoSuchTypeAnywhere") { name } }'))
    if r0.errors or r0.data != {"__type": None}:
        viol("unknown_type_lookup", label, f"{r0.formatted}")
        return
    # includeDeprecated filters against the schema objects
    for inc in (True, False):
        res.evaluations += 1
        res.executions += 1
        flag = "true" if inc else "false"
        q = ("{ __schema { directives { name args(includeDeprecated: %s) { name isDeprecated } } types { name kind fields(includeDeprecated: %s) { name isDeprecated "
             "args(includeDeprecated: %s) { name isDeprecated deprecationReason } } inputFields(includeDeprecated: %s) { name isDeprecated } enumValues(includeDeprecated: %s) { name isDeprecated } } } }"
             % ((flag,) * 5))
        r = execute_sync(schema, parse(q))
        if r.errors:
            viol("adhoc_introspection_errors", label, f"{r.errors[0].message}")
            return
        for t in r.data["__schema"]["types"]:
            obj = schema.type_map[t["name"]]
            for key, attr in (("fields", "fields"), ("inputFields", "fields"), ("enumValues", "values")):
                got = t[key]
                members = getattr(obj, attr, None) if (key == "fields" and t["kind"] in ("OBJECT", "INTERFACE")) or (key == "inputFields" and t["kind"] == "INPUT_OBJECT") or (key == "enumValues" and t["kind"] == "ENUM") else None
                if members is None:
                    if got is not None:
                        viol("include_deprecated_filter", label, f"{t['name']}.{key} should be null")
                        return
                    continue
                want = [(n, m.deprecation_reason is not None) for n, m in members.items() if inc or m.deprecation_reason is None]
                if [(g["name"], g["isDeprecated"]) for g in got] != want:
                    viol("include_deprecated_filter", label, f"{t['name']}.{key}(includeDeprecated: {flag}) gave {[(g['name'], g['isDeprecated']) for g in got]}, schema says {want}")
                    return
                if key == "fields":
                    for g in got:
                        fargs = members[g["name"]].args
                        wa = [(n, a.deprecation_reason is not None) for n, a in fargs.items() if inc or a.deprecation_reason is None]
                        if [(x["name"], x["isDeprecated"]) for x in g["args"]] != wa:
                            viol("include_deprecated_filter", label, f"{t['name']}.{g['name']} args(includeDeprecated: {flag}) gave {g['args']}, schema says {wa}")
                            return
        for d in r.data["__schema"]["directives"]:
            dobj = next(x for x in schema.directives if x.name == d["name"])
            wa = [(n, a.deprecation_reason is not None) for n, a in dobj.args.items() if inc or a.deprecation_reason is None]
            if [(x["name"], x["isDeprecated"]) for x in d["args"]] != wa:
                viol("include_deprecated_filter", label, f"@{d['name']} args(includeDeprecated: {flag}) gave {d['args']}, schema says {wa}")
                return
    if schemafp_lite.fingerprint(client) != schemafp_lite.fingerprint(schema):
        res.count("lite_fingerprint_differs_but_print_equal")


def run_shard(shard, tier):
    res = Result()
    _k, i = shard
    label, schema = all_schemas(tier)[i]

    def viol(sig, lab, summary):
        res.violation(sig, f"schema {lab}: {summary}", {"schema_index": i, "label": lab})

    check_schema(label, schema, res, viol)
    res.states += 1
    res.transitions += 128
    if i == 5:
        res.sample({"schema": SDLS[5], "option_sets": 128})
    return res


def replay(payload):
    res = Result()
    out = []
    label, schema = all_schemas("thorough")[payload["schema_index"]] if payload["label"].startswith("fam:") else all_schemas("quick")[payload["schema_index"]]

    def viol(sig, lab, summary):
        out.append({"signature": sig, "summary": f"schema {lab}: {summary}"})

    check_schema(label, schema, res, viol)
    return out
