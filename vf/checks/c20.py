"""C20  Schema validation reports every type-system violation and never crashes."""

from __future__ import annotations

import itertools
import traceback

from vf.engine.runner import Result
from vf.gen import violations as V
from vf.ref import schemarules as R

ID = "C20"
TITLE = "Schema validation reports every type-system violation and never crashes"
BOUNDS = {
    "quick": (
        "wrapped type references in named-type positions (programmatic, 4 wrappers x 4 positions x with/without the cooperating shape); "
        "five request shapes against every invalid schema; base declared valid and then extended (split_base_av); "
        "216-entry menu (170 rule violations covering 42 rule classes in all variants + 46 legal near-misses; 127 "
        "'primary' violation entries = without the secondary literal/type variants). Base 'full' (12 definitions + "
        "directive), roots declared as schema{..} + extend schema @d + extend schema{..}: every single and every "
        "double of the 216 x {SDL assume_valid_sdl, programmatic with literal defaults}; every single and every "
        "double of primary violations x {definition + extend_schema, programmatic with value defaults}; the 4 other "
        "root-declaration shapes (conventional names, schema{..}, conventional + extend schema @d, schema{..} + "
        "extension + directive extension): every single and every double holding a root entry x SDL "
        "assume_valid_sdl (SDL validated: singles, and all root doubles on two shapes); bases 'rev' (reverse order), "
        "'chain' (3-deep interfaces, 3 roots), 'small': every single x 7 build forms, every double of primary "
        "violations x SDL assume_valid_sdl"
    ),
    "thorough": (
        "4 bases x 5 root-declaration shapes x every single and every double of the 216 entries x SDL "
        "assume_valid_sdl; definition + extend_schema: every double on 2 shapes, doubles of the 127 primary "
        "violations on the other 3; {definition validated first then extended, one document with type extensions}: "
        "primary doubles on 2 shapes, singles elsewhere; SDL validated: every double on 2 bases x 2 shapes, root "
        "doubles elsewhere; 4 bases x every single and double x 2 programmatic forms; base 'full' x every triple of "
        "the 127 primary violation entries x SDL assume_valid_sdl"
    ),
}
RULE = (
    "exhaustive: every single and every double (thorough: core triples) application of the violation menu "
    "(vf/gen/violations.py: one entry per type-system rule bullet in every variant that matters, plus legal "
    "near-misses) to valid base schemas, each built from SDL (with and without SDL pre-validation), as "
    "definition + extend_schema, and programmatically. Oracle per constructible schema: validate_schema returns a "
    "list of GraphQLError and does not raise; the list is empty <=> the independent rule checker "
    "(vf/ref/schemarules.py) finds no violation; a second call returns the same list; every error renders; "
    "graphql_sync(schema, '{ __typename }') returns data None with exactly those errors when invalid and "
    "{'__typename': <query type>} without errors when valid; nothing raises. distinct = distinct (sets of violated "
    "rule classes, verdict) observations"
)
ASSUMPTIONS = [
    "the reference rule checker is written from the specification (October 2021 + the draft's OneOf, default-value "
    "coercion / default-value cycle rules and 'implementation field must not be deprecated unless the interface "
    "field is'); only 'some violation' vs 'none' is compared, not the individual messages",
    "a schema counts as constructible when build_schema / extend_schema / the type constructors return it; "
    "descriptions refused at construction (SDL pre-validation errors, empty directive locations in SDL) are counted, "
    "not judged",
    "names: only the reserved '__' prefix (other illegal names are refused by the constructors)",
    "the rule 'a directive must not reference itself' is outside the property statement",
]

SDL_MODES = ["sdl_av", "sdl", "split_av", "split_pre", "split_doc", "split_base_av"]
PROG_MODES = ["prog_lit", "prog_val"]
N = len(V.MENU)
ROOT_IDX = [i for i, m in enumerate(V.MENU) if m["id"].startswith("root.")]

# secondary variants of one rule bullet (further literal shapes, further output types in input position):
# always applied singly and in every pair of the "all" plans; left out of the cheaper "viol2" pairs (primary
# violation entries only) and of the thorough triples
_SECONDARY_PREFIX = ("default.arg:", "pos.arg.output.", "pos.input_field.output.", "pos.directive_arg.output.")
_PRIMARY = {"default.arg:Int=\"s\"", "default.arg:In={zz: 1}", "default.arg:O={}", "default.arg:Other={}",
            "default.arg:E=\"X\"", "default.arg:[Int]=1", "default.arg:Other={k: 1, i: {q: [{p: 1}]}}",
            "pos.arg.output.0:T", "pos.arg.output.5:Query=1", "pos.arg.output.7:U=null",
            "pos.input_field.output.0:T", "pos.input_field.output.1:T=1", "pos.directive_arg.output.1:T=1"}
assert all(x in V.MENU_INDEX for x in _PRIMARY)
QSET = [i for i, m in enumerate(V.MENU) if m["id"] in _PRIMARY or not m["id"].startswith(_SECONDARY_PREFIX)]
CORE = [i for i in QSET if V.MENU[i]["expect"] is not None]
_ROOT = frozenset(ROOT_IDX)
_C = frozenset(CORE)


# --- the enumerated space ------------------------------------------------------------------------


def plans(tier):
    """-> list of (content, shape, modes, selector).  selector: all = every single and every pair;
    viol2 = every single, every pair of primary violation entries; root = every single, every pair
    holding a root entry; singles; triples = every single, every triple of primary violation entries."""
    out = []
    if tier == "quick":
        out.append(("full", "def_dir_ext", ["sdl_av", "prog_lit"], "all"))
        out.append(("full", "def_dir_ext", ["split_av", "prog_val"], "viol2"))
        out.append(("full", "def_dir_ext", ["sdl"], "root"))
        out.append(("full", "conv_dir", ["sdl_av", "sdl"], "root"))
        for shape in ("conv", "def", "def_ext_dir"):
            out.append(("full", shape, ["sdl_av"], "root"))
            out.append(("full", shape, ["sdl", "split_av"], "singles"))
        for content, shape in (("rev", "conv"), ("chain", "def_ext_dir"), ("small", "conv_dir")):
            out.append((content, shape, ["sdl_av"], "viol2"))
            out.append((content, shape, ["sdl", "split_av", "split_pre", "split_doc", "split_base_av", "prog_lit", "prog_val"],
                        "singles"))
    else:
        for content in V.CONTENTS:
            for shape in V.SHAPES:
                main = shape in ("conv", "def_dir_ext")
                out.append((content, shape, ["sdl_av"] + (PROG_MODES if shape == "conv" else []), "all"))
                out.append((content, shape, ["split_av"], "all" if main else "viol2"))
                out.append((content, shape, ["split_pre", "split_doc", "split_base_av"], "viol2" if main else "singles"))
                # SDL pre-validation costs as much as everything else together
                out.append((content, shape, ["sdl"], "all" if main and content in ("full", "chain") else "root"))
        out.append(("full", "def_dir_ext", ["sdl_av"], "triples"))
    return out


def combos(selector, first):
    """Index tuples of the menu whose smallest index is ``first``."""
    part = None
    if isinstance(first, tuple):  # (row, part, parts): a slice of a long triple row
        first, part, parts = first
    if not part:
        yield (first,)
    if selector == "singles":
        return
    if selector == "triples":
        if first not in CORE:
            return
        rest = [i for i in CORE if i > first]
        for n, pair in enumerate(itertools.combinations(rest, 2)):
            if part is None or n % parts == part:
                yield (first,) + pair
        return
    for j in range(first + 1, N):
        if selector == "root" and first not in _ROOT and j not in _ROOT:
            continue
        if selector == "viol2" and not (first in _C and j in _C):
            continue
        yield (first, j)


def shards(tier):
    out = [("wrapped", ())]
    for pi, (content, shape, modes, selector) in enumerate(plans(tier)):
        if selector == "triples":
            for pos, first in enumerate(CORE):
                parts = 4 if pos < len(CORE) // 3 else (2 if pos < 2 * len(CORE) // 3 else 1)
                for part in range(parts):
                    out.append((pi, ((first, part, parts),)))
            # single applications of the non-core entries
            out.append((pi, tuple(i for i in range(N) if i not in CORE)))
            continue
        # pair up a long row with a short one: rows first and N-1-first together hold N+1 cases
        groups = {"root": 6, "singles": 1, "viol2": 10}.get(selector, 27 if tier == "quick" else 12)
        half = (N + 1) // 2
        for g in range(groups):
            firsts = []
            for a in range(g, half, groups):
                firsts.append(a)
                if N - 1 - a != a:
                    firsts.append(N - 1 - a)
            if firsts:
                out.append((pi, tuple(firsts)))
    return out


# --- building ---------------------------------------------------------------------------------------


_DEFS = {}


def _document(text):
    """DocumentNode of a rendering (one definition per line); definitions are parsed once per process."""
    from graphql import DocumentNode, parse

    defs = []
    for line in text.split("\n"):
        if line:
            node = _DEFS.get(line)
            if node is None:
                node = _DEFS[line] = parse(line).definitions[0]
            defs.append(node)
    return DocumentNode(definitions=tuple(defs))


def build(ir, shape, mode, whole):
    """-> (schema, text) ; raises what the constructors raise; (None, None) when there is no such form.
    whole=True: the text goes through build_schema/parse as one source (used for single applications);
    otherwise the document is assembled from per-definition parses (same AST, ~4x cheaper)."""
    from graphql import build_ast_schema, build_schema, extend_schema, parse, validate_schema

    if mode in PROG_MODES:
        return V.build_programmatic(ir, "lit" if mode == "prog_lit" else "val"), "# programmatic\n" + str(
            V.to_sdl(ir, "def"))
    if mode in ("sdl_av", "sdl"):
        sdl = V.to_sdl(ir, shape)
        if sdl is None:
            return None, None
        if whole:
            return build_schema(sdl, assume_valid_sdl=(mode == "sdl_av")), sdl
        return build_ast_schema(_document(sdl), assume_valid_sdl=(mode == "sdl_av")), sdl
    parts = V.to_sdl_split(ir, shape)
    if parts is None:
        return None, None
    base, ext = parts
    doc = parse if whole else _document
    if mode == "split_doc":
        text = base + "\n" + ext
        return build_ast_schema(doc(text), assume_valid_sdl=True), text
    if mode == "split_base_av":
        if not ext:
            return None, None  # nothing to extend with: the base alone is, by declaration, not validated
        # the base is declared valid by its builder; what extend_schema returns is a new schema that is not
        schema = build_ast_schema(doc(base), assume_valid=True)
        validate_schema(schema)
    else:
        schema = build_ast_schema(doc(base), assume_valid_sdl=True)
    if mode == "split_pre":
        validate_schema(schema)  # the extended schema must not inherit this verdict
    if ext:
        schema = extend_schema(schema, doc(ext), assume_valid_sdl=True)
    return schema, base + "\n# --- extend_schema ---\n" + ext


def _where(exc):
    """innermost frame inside the graphql package: a stable name for the crash site"""
    name = "?"
    for fr in traceback.extract_tb(exc.__traceback__):
        if "/graphql/" in fr.filename:
            name = fr.name
    return name


def _msg_class(message):
    words = [w for w in message.split() if w[0].isalpha() and w[0].islower() and "." not in w and "(" not in w]
    return " ".join(words[:6])


def judge(schema, res):
    """-> None or (signature, detail)"""
    from graphql import GraphQLError, graphql_sync, validate_schema

    ref = R.violations(schema)
    classes = sorted({c for c, _ in ref})
    res.executions += 1
    try:
        errs = validate_schema(schema)
    except Exception as e:  # noqa: BLE001
        res.outcome(("raises", type(e).__name__, tuple(classes)))
        return (f"validate_schema_raises:{type(e).__name__}@{_where(e)}",
                f"validate_schema raised {type(e).__name__}: {e} (reference: {classes})")
    res.evaluations += 1
    if not isinstance(errs, list) or not all(isinstance(e, GraphQLError) for e in errs):
        return ("validate_schema_result_type", f"returned {errs!r}")
    messages = [e.message for e in errs]
    res.outcome((tuple(classes), bool(errs)))
    if classes and not errs:
        return ("accepts_invalid:" + "+".join(classes), f"validate_schema returned [] but the schema breaks {ref}")
    if errs and not classes:
        return ("rejects_valid:" + _msg_class(messages[0]),
                f"the reference finds no rule violation but validate_schema reports {messages}")
    res.evaluations += 1
    try:
        again = validate_schema(schema)
    except Exception as e:  # noqa: BLE001
        return (f"second_validate_raises:{type(e).__name__}", f"{e}")
    if again != errs or [e.message for e in again] != messages:
        return ("second_validate_differs", f"first {messages}, second {[e.message for e in again]}")
    res.evaluations += 1
    try:
        for e in errs:
            str(e)
            e.formatted  # noqa: B018
    except Exception as e:  # noqa: BLE001
        return (f"error_rendering_raises:{type(e).__name__}@{_where(e)}", f"{e}")
    res.evaluations += 1
    res.executions += 1
    try:
        result = graphql_sync(schema, "{ __typename }")
        formatted = result.formatted
    except Exception as e:  # noqa: BLE001
        return (f"graphql_sync_raises:{type(e).__name__}@{_where(e)}",
                f"graphql_sync raised {type(e).__name__}: {e} (schema errors: {messages})")
    if errs:
        got = [e.message for e in result.errors or []]
        if result.data is not None or got != messages:
            return ("request_on_invalid_schema", f"data={result.data!r} errors={got} but schema errors {messages}")
        if [e["message"] for e in formatted.get("errors", [])] != messages:
            return ("request_on_invalid_schema_formatted", repr(formatted))
        # whatever the request looks like (unparsable, over the token limit, invalid, unknown operation): an invalid schema answers
        # with its own errors
        from graphql import graphql_sync as gs

        for label, kw in (("syntax_error", {"source": "{"}), ("empty", {"source": ""}), ("invalid_document", {"source": "{ nope { x } }"}),
                          ("unknown_operation", {"source": "{ __typename }", "operation_name": "Nope"}),
                          ("bad_variables", {"source": "query ($v: Int!) { __typename }", "variable_values": {"v": "x"}})):
            res.executions += 1
            try:
                r2 = gs(schema, **kw)
            except Exception as e:  # noqa: BLE001
                return (f"graphql_sync_raises:{type(e).__name__}@{_where(e)}", f"request {label}: {type(e).__name__}: {e}")
            got2 = [e.message for e in r2.errors or []]
            if r2.data is not None or got2 != messages:
                return (f"request_on_invalid_schema:{label}", f"request {label}: data={r2.data!r} errors={got2} but schema errors {messages}")
    else:
        want = {"__typename": schema.query_type.name}
        if result.errors or result.data != want:
            return ("request_on_valid_schema", f"data={result.data!r} errors={result.errors!r}, want data {want}")
    # schemas derived from an already validated schema (copy through to_kwargs, lexicographic sort) get the same verdict
    from graphql import GraphQLSchema
    from graphql.utilities import lexicographic_sort_schema

    import copy

    for how, derive in (("to_kwargs", lambda s: GraphQLSchema(**s.to_kwargs())), ("sorted", lexicographic_sort_schema), ("deepcopy", copy.deepcopy)):
        res.evaluations += 1
        res.executions += 1
        try:
            derived = derive(schema)
            derrs = validate_schema(derived)
        except Exception as e:  # noqa: BLE001
            if errs:
                continue  # an invalid schema may legitimately refuse to be copied / sorted
            return (f"derived_schema_raises:{how}:{type(e).__name__}", f"{how}: {type(e).__name__}: {e}")
        if bool(derrs) != bool(errs):
            return (f"derived_schema_verdict_differs:{how}",
                    f"schema errors {messages[:2]} but the schema derived via {how} after validation reports {[e.message for e in derrs][:2]}")
    return None


def run_case(content, shape, mode, ids, res):
    """-> None or (signature, summary)"""
    ir = V.apply(content, ids)
    if ir is None:
        res.count("inapplicable")
        return None
    try:
        schema, text = build(ir, shape, mode, whole=len(ids) == 1)
    except Exception as e:  # noqa: BLE001
        # refused at construction: not a constructible schema
        res.count(f"refused[{mode}]:{type(e).__name__}")
        if mode not in ("sdl",) and not isinstance(e, TypeError):
            res.notes.append(f"construction raised {type(e).__name__} in mode {mode}: {ids}")
        return None
    if schema is None:
        res.count(f"no_form[{mode}]")
        return None
    res.states += 1
    res.transitions += len(ids)
    res.count(f"judged[{mode}]")
    verdict = judge(schema, res)
    # self-test of menu and reference on single applications: a violation entry must break its rule
    # class, a near-miss must keep the schema valid (bases 'full' and 'rev' hold every target)
    if verdict is None and len(ids) == 1 and content in ("full", "rev"):
        m = V.MENU[V.MENU_INDEX[ids[0]]]
        expect = None if (mode == "prog_val" and m["val_legal"]) else m["expect"]
        classes = {c for c, _ in R.violations(schema)}
        if (expect is None and classes) or (expect is not None and expect not in classes):
            verdict = (f"selftest:menu_vs_reference:{ids[0]}", f"expected {expect}, reference says {sorted(classes)}")
    if verdict is None:
        return None
    sig, detail = verdict
    return sig, f"{content}/{shape}/{mode} + {list(ids)}: {detail}\n--- schema ---\n{text}"


def wrapped_schemas():
    """Programmatic schemas with a WRAPPED type (list / non-null) where only a named type of a certain kind is allowed - the
    constructors accept them, SDL cannot express them.  Every one is invalid.  Each position comes with and without the second
    shape that makes other validation steps look at the bad reference (an implementing type, a covariance check)."""
    import graphql as g

    L, NN = g.GraphQLList, g.GraphQLNonNull
    wraps = [("list", L), ("nonnull", NN), ("nonnull_list", lambda t: NN(L(t))), ("list_nonnull", lambda t: L(NN(t)))]
    out = []
    for wn, w in wraps:
        def base():
            obj = g.GraphQLObjectType("Obj", {"f": g.GraphQLField(g.GraphQLString)})
            q = g.GraphQLObjectType("Query", {"o": g.GraphQLField(obj)})
            return obj, q

        for op in ("query", "mutation", "subscription"):
            for with_query in (True, False):
                obj, q = base()
                kw = {op: w(obj)}
                if op != "query" and with_query:
                    kw["query"] = q
                out.append((f"root:{op}:{wn}:{'with' if with_query else 'without'}_query", lambda kw=kw: g.GraphQLSchema(**kw)))
        for impl in (False, True):
            def union_case(impl=impl):
                obj, _q = base()
                u = g.GraphQLUnionType("U", [w(obj)])
                i = g.GraphQLInterfaceType("I", {"u": g.GraphQLField(u)})
                q = g.GraphQLObjectType("Query", {"u": g.GraphQLField(obj if impl else u)}, interfaces=[i] if impl else [])
                return g.GraphQLSchema(query=q, types=[u, i, obj])
            out.append((f"union_member:{wn}:{'covariance' if impl else 'plain'}", union_case))

            def ancestor_case(impl=impl):
                i0 = g.GraphQLInterfaceType("I0", {"a": g.GraphQLField(g.GraphQLInt)})
                i = g.GraphQLInterfaceType("I", {"a": g.GraphQLField(g.GraphQLInt)}, interfaces=[w(i0)])
                q = g.GraphQLObjectType("Query", {"a": g.GraphQLField(g.GraphQLInt)}, interfaces=[i] if impl else [])
                return g.GraphQLSchema(query=q, types=[i0, i])
            out.append((f"interface_ancestor:{wn}:{'implemented' if impl else 'plain'}", ancestor_case))

            def object_iface_case(impl=impl):
                i0 = g.GraphQLInterfaceType("I0", {"a": g.GraphQLField(g.GraphQLInt)})
                t = g.GraphQLObjectType("T", {"a": g.GraphQLField(g.GraphQLInt)}, interfaces=[w(i0)])
                q = g.GraphQLObjectType("Query", {"t": g.GraphQLField(i0 if impl else t)})
                return g.GraphQLSchema(query=q, types=[i0, t])
            out.append((f"object_interface:{wn}:{'abstract_field' if impl else 'plain'}", object_iface_case))
    return out


def run_wrapped(res):
    from graphql import GraphQLError, graphql_sync, validate_schema

    for label, make in wrapped_schemas():
        res.states += 1
        res.transitions += 1
        try:
            schema = make()
        except (TypeError, ValueError):
            res.count("wrapped_reference_refused_by_constructor")
            continue  # the constructor refuses it: nothing to validate
        res.executions += 1
        res.evaluations += 1
        payload = {"wrapped": label}
        try:
            errs = validate_schema(schema)
        except Exception as e:  # noqa: BLE001
            res.violation(f"validate_schema_raises:{type(e).__name__}@{_where(e)}",
                          f"programmatic schema with a wrapped type reference ({label}): validate_schema raised {type(e).__name__}: {e}", payload)
            continue
        if not isinstance(errs, list) or not errs or not all(isinstance(e, GraphQLError) for e in errs):
            res.violation("accepts_invalid:wrapped_reference", f"{label}: validate_schema returned {errs!r}", payload)
            continue
        try:
            again = validate_schema(schema)
            for e in errs:
                str(e)
                e.formatted  # noqa: B018
            r = graphql_sync(schema, "{ __typename }")
        except Exception as e:  # noqa: BLE001
            res.violation(f"request_or_rendering_raises:{type(e).__name__}@{_where(e)}", f"{label}: {type(e).__name__}: {e}", payload)
            continue
        if [e.message for e in again] != [e.message for e in errs]:
            res.violation("second_validate_differs", f"{label}", payload)
            continue
        if r.data is not None or not r.errors:
            res.violation("request_executes_on_invalid_schema", f"{label}: {r}", payload)
            continue
        res.outcome(("wrapped", label, tuple(e.message for e in errs)))
    res.sample({"family": "wrapped type references (programmatic only)", "positions": ["root", "union member", "interface ancestor", "object interface"]}, 1)


def run_shard(shard, tier):
    res = Result()
    pi, firsts = shard
    if pi == "wrapped":
        run_wrapped(res)
        return res
    content, shape, modes, selector = plans(tier)[pi]
    res.max_depth = 3 if selector == "triples" else 2
    for first in firsts:
        for combo in combos(selector, first):
            ids = tuple(V.MENU[i]["id"] for i in combo)
            for mode in modes:
                v = run_case(content, shape, mode, ids, res)
                if v is not None:
                    res.violation(v[0], v[1], {"content": content, "shape": shape, "mode": mode, "ids": list(ids)})
    if pi == 0 and firsts and firsts[0] in (0, (0, 0, 4)):
        from graphql import validate_schema

        for ids in (["impl.extra_required.no_interface_args", "root.same.query_mutation"],
                    ["pos.input_field.output.0:T", "default.arg.names_bad"], ["impl.extra_optional.defaulted"]):
            try:  # illustration only: the verdicts on these cases are made in the loop above
                ir = V.apply(content, ids)
                schema, text = build(ir, shape, "sdl_av", whole=True)
                res.sample({"base": content, "roots": shape, "applied": ids, "sdl": text, "reference": R.classes(schema),
                            "validate_schema": [e.message for e in validate_schema(schema)]})
            except Exception as e:  # noqa: BLE001
                res.sample({"base": content, "roots": shape, "applied": ids, "raised": repr(e)})
    return res


def replay(payload):
    res = Result()
    if "wrapped" in payload:
        run_wrapped(res)
        return [{"signature": v["signature"], "summary": v["summary"]} for v in res.violations if v["replay"] == payload]
    v = run_case(payload["content"], payload["shape"], payload["mode"], tuple(payload["ids"]), res)
    return [] if v is None else [{"signature": v[0], "summary": v[1]}]
