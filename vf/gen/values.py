"""The Python value menu for C15 (input values) and C16 (resolver results).

Deterministic and finite.  ``menu()`` builds *fresh* objects on every call (mutable
containers are never shared between cases); every entry has a stable label that is
what replay payloads store (``by_label``).  ``CORE`` is the subset used where values
are combined (lists of <=2 items, dict field values): one or two representatives of
every behaviour class (each Python type x {accepted, rejected at an edge}).

No import of the code under test except the ``Undefined`` singleton.
"""

from __future__ import annotations

import enum
from decimal import Decimal
from fractions import Fraction

# --- helper classes ------------------------------------------------------------


class MyInt(int):
    pass


class MyFloat(float):
    pass


class MyStr(str):
    __slots__ = ()


class Num(enum.IntEnum):
    ONE = 1
    TWO = 2
    BIG = 2 ** 31


class Plain(enum.Enum):
    RED = 1
    GREEN = "GREEN"


class StrEnumLike(str, enum.Enum):
    A = "A"
    X = "x"


class StrObj:
    """object with __str__ only"""

    def __init__(self, text):
        self.text = text

    def __str__(self):
        return self.text

    def __repr__(self):
        return f"StrObj({self.text!r})"


class IntObj:
    def __init__(self, n):
        self.n = n

    def __int__(self):
        return self.n

    def __repr__(self):
        return f"IntObj({self.n!r})"


class IndexObj:
    def __init__(self, n):
        self.n = n

    def __index__(self):
        return self.n

    def __repr__(self):
        return f"IndexObj({self.n!r})"


class FloatObj:
    def __init__(self, x):
        self.x = x

    def __float__(self):
        return self.x

    def __repr__(self):
        return f"FloatObj({self.x!r})"


class BoolObj:
    def __init__(self, b):
        self.b = b

    def __bool__(self):
        return self.b

    def __repr__(self):
        return f"BoolObj({self.b!r})"


class Bare:
    def __repr__(self):
        return "Bare()"


class StrRaises:
    def __str__(self):
        raise ValueError("no text")

    def __repr__(self):
        return "StrRaises()"


# --- the menu --------------------------------------------------------------------

_INTS = [
    0, 1, -1, 2, 7, 10, 1000,
    2 ** 31 - 1, 2 ** 31, -(2 ** 31), -(2 ** 31) - 1, 2 ** 32, -(2 ** 32),
    2 ** 53 - 1, 2 ** 53, 2 ** 53 + 1, 2 ** 53 + 2, -(2 ** 53) + 1, -(2 ** 53), -(2 ** 53) - 1, -(2 ** 53) - 2,
    2 ** 63, 2 ** 64 + 1, -(2 ** 60) - 1, 10 ** 22, 10 ** 22 + 1, -(10 ** 22) - 1, 10 ** 23,
    2 ** 1023, 2 ** 1024, -(2 ** 1024), 10 ** 400, -(10 ** 400),
]

_FLOATS = [
    "0.0", "-0.0", "1.0", "-1.0", "3.0", "0.5", "1.5", "-1.5", "0.1", "1e-07", "5e-324", "-5e-324",
    "2.2250738585072014e-308", "1e308", "-1e308", "1.7976931348623157e308", "-1.7976931348623157e308",
    "2147483647.0", "2147483648.0", "-2147483648.0", "-2147483649.0", "2147483647.5", "-2147483648.5",
    "4294967296.0", "9007199254740992.0", "9007199254740994.0", "-9007199254740994.0", "1e16", "1e22", "1e23",
    "nan", "inf", "-inf",
]

_STRS = [
    "", " ", "a", "A", "B", "RED", "red", "Red", "RED ", " RED", "r", "GREEN", "ONE", "1", "0", "2", " 1", "1 ", "\t1", "1\n", "+1", "-1", "-0", "01", "1.0", "1.5",
    ".5", "1.", "1e3", "1E3", "1e-3", "1e999", "-1e400", "1.8e308", "4e-324", "1e-400", "9" * 400, "-" + "9" * 310 + ".5",
    "0x10", "0b1", "0o7", "١", "١٢", "１", "²", "1_0", "1__0", "_1", "nan", "NaN", "-nan", "inf", "-inf",
    "Infinity", " +inf ", "true", "false", "True", "False", "null", "None", "2147483647", "2147483648", "-2147483648",
    "-2147483649", "9007199254740993", "1,5", "1/2", "1j", "−" + "1", "x y", "é", "\U0001f600",
]


def menu():
    """Fresh list of (label, value)."""
    from graphql.pyutils import Undefined

    out = [("None", None), ("Undefined", Undefined), ("True", True), ("False", False)]
    for n in _INTS:
        out.append((_ilabel(n), n))
    for s in _FLOATS:
        out.append((f"float:{s}", float(s)))
    for s in _STRS:
        out.append((_slabel(s), s))
    out += [
        ("bytes:", b""), ("bytes:1", b"1"), ("bytes:a", b"a"), ("bytearray:1", bytearray(b"1")),
        ("memoryview:1", memoryview(b"1")),
        ("list:", []), ("list:1", [1]), ("list:1,2", [1, 2]), ("list:None", [None]), ("list:s", ["a"]), ("list:[1]", [[1]]),
        ("tuple:", ()), ("tuple:1", (1,)), ("tuple:1,2", (1, 2)),
        ("dict:", {}), ("dict:x=1", {"x": 1}), ("dict:1=1", {1: 1}), ("dict:zz=None", {"zz": None}),
        ("dict:zz=Undefined", {"zz": Undefined}), ("dict:v=1", {"v": 1}), ("dict:a=s", {"a": "s"}), ("dict:x=1,zz=None", {"x": 1, "zz": None}),
        ("set:", set()), ("set:1", {1}), ("frozenset:1", frozenset({1})),
        ("range:0", range(0)), ("range:2", range(2)), ("range:1..2", range(1, 2)),
        ("complex:1", complex(1, 0)), ("complex:j", complex(0, 1)),
        ("MyInt:5", MyInt(5)), ("MyInt:0", MyInt(0)), ("MyInt:2^31", MyInt(2 ** 31)), ("MyInt:-2^53-1", MyInt(-(2 ** 53) - 1)),
        ("MyFloat:1.5", MyFloat(1.5)), ("MyFloat:3.0", MyFloat(3.0)), ("MyFloat:nan", MyFloat("nan")), ("MyFloat:inf", MyFloat("inf")),
        ("MyStr:s", MyStr("s")), ("MyStr:1", MyStr("1")), ("MyStr:A", MyStr("A")), ("MyStr:", MyStr("")),
        ("Num.ONE", Num.ONE), ("Num.TWO", Num.TWO), ("Num.BIG", Num.BIG), ("Plain.RED", Plain.RED), ("Plain.GREEN", Plain.GREEN),
        ("StrEnumLike.A", StrEnumLike.A), ("StrEnumLike.X", StrEnumLike.X),
        ("Decimal:1", Decimal("1")), ("Decimal:1.5", Decimal("1.5")), ("Decimal:1.50", Decimal("1.50")), ("Decimal:NaN", Decimal("NaN")),
        ("Decimal:Infinity", Decimal("Infinity")), ("Decimal:1E+400", Decimal("1E+400")), ("Decimal:0.1", Decimal("0.1")),
        ("Fraction:1/2", Fraction(1, 2)), ("Fraction:3", Fraction(3, 1)), ("Fraction:1/3", Fraction(1, 3)),
        ("StrObj:text", StrObj("text")), ("StrObj:1", StrObj("1")), ("StrObj:A", StrObj("A")), ("StrObj:", StrObj("")),
        ("IntObj:7", IntObj(7)), ("IntObj:2^31", IntObj(2 ** 31)), ("IndexObj:7", IndexObj(7)),
        ("FloatObj:1.5", FloatObj(1.5)), ("FloatObj:nan", FloatObj(float("nan"))),
        ("BoolObj:False", BoolObj(False)), ("BoolObj:True", BoolObj(True)),
        ("Bare", Bare()), ("StrRaises", StrRaises()), ("object", _Opaque()),
        ("Ellipsis", Ellipsis), ("NotImplemented", NotImplemented), ("type:int", int),
    ]
    return out


class _Opaque:
    def __repr__(self):
        return "<opaque>"


def _ilabel(n):
    s = str(n)
    return "int:" + (s if len(s) <= 24 else f"{s[:6]}..({len(s)} digits)..{s[-3:]}")


def _slabel(s):
    return "str:" + (s if len(s) <= 24 else f"{s[:6]}..({len(s)} chars)..{s[-6:]}")


def labels():
    return [l for l, _ in menu()]


def by_label(label):
    for l, v in menu():
        if l == label:
            return v
    raise KeyError(label)


# one or two representatives per behaviour class, for combination (lists, dict fields)
CORE = [
    "None", "Undefined", "True", "int:0", "int:1", "int:2147483647", "int:2147483648", "int:-2147483648",
    "int:9007199254740993", _ilabel(10 ** 400), "float:1.0", "float:1.5", "float:-0.0", "float:2147483648.0",
    "float:nan", "float:inf", "str:", "str:a", "str:A", "str:1", "str:1e3", "bytes:1", "list:", "list:1", "tuple:1",
    "dict:", "dict:x=1", "dict:zz=None", "dict:v=1", "dict:a=s", "set:1", "range:2", "MyInt:5", "MyStr:A", "Num.ONE", "Decimal:1", "StrObj:1", "Bare",
]

# a smaller set for the innermost level of combinations
MINI = ["None", "Undefined", "True", "int:1", "int:2147483648", "float:1.5", "float:nan", "str:a", "str:A", "str:1", "list:1", "dict:x=1"]


def core():
    want = set(CORE)
    return [(l, v) for l, v in menu() if l in want]


def mini():
    want = set(MINI)
    return [(l, v) for l, v in menu() if l in want]


def _selfcheck():
    ls = labels()
    assert len(ls) == len(set(ls)), [l for l in ls if ls.count(l) > 1]
    missing = [l for l in CORE + MINI if l not in ls]
    assert not missing, missing


def describe(value, limit=60):
    try:
        r = repr(value)
    except Exception as e:  # noqa: BLE001
        r = f"<repr raised {type(e).__name__}>"
    if len(r) > limit:
        r = r[: limit - 12] + f"..({len(r)} chars)"
    return f"{type(value).__name__}:{r}"
