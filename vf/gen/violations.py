"""Schema descriptions (plain data), their renderings and the *violation menu* of C20.

A schema description ("ir") is a dict of plain data:

    {"roots": {"query": "Query", "mutation": "Mutation"},          # operation -> type name
     "directives": {name: {"args": {an: ARG}, "locations": [...], "repeatable": bool}},
     "types": {name: TYPE}}                                        # definition order matters
    TYPE = {"kind": "object"|"interface", "fields": {fn: FIELD}, "interfaces": [names]}
         | {"kind": "union", "members": [names]} | {"kind": "enum", "values": {vn: deprecated?}}
         | {"kind": "scalar"} | {"kind": "input", "fields": {fn: ARG}, "oneof": bool}
    FIELD = {"type": "[T!]", "args": {an: ARG}, "dep": bool}
    ARG   = {"type": "In!", "default": "<const literal text>"|None, "dep": bool}

Renderings (the code under test is only used through its public constructors):
    to_sdl(ir, shape)            one SDL document (None when the description has no SDL form)
    to_sdl_split(ir, shape)      (base document, extension document): every type is cut into a
                                 definition holding its first field/member/value/interface and an
                                 ``extend`` carrying the rest
    build_programmatic(ir, how)  GraphQLSchema built with the type constructors; defaults as
                                 GraphQLDefaultInput(literal=..) (how="lit") or (value=..) ("val")

``shape`` says how the root operation types are declared:
    conv          by conventional names, no schema definition
    def           schema { query: .. mutation: .. }
    def_dir_ext   schema { <first> }  extend schema @d  extend schema { <next> } ...
    conv_dir      conventional names + extend schema @d
    def_ext_dir   schema { <first> }  extend schema { <rest> }  extend schema @d
(conv / conv_dir fall back to def / def_dir_ext when the roots are not conventional).

MENU is the list of (id, expect, fn): ``fn(ir)`` edits a description in place (KeyError =
not applicable); ``expect`` is the rule class (see vf/ref/schemarules.py) a *single*
application to the full base must break, or None for a legal variation ("near miss")
that must keep the schema valid.
"""

from __future__ import annotations

import copy

SHAPES = ["conv", "def", "def_dir_ext", "conv_dir", "def_ext_dir"]
OPS = ["query", "mutation", "subscription"]


def arg(t, default=None, dep=False):
    return {"type": t, "default": default, "dep": dep}


def fld(t, args=None, dep=False):
    return {"type": t, "args": dict(args or {}), "dep": dep}


def obj(fields, interfaces=()):
    return {"kind": "object", "fields": dict(fields), "interfaces": list(interfaces)}


def iface(fields, interfaces=()):
    return {"kind": "interface", "fields": dict(fields), "interfaces": list(interfaces)}


def union(members):
    return {"kind": "union", "members": list(members)}


def enum(values):
    return {"kind": "enum", "values": dict(values)}


def scalar():
    return {"kind": "scalar"}


def inp(fields, oneof=False):
    return {"kind": "input", "fields": dict(fields), "oneof": oneof}


# --- base schemas (all valid) -----------------------------------------------------------


def content_full():
    return {
        "roots": {"query": "Query", "mutation": "Mutation"},
        "directives": {
            "d": {"args": {"a": arg("In", "{p: 3}"), "n": arg("Int")},
                  "locations": ["FIELD", "OBJECT", "SCHEMA"], "repeatable": True},
        },
        "types": {
            "Query": obj({
                "a": fld("T", {"x": arg("In", "{p: 1}"), "e": arg("E", "X"), "s": arg("S"),
                               "y": arg("Other", "{k: 1}")}),
                "n": fld("N"), "u": fld("U"), "o": fld("Int", {"v": arg("O", "{a: 1}")}),
            }),
            "Mutation": obj({"m": fld("T", {"i": arg("Int!")})}),
            "T": obj({"id": fld("ID!"), "t": fld("[T!]", {"i": arg("Int!", "1")})}, ["N"]),
            "N": iface({"id": fld("ID!")}),
            "M": iface({"id": fld("ID!"), "m": fld("N", {"k": arg("Int")})}, ["N"]),
            "V": obj({"id": fld("ID!"), "m": fld("V", {"k": arg("Int"), "extra": arg("String")})}, ["M", "N"]),
            "U": union(["T", "V"]),
            "E": enum({"X": False, "Y": True}),
            "S": scalar(),
            "In": inp({"p": arg("Int", "2"), "q": arg("[In!]"), "r": arg("E", "Y"), "w": arg("Other")}),
            "Other": inp({"i": arg("In"), "j": arg("Int!", "5"), "k": arg("Int!")}),
            "O": inp({"a": arg("Int"), "b": arg("In")}, oneof=True),
        },
    }


def content_rev():
    """The same definitions in reverse order (type-map order drives the implementation's traversals)."""
    s = content_full()
    s["types"] = dict(reversed(list(s["types"].items())))
    for t in s["types"].values():
        if "fields" in t:
            t["fields"] = dict(reversed(list(t["fields"].items())))
    return s


def content_small():
    return {
        "roots": {"query": "Query"},
        "directives": {"d": {"args": {"n": arg("Int")}, "locations": ["SCHEMA"], "repeatable": False}},
        "types": {
            "Query": obj({"a": fld("T", {"x": arg("In")}), "n": fld("N")}),
            "N": iface({"id": fld("ID!")}),
            "T": obj({"id": fld("ID!")}, ["N"]),
            "In": inp({"p": arg("Int"), "q": arg("[In!]")}),
        },
    }


def content_chain():
    """Interfaces three deep, input objects referring to each other through lists and nullable fields."""
    return {
        "roots": {"query": "Query", "mutation": "Mutation", "subscription": "Subscription"},
        "directives": {"d": {"args": {"a": arg("In", "{p: 3}")}, "locations": ["SCHEMA", "FIELD_DEFINITION"],
                             "repeatable": True}},
        "types": {
            "Query": obj({"a": fld("T", {"x": arg("In", "{w: {k: 2}}")}), "n": fld("[N!]!"), "u": fld("U")}),
            "Mutation": obj({"m": fld("V", {"i": arg("[Other!]", "[{k: 1}]")})}),
            "Subscription": obj({"s": fld("M")}),
            "N": iface({"id": fld("ID!")}),
            "M": iface({"id": fld("ID!"), "m": fld("N", {"k": arg("Int")})}, ["N"]),
            "L": iface({"id": fld("ID!"), "m": fld("M", {"k": arg("Int")}), "l": fld("[L]")}, ["M", "N"]),
            "T": obj({"id": fld("ID!"), "t": fld("[T!]")}, ["N"]),
            "V": obj({"id": fld("ID!"), "m": fld("V", {"k": arg("Int")}), "l": fld("[L]")}, ["L", "M", "N"]),
            "U": union(["V", "T"]),
            "E": enum({"X": False}),
            "In": inp({"p": arg("Int", "2"), "q": arg("[In!]", "[]"), "r": arg("E", "X"), "w": arg("Other")}),
            "Other": inp({"i": arg("In"), "j": arg("Int!", "5"), "k": arg("Int!")}),
            "O": inp({"a": arg("Int"), "b": arg("In")}, oneof=True),
        },
    }


CONTENTS = {"full": content_full, "rev": content_rev, "small": content_small, "chain": content_chain}


# --- SDL rendering ---------------------------------------------------------------------


def _sdl_arg(name, a):
    s = f"{name}: {a['type']}"
    if a.get("default") is not None:
        s += f" = {a['default']}"
    if a.get("dep"):
        s += " @deprecated"
    return s


def _sdl_args(args):
    if not args:
        return ""
    return "(" + ", ".join(_sdl_arg(n, a) for n, a in args.items()) + ")"


def _sdl_field(name, f):
    return f"{name}{_sdl_args(f.get('args'))}: {f['type']}" + (" @deprecated" if f.get("dep") else "")


def _block(items):
    return " { " + "  ".join(items) + " }" if items else ""


def _impl(names):
    return " implements " + " & ".join(names) if names else ""


_KW = {"object": "type", "interface": "interface", "input": "input"}


def _sdl_type(name, t, split):
    """-> (definition text, extension text or None)"""
    kind = t["kind"]
    if kind == "scalar":
        return f"scalar {name}", None
    if kind == "union":
        ms = t["members"]
        if not split or len(ms) < 2:
            return f"union {name}" + (" = " + " | ".join(ms) if ms else ""), None
        return f"union {name} = {ms[0]}", f"extend union {name} = " + " | ".join(ms[1:])
    if kind == "enum":
        vs = [vn + (" @deprecated" if dep else "") for vn, dep in t["values"].items()]
        if not split or len(vs) < 2:
            return f"enum {name}" + _block(vs), None
        return f"enum {name}" + _block(vs[:1]), f"extend enum {name}" + _block(vs[1:])
    kw = _KW[kind]
    if kind == "input":
        items = [_sdl_arg(fn, f) for fn, f in t["fields"].items()]
        ifs = []
        head = " @oneOf" if t.get("oneof") else ""
    else:
        items = [_sdl_field(fn, f) for fn, f in t["fields"].items()]
        ifs = t["interfaces"]
        head = ""
    if not split or (len(items) < 2 and len(ifs) < 2):
        return f"{kw} {name}{_impl(ifs)}{head}{_block(items)}", None
    return (f"{kw} {name}{_impl(ifs[:1])}{head}{_block(items[:1])}",
            f"extend {kw} {name}{_impl(ifs[1:])}{_block(items[1:])}")


def _sdl_directive(name, d):
    if not d["locations"]:
        return None
    return (f"directive @{name}{_sdl_args(d['args'])}" + (" repeatable" if d.get("repeatable") else "")
            + " on " + " | ".join(d["locations"]))


def _conventional(ir):
    roots = ir["roots"]
    for op in OPS:
        conv = op.capitalize()
        if op in roots:
            if roots[op] != conv:
                return False
        elif conv in ir["types"]:
            return False
    return True


def _sdl_schema(ir, shape):
    """-> (definition lines, extension lines) or None when not expressible."""
    roots = [(op, ir["roots"][op]) for op in OPS if op in ir["roots"]]
    if shape in ("conv", "conv_dir"):
        if _conventional(ir):
            return [], (["extend schema @d"] if shape == "conv_dir" else [])
        shape = "def" if shape == "conv" else "def_dir_ext"
    if not roots:
        return None
    one = lambda pair: f"{pair[0]}: {pair[1]}"  # noqa: E731
    if shape == "def":
        return ["schema { " + "  ".join(one(r) for r in roots) + " }"], []
    first = ["schema { " + one(roots[0]) + " }"]
    if shape == "def_dir_ext":
        return first, ["extend schema @d"] + ["extend schema { " + one(r) + " }" for r in roots[1:]]
    if shape == "def_ext_dir":
        rest = ["extend schema { " + "  ".join(one(r) for r in roots[1:]) + " }"] if roots[1:] else []
        return first, rest + ["extend schema @d"]
    raise ValueError(shape)


def to_sdl_split(ir, shape, split=True):
    sch = _sdl_schema(ir, shape)
    if sch is None:
        return None
    defs, exts = list(sch[0]), list(sch[1])
    for name, d in ir["directives"].items():
        text = _sdl_directive(name, d)
        if text is None:
            return None
        defs.append(text)
    for name, t in ir["types"].items():
        a, b = _sdl_type(name, t, split)
        defs.append(a)
        if b:
            exts.append(b)
    return "\n".join(defs), "\n".join(exts)


def to_sdl(ir, shape):
    parts = to_sdl_split(ir, shape, split=False)
    if parts is None:
        return None
    return "\n".join(p for p in parts if p)


# --- programmatic construction --------------------------------------------------------------


def literal_to_value(node):
    """Const literal AST -> external (JSON-like) value; enum literals become their name."""
    kind = node.kind
    if kind == "null_value":
        return None
    if kind == "int_value":
        return int(node.value)
    if kind == "float_value":
        return float(node.value)
    if kind in ("string_value", "boolean_value", "enum_value"):
        return node.value
    if kind == "list_value":
        return [literal_to_value(v) for v in node.values]
    if kind == "object_value":
        return {f.name.value: literal_to_value(f.value) for f in node.fields}
    raise ValueError(kind)


_LITERALS = {}


def build_programmatic(ir, how):
    from graphql import (DirectiveLocation, GraphQLArgument, GraphQLBoolean, GraphQLDirective, GraphQLEnumType,
                         GraphQLEnumValue, GraphQLField, GraphQLFloat, GraphQLID, GraphQLInputField,
                         GraphQLInputObjectType, GraphQLInt, GraphQLInterfaceType, GraphQLList, GraphQLNonNull,
                         GraphQLObjectType, GraphQLScalarType, GraphQLSchema, GraphQLString, GraphQLUnionType,
                         parse_const_value, specified_directives)
    from graphql.type import GraphQLDefaultInput

    named = {"Int": GraphQLInt, "Float": GraphQLFloat, "String": GraphQLString, "Boolean": GraphQLBoolean,
             "ID": GraphQLID}

    def ref(text):
        if text.endswith("!"):
            return GraphQLNonNull(ref(text[:-1]))
        if text.startswith("["):
            return GraphQLList(ref(text[1:-1]))
        return named[text]

    def default(a):
        if a.get("default") is None:
            return None
        node = _LITERALS.get(a["default"])
        if node is None:
            node = _LITERALS[a["default"]] = parse_const_value(a["default"])
        if how == "lit":
            return GraphQLDefaultInput(literal=node)
        return GraphQLDefaultInput(value=literal_to_value(node))

    def reason(x):
        return "No longer supported" if x.get("dep") else None

    def mkarg(a, cls):
        return cls(ref(a["type"]), default=default(a), deprecation_reason=reason(a))

    def mkfields(t):
        return lambda: {
            fn: GraphQLField(ref(f["type"]), args={an: mkarg(a, GraphQLArgument) for an, a in f["args"].items()},
                             deprecation_reason=reason(f))
            for fn, f in t["fields"].items()}

    for name, t in ir["types"].items():
        kind = t["kind"]
        if kind == "scalar":
            named[name] = GraphQLScalarType(name)
        elif kind == "enum":
            named[name] = GraphQLEnumType(name, {
                vn: GraphQLEnumValue(vn, deprecation_reason="No longer supported" if dep else None)
                for vn, dep in t["values"].items()})
        elif kind == "union":
            named[name] = GraphQLUnionType(name, (lambda t=t: [named[m] for m in t["members"]]))
        elif kind == "input":
            named[name] = GraphQLInputObjectType(
                name, (lambda t=t: {fn: mkarg(a, GraphQLInputField) for fn, a in t["fields"].items()}),
                is_one_of=bool(t.get("oneof")))
        else:
            cls = GraphQLObjectType if kind == "object" else GraphQLInterfaceType
            named[name] = cls(name, mkfields(t), interfaces=(lambda t=t: [named[i] for i in t["interfaces"]]))
    directives = list(specified_directives)
    for name, d in ir["directives"].items():
        directives.append(GraphQLDirective(
            name, locations=[DirectiveLocation[loc] for loc in d["locations"]],
            args={an: mkarg(a, GraphQLArgument) for an, a in d["args"].items()},
            is_repeatable=bool(d.get("repeatable"))))
    roots = {op: named[tn] for op, tn in ir["roots"].items()}
    return GraphQLSchema(query=roots.get("query"), mutation=roots.get("mutation"),
                         subscription=roots.get("subscription"),
                         types=[named[n] for n in ir["types"]], directives=directives)


# --- the violation menu -------------------------------------------------------------------------

MENU = []


def _e(id_, expect, fn, val_legal=False):
    MENU.append({"id": id_, "expect": expect, "fn": fn, "val_legal": val_legal})


def _add_type(name, t):
    def fn(s):
        s["types"][name] = copy.deepcopy(t)
    return fn


def _set(path, value):
    """s[path[0]][path[1]]... = value ; every key but the last must exist."""
    def fn(s):
        cur = s
        for key in path[:-1]:
            cur = cur[key]
        cur[path[-1]] = copy.deepcopy(value)
    return fn


def _del(path):
    def fn(s):
        cur = s
        for key in path[:-1]:
            cur = cur[key]
        del cur[path[-1]]
    return fn


def _seq(*fns):
    def fn(s):
        for f in fns:
            f(s)
    return fn


def _need(*names):
    def fn(s):
        for n in names:
            s["types"][n]  # noqa: B018  KeyError = not applicable
    return fn


def _field(tn, fn_, f):
    return _set(("types", tn, "fields", fn_), f)


def _qarg(an, a):
    """an extra argument on Query.a"""
    return _set(("types", "Query", "fields", "a", "args", an), a)


def _kind(tn, t):
    return _seq(_need(tn), _set(("types", tn), t))


def _root(op, tn):
    return _seq(_need(tn), _set(("roots", op), tn))


IFACE_Q = iface({"a": fld("Int")})
UNION_T = union(["T"])
INPUT_1 = inp({"a": arg("Int")})
ENUM_1 = enum({"A": False})

# roots
_e("root.query.type_removed", "root.query_missing", _seq(_del(("types", "Query")), _del(("roots", "query"))))
_e("root.query.undeclared", "root.query_missing", _del(("roots", "query")))
_e("root.query.interface", "root.not_object", _kind("Query", IFACE_Q))
_e("root.query.union", "root.not_object", _kind("Query", UNION_T))
_e("root.query.input", "root.not_object", _kind("Query", INPUT_1))
_e("root.query.enum", "root.not_object", _kind("Query", ENUM_1))
_e("root.query.scalar", "root.not_object", _kind("Query", scalar()))
_e("root.mutation.interface", "root.not_object", _kind("Mutation", IFACE_Q))
_e("root.mutation.input", "root.not_object", _kind("Mutation", INPUT_1))
_e("root.subscription.union", "root.not_object",
   _seq(_set(("types", "Subscription"), UNION_T), _root("subscription", "Subscription")))
_e("root.subscription.input", "root.not_object",
   _seq(_set(("types", "Subscription"), INPUT_1), _root("subscription", "Subscription")))
_e("root.same.query_mutation", "root.duplicate", _root("mutation", "Query"))
_e("root.same.mutation_subscription", "root.duplicate", _seq(_need("Mutation"), _root("subscription", "Mutation")))
_e("root.same.query_subscription", "root.duplicate", _root("subscription", "Query"))
_e("root.same.all", "root.duplicate", _seq(_root("mutation", "Query"), _root("subscription", "Query")))
_e("root.subscription.added", None,
   _seq(_set(("types", "Subscription"), obj({"s": fld("Int")})), _root("subscription", "Subscription")))
_e("root.mutation.removed", None, _seq(_del(("types", "Mutation")), _del(("roots", "mutation"))))
_e("root.query.other_object", None, _root("query", "T"))

# reserved names
_e("name.type.object", "name.type", _add_type("__T", obj({"a": fld("Int")})))
_e("name.type.interface", "name.type", _add_type("__I", IFACE_Q))
_e("name.type.union", "name.type", _seq(_need("T"), _add_type("__U", UNION_T)))
_e("name.type.enum", "name.type", _add_type("__E", ENUM_1))
_e("name.type.scalar", "name.type", _add_type("__S", scalar()))
_e("name.type.input", "name.type", _add_type("__In", INPUT_1))
_e("name.field", "name.field", _field("Query", "__f", fld("Int")))
_e("name.interface_field", "name.field", _seq(_field("M", "__f", fld("Int")), _field("V", "__f", fld("Int"))))
_e("name.arg", "name.arg", _qarg("__x", arg("Int")))
_e("name.enum_value", "name.enum_value", _set(("types", "E", "values", "__Z"), False))
_e("name.input_field", "name.input_field", _field("In", "__p", arg("Int")))
_e("name.directive", "name.directive",
   _set(("directives", "__d"), {"args": {}, "locations": ["FIELD"], "repeatable": False}))
_e("name.directive_arg", "name.directive_arg", _set(("directives", "d", "args", "__a"), arg("Int")))
_e("name.single_underscore", None,
   _seq(_field("Query", "_f", fld("Int", {"_x": arg("Int")})), _field("In", "_p", arg("Int")),
        _add_type("_T", obj({"_": fld("Int")}))))

# empty types
_e("empty.object.new", "empty.object", _add_type("Empty0", obj({})))
_e("empty.object.T", "empty.object", _set(("types", "T", "fields"), {}))
_e("empty.interface.new", "empty.interface", _add_type("EmptyI", iface({})))
_e("empty.interface.N", "empty.interface", _set(("types", "N", "fields"), {}))
_e("empty.union.new", "empty.union", _add_type("EmptyU", union([])))
_e("empty.union.U", "empty.union", _set(("types", "U", "members"), []))
_e("empty.enum.new", "empty.enum", _add_type("EmptyE", enum({})))
_e("empty.enum.E", "empty.enum", _set(("types", "E", "values"), {}))
_e("empty.input.new", "empty.input", _add_type("EmptyIn", inp({})))
_e("empty.input.In", "empty.input", _set(("types", "In", "fields"), {}))
_e("empty.input.oneof", "empty.input", _set(("types", "O", "fields"), {}))

# input types in output position
_e("pos.field.input", "pos.field_not_output", _field("Query", "bad", fld("In")))
_e("pos.field.input_wrapped", "pos.field_not_output", _field("T", "bad", fld("[In!]!")))
_e("pos.field.oneof", "pos.field_not_output", _field("Query", "bad", fld("O")))
_e("pos.interface_field.input", "pos.field_not_output",
   _seq(_field("M", "bad", fld("In")), _field("V", "bad", fld("In"))))
# output types in input position, with and without a default value
for _i, (_t, _d) in enumerate([("T", None), ("U", None), ("N", None), ("[T]", None), ("T!", None),
                               ("Query", "1"), ("T", "{id: 1}"), ("U", "null"), ("N", '"s"'), ("[T]", "[1]"),
                               ("T!", "1"), ("[U!]!", "[{}]"), ("N", "X")]):
    _e(f"pos.arg.output.{_i}:{_t}" + (f"={_d}" if _d else ""), "pos.arg_not_input",
       _field("Query", "g", fld("Int", {"x": arg(_t, _d)})))
_e("pos.interface_arg.output_default", "pos.arg_not_input",
   _seq(_field("M", "h", fld("Int", {"z": arg("N", "1")})), _field("V", "h", fld("Int", {"z": arg("N", "1")}))))
for _i, (_t, _d) in enumerate([("T", None), ("T", "1"), ("N", "{}"), ("U", "null"), ("[Query!]", "[1]"),
                               ("V!", "{id: 1}")]):
    _e(f"pos.input_field.output.{_i}:{_t}" + (f"={_d}" if _d else ""), "pos.input_field_not_input",
       _field("In", "bad", arg(_t, _d)))
_e("pos.oneof_field.output_default", "pos.input_field_not_input", _field("O", "c", arg("T", "1")))
for _i, (_t, _d) in enumerate([("T", None), ("T", "1"), ("N", "{}"), ("[U]", "[null]")]):
    _e(f"pos.directive_arg.output.{_i}:{_t}" + (f"={_d}" if _d else ""), "pos.directive_arg_not_input",
       _set(("directives", "d", "args", "b"), arg(_t, _d)))
# defaults that mention a field called "bad" (invalid alone; together with pos.input_field.* they
# supply a value for a field that has no input type)
_e("default.arg.names_bad", "default.arg", _set(("types", "Query", "fields", "a", "args", "x", "default"), "{bad: 1}"))
_e("default.arg.names_bad_list", "default.arg", _qarg("bl", arg("[In]", "[{bad: [1]}, {bad: null}]")))
_e("default.directive_arg.names_bad", "default.directive_arg",
   _seq(_need("In"), _set(("directives", "d", "args", "bb"), arg("In", "{bad: {id: 1}}"))))
_e("default.input_field.names_bad", "default.input_field", _field("Other", "ob", arg("In", "{bad: 1}")))

# interface implementation
_e("impl.field_missing.object", "impl.field_missing", _del(("types", "T", "fields", "id")))
_e("impl.field_missing.object2", "impl.field_missing", _del(("types", "V", "fields", "m")))
_e("impl.field_missing.interface", "impl.field_missing", _del(("types", "M", "fields", "id")))
_e("impl.field_type.other_scalar", "impl.field_type", _set(("types", "T", "fields", "id", "type"), "Int!"))
_e("impl.field_type.nullable", "impl.field_type", _set(("types", "T", "fields", "id", "type"), "ID"))
_e("impl.field_type.interface_nullable", "impl.field_type", _set(("types", "M", "fields", "id", "type"), "ID"))
_e("impl.field_type.union", "impl.field_type", _set(("types", "V", "fields", "m", "type"), "U"))
_e("impl.field_type.list", "impl.field_type", _set(("types", "V", "fields", "m", "type"), "[V]"))
_e("impl.field_type.reversed", "impl.field_type",
   _seq(_set(("types", "M", "fields", "m", "type"), "V"), _set(("types", "V", "fields", "m", "type"), "N")))
_e("impl.field_type.unlisted", "impl.field_type",
   _seq(_set(("types", "M", "fields", "m", "type"), "[N]"), _set(("types", "V", "fields", "m", "type"), "V")))
_e("impl.field_type.inner_nullable", "impl.field_type",
   _seq(_set(("types", "M", "fields", "m", "type"), "[N!]"), _set(("types", "V", "fields", "m", "type"), "[V]!")))
_e("impl.field_type.sibling_object", None, _set(("types", "V", "fields", "m", "type"), "T"))
_e("impl.field_type.nonnull_sub", None, _set(("types", "V", "fields", "m", "type"), "V!"))
_e("impl.field_type.child_interface", None, _set(("types", "V", "fields", "m", "type"), "M"))
_e("impl.field_type.list_covariant", None,
   _seq(_set(("types", "M", "fields", "m", "type"), "[N]"), _set(("types", "V", "fields", "m", "type"), "[V!]!")))
_e("impl.field_type.union_member", None,
   _seq(_field("M", "um", fld("U")), _field("V", "um", fld("T!"))))
_e("impl.arg_missing", "impl.arg_missing", _del(("types", "V", "fields", "m", "args", "k")))
_e("impl.arg_type.nonnull", "impl.arg_type", _set(("types", "V", "fields", "m", "args", "k", "type"), "Int!"))
_e("impl.arg_type.list", "impl.arg_type", _set(("types", "V", "fields", "m", "args", "k", "type"), "[Int]"))
_e("impl.arg_type.other", "impl.arg_type", _set(("types", "V", "fields", "m", "args", "k", "type"), "String"))
_e("impl.arg_type.interface_narrower", "impl.arg_type",
   _set(("types", "M", "fields", "m", "args", "k", "type"), "Int!"))
_e("impl.extra_required.no_interface_args", "impl.extra_required_arg",
   _set(("types", "T", "fields", "id", "args", "x"), arg("Int!")))
_e("impl.extra_required.interface_no_args", "impl.extra_required_arg",
   _seq(_set(("types", "M", "fields", "id", "args", "x"), arg("Int!")),
        _set(("types", "V", "fields", "id", "args", "x"), arg("Int!"))))
_e("impl.extra_required.with_interface_args", "impl.extra_required_arg",
   _set(("types", "V", "fields", "m", "args", "req"), arg("[Int]!")))
_e("impl.extra_optional.nullable", None, _set(("types", "T", "fields", "id", "args", "x"), arg("Int")))
_e("impl.extra_optional.defaulted", None, _set(("types", "T", "fields", "id", "args", "x"), arg("Int!", "1")))
_e("impl.extra_optional.with_interface_args", None,
   _set(("types", "V", "fields", "m", "args", "opt"), arg("[Int!]")))
_e("impl.transitive_missing", "impl.transitive_missing", _set(("types", "V", "interfaces"), ["M"]))
_e("impl.self", "impl.self", _set(("types", "N", "interfaces"), ["N"]))
_e("impl.mutual", "impl.transitive_missing", _seq(_need("M"), _set(("types", "N", "interfaces"), ["M"])))
_e("impl.duplicate", "impl.duplicate", _set(("types", "T", "interfaces"), ["N", "N"]))
_e("impl.duplicate.apart", "impl.duplicate", _set(("types", "V", "interfaces"), ["M", "N", "M"]))
_e("impl.not_interface.union", "impl.not_interface", _seq(_need("U"), _set(("types", "T", "interfaces"), ["N", "U"])))
_e("impl.not_interface.object", "impl.not_interface", _set(("types", "T", "interfaces"), ["T", "N"]))
_e("impl.not_interface.input", "impl.not_interface", _seq(_need("In"), _set(("types", "T", "interfaces"), ["In"])))
_e("impl.not_interface.enum", "impl.not_interface", _seq(_need("E"), _set(("types", "M", "interfaces"), ["N", "E"])))
_e("impl.deprecated", "impl.deprecated", _set(("types", "T", "fields", "id", "dep"), True))
_e("impl.deprecated.interface_only", None, _set(("types", "N", "fields", "id", "dep"), True))
_e("impl.deprecated.both", None,
   _seq(_set(("types", "N", "fields", "id", "dep"), True), _set(("types", "T", "fields", "id", "dep"), True)))

# unions
_e("union.member.interface", "union.not_object", _set(("types", "U", "members"), ["T", "N"]))
_e("union.member.enum", "union.not_object", _seq(_need("E"), _set(("types", "U", "members"), ["E"])))
_e("union.member.input", "union.not_object", _set(("types", "U", "members"), ["T", "In"]))
_e("union.member.self", "union.not_object", _set(("types", "U", "members"), ["T", "U"]))
_e("union.member.scalar", "union.not_object", _seq(_need("S"), _set(("types", "U", "members"), ["S", "T"])))
_e("union.duplicate", "union.duplicate", _set(("types", "U", "members"), ["T", "T"]))
_e("union.duplicate.apart", "union.duplicate", _seq(_need("V"), _set(("types", "U", "members"), ["T", "V", "T"])))
_e("union.single_member", None, _set(("types", "U", "members"), ["T"]))
_e("union.root_member", None, _set(("types", "U", "members"), ["Query", "T"]))

# required and deprecated
_e("dep.required_arg", "dep.required_arg", _qarg("r", arg("Int!", None, True)))
_e("dep.optional_arg", None, _qarg("r", arg("Int", None, True)))
_e("dep.defaulted_arg", None, _qarg("r", arg("Int!", "1", True)))
_e("dep.required_input_field", "dep.required_input_field", _field("In", "z", arg("Int!", None, True)))
_e("dep.defaulted_input_field", None, _field("In", "z", arg("Int!", "1", True)))
_e("dep.required_directive_arg", "dep.required_directive_arg",
   _set(("directives", "d", "args", "z"), arg("[Int]!", None, True)))
_e("dep.optional_directive_arg", None, _set(("directives", "d", "args", "z"), arg("Int", None, True)))

# default values: one argument Query.a(v:) per literal shape
_DEFAULTS = [
    ("Int", '"s"', False), ("Int", "2147483648", False), ("Int", "-2147483648", True), ("Int", "1.0", False),
    ("Boolean", "1", False), ("String", "1", False), ("ID", "1.5", False), ("ID", "1", True),
    ("Float", '"x"', False), ("Float", "1", True), ("String", "X", False),
    ("E", "Z", False), ("E", '"X"', False), ("E!", "Y", True), ("E", "1", False),
    ("Int!", "null", False), ("Int", "null", True), ("[Int]!", "null", False),
    ("[Int]", '[1, "s"]', False), ("[Int!]", "[null]", False), ("[Int!]", "[1, null]", False),
    ("[Int]", "1", True), ("[[Int]]", "1", True), ("[[Int]]", "[1]", True), ("[[Int!]]", "[[1], [null]]", False),
    ("In", '{p: "s"}', False), ("In", "{zz: 1}", False), ("In", "5", False), ("In", "[{p: 1}]", False),
    ("Other", "{}", False), ("Other", "{k: null}", False), ("Other", "{k: 1, j: null}", False),
    ("Other", "{k: 1, i: {q: [{p: 1}]}}", True), ("In", '{q: [{p: "x"}]}', False), ("In", "{q: {p: 1}}", True),
    ("In", "{w: {i: {w: {}}}}", False), ("[In!]", "{}", True),
    ("O", "{a: 1, b: null}", False), ("O", "{}", False), ("O", "{a: null}", False), ("O", "{b: {}}", True),
    ("O", "{a: 1, b: {}}", False), ("[O]", "[{a: 1}, {b: null}]", False),
    ("S", "{a: [1, {b: 2.5}], c: E}", True),
]
# literals whose validity differs when the default is given as an external value (enum names are
# strings there): "String = X" becomes the string "X", 'E = "X"' the enum name X
# (and "Int = 1.0" the number 1.0, which JSON does not tell apart from 1)
_VAL_LEGAL = {("String", "X"), ("E", '"X"'), ("Int", "1.0")}
for _t, _d, _ok in _DEFAULTS:
    _e(f"default.arg:{_t}={_d}", None if _ok else "default.arg", _qarg("v", arg(_t, _d)),
       val_legal=(_t, _d) in _VAL_LEGAL)
_e("default.input_field.scalar", "default.input_field", _set(("types", "In", "fields", "p", "default"), '"s"'))
_e("default.input_field.enum", "default.input_field", _set(("types", "In", "fields", "r", "default"), "Z"))
_e("default.input_field.null", "default.input_field", _set(("types", "Other", "fields", "j", "default"), "null"))
_e("default.input_field.object", "default.input_field", _field("Other", "o2", arg("In", "{p: [1]}")))
_e("default.directive_arg.object", "default.directive_arg",
   _set(("directives", "d", "args", "a", "default"), "{p: [1]}"))
_e("default.directive_arg.scalar", "default.directive_arg", _set(("directives", "d", "args", "n", "default"), '"s"'))
_e("default.interface_arg", "default.arg",
   _seq(_set(("types", "M", "fields", "m", "args", "k", "default"), "true"),
        _set(("types", "V", "fields", "m", "args", "k", "default"), "true")))

# non-null input object cycles
THIRD = inp({"x": arg("Int")})
_e("cycle.nonnull.1", "cycle.nonnull", _field("In", "self", arg("In!")))
_e("cycle.nonnull.2", "cycle.nonnull", _seq(_field("In", "o", arg("Other!")), _field("Other", "b", arg("In!"))))
_e("cycle.nonnull.3", "cycle.nonnull",
   _seq(_field("In", "o", arg("Other!")), _add_type("Third", inp({"x": arg("Int"), "i": arg("In!")})),
        _field("Other", "t", arg("Third!"))))
_e("cycle.nonnull.tail", "cycle.nonnull",
   _seq(_add_type("CA", inp({"b": arg("CB!")})), _add_type("CB", inp({"x": arg("Int"), "a": arg("CA!")})),
        _field("In", "ca", arg("CA!"))))
_e("cycle.nonnull.two_cycles", "cycle.nonnull",
   _seq(_add_type("CA", inp({"b": arg("CB!"), "c": arg("CC!")})), _add_type("CB", inp({"a": arg("CA!")})),
        _add_type("CC", inp({"x": arg("Int"), "b": arg("CB!")}))))
_e("cycle.nonnull.defaulted", "cycle.nonnull", _field("In", "self", arg("In!", "{}")))
_e("cycle.nullable.1", None, _field("In", "self", arg("In")))
_e("cycle.list.1", None, _field("In", "self", arg("[In!]!", "[]")))
_e("cycle.list.2", None,
   _seq(_add_type("LA", inp({"b": arg("LB!")})), _add_type("LB", inp({"x": arg("Int"), "a": arg("[LA!]!")}))))
_e("cycle.diamond", None,
   _seq(_add_type("DA", inp({"o": arg("DB!"), "t": arg("DC!")})), _add_type("DB", inp({"t": arg("DC!")})),
        _add_type("DC", inp({"x": arg("Int")}))))
# default value cycles
_e("cycle.default.1", "cycle.default", _field("In", "c", arg("In", "{}")))
_e("cycle.default.2", "cycle.default",
   _seq(_field("In", "c", arg("Other", "{k: 1}")), _field("Other", "c", arg("In", "{}"))))
_e("cycle.default.3", "cycle.default",
   _seq(_field("In", "c", arg("Other", "{k: 1}")), _add_type("Third", inp({"x": arg("Int"), "c": arg("In", "{}")})),
        _field("Other", "c", arg("Third", "{}"))))
_e("cycle.default.nested", "cycle.default", _field("In", "c", arg("In", "{c: {}}")))
_e("cycle.default.list", "cycle.default", _field("In", "c", arg("[In!]", "[{}]")))
_e("cycle.default.list_later_item", "cycle.default", _field("In", "c", arg("[In]", "[null, {c: []}, {}]")))
_e("cycle.default.object_for_list", "cycle.default", _field("In", "c", arg("[In]", "{}")))
_e("cycle.default.via_other_field", "cycle.default",
   _seq(_field("In", "c", arg("In", "{c: null, w: {k: 1}}")), _field("Other", "c", arg("In", "{}"))))
_e("cycle.default.list_inside_object", "cycle.default",
   _seq(_field("In", "l", arg("[In]")), _field("In", "c", arg("In", "{c: null, l: [{}]}"))))
_e("cycle.default.list_inside_object_deeper", "cycle.default",
   _seq(_field("In", "l", arg("[In]")), _field("In", "c", arg("In", "{c: null, l: [null, {c: null, l: {l: []}}]}"))))
_e("cycle.default.list_of_lists_inside_object", "cycle.default",
   _seq(_field("In", "l", arg("[[In]]")), _field("In", "c", arg("In", "{c: null, l: [[], [{c: null}, {}]]}"))))
_e("cycle.default.list_inside_object_null_breaks", None,
   _seq(_field("In", "l", arg("[In]")), _field("In", "c", arg("In", "{c: null, l: [{c: null}, null]}"))))
_e("cycle.default.null_breaks", None, _field("In", "c", arg("In", "{c: null}")))
_e("cycle.default.nested_null_breaks", None, _field("In", "c", arg("In", "{c: {c: null}}")))
_e("cycle.default.empty_list", None, _field("In", "c", arg("[In!]", "[]")))
_e("cycle.default.null", None, _field("In", "c", arg("In", "null")))
_e("cycle.default.no_back_default", None,
   _seq(_field("In", "c", arg("Other", "{k: 1}")), _field("Other", "c", arg("In"))))
_e("cycle.default.shared_not_cyclic", None,
   _seq(_add_type("Third", THIRD), _field("In", "c", arg("Other", "{k: 1}")), _field("In", "c2", arg("Third", "{}")),
        _field("Other", "c", arg("Third", "{x: 1}"))))

# OneOf
_e("oneof.nonnull.new", "oneof.nonnull", _field("O", "c", arg("Int!")))
_e("oneof.nonnull.first", "oneof.nonnull", _set(("types", "O", "fields", "a", "type"), "Int!"))
_e("oneof.default.scalar", "oneof.default", _field("O", "c", arg("Int", "1")))
_e("oneof.default.null", "oneof.default", _field("O", "c", arg("Int", "null")))
_e("oneof.default.object", "oneof.default", _set(("types", "O", "fields", "b", "default"), "{}"))
_e("oneof.nonnull_default", "oneof.nonnull", _field("O", "c", arg("Int!", "1")))
_e("oneof.more_fields", None, _seq(_field("O", "c", arg("String")), _field("O", "l", arg("[Int!]"))))
_e("oneof.self_reference", None, _field("O", "c", arg("O")))

# directives
_e("directive.no_locations", "directive.no_locations", _set(("directives", "d", "locations"), []))
_e("directive.added", None,
   _seq(_need("In"), _set(("directives", "e"), {"args": {"x": arg("[In!]", "[{p: 1}]"), "r": arg("Int!")},
                                               "locations": ["QUERY", "INPUT_FIELD_DEFINITION"], "repeatable": False})))

MENU_INDEX = {m["id"]: i for i, m in enumerate(MENU)}
assert len(MENU_INDEX) == len(MENU), "duplicate menu ids"


def apply(content, ids):
    """Base description with the menu entries applied in menu order; None when one does not apply."""
    ir = CONTENTS[content]()
    for i in sorted(MENU_INDEX[x] for x in ids):
        try:
            MENU[i]["fn"](ir)
        except KeyError:
            return None
    # a description that names a type it does not define has no schema
    for tn in referenced(ir):
        if tn not in ir["types"] and tn not in BUILTIN:
            return None
    return ir


BUILTIN = ("Int", "Float", "String", "Boolean", "ID")


def referenced(ir):
    out = set(ir["roots"].values())
    bare = lambda text: text.replace("[", "").replace("]", "").replace("!", "")  # noqa: E731
    for d in ir["directives"].values():
        out.update(bare(a["type"]) for a in d["args"].values())
    for t in ir["types"].values():
        out.update(t.get("interfaces", ()))
        out.update(t.get("members", ()))
        for f in t.get("fields", {}).values():
            out.add(bare(f["type"]))
            out.update(bare(a["type"]) for a in f.get("args", {}).values())
    return out
