"""Hand-built "forcing" schemas for the execution checks (C02, C03, C13)."""

from __future__ import annotations

S1 = """
interface Node { id: ID! name: String greet(p: String = "n", q: Int): String }
type A implements Node { id: ID! name: String greet(p: String = "a", q: Int, extra: Int = 1): String a: Int nn: Int! kids: [Node!] nkids: [Node] grid: [[Int!]] un: U self: A selfnn: A! peers: [A!]! e: E }
type B implements Node { id: ID! name: String greet(p: String = "b", q: Int = 2): String b: Int nn: Int! other: A }
union U = A | B
enum E { X Y }
type Query { a: A n: Node u: U as: [A!]! an: A! ns: [Node] }
"""

S2 = """
enum E { X Y }
input In2 { s: String!, t: Boolean }
input In { p: Int = 3, q: [Int!], r: In2 = {s: "d"}, e: E = Y, n: In }
input One @oneOf { i: Int, s: String }
input Filter { min: Int!, tag: String }
scalar Any
type Query {
  echo(i: Int, x: Int = 7, e: E, inp: In, l: [Int], f: Float, id: ID, b: Boolean): String
  req(r: Int!, rl: [Int!]!): String
  dfl(ll: [In!] = [{p: 1}], s: String = "dflt", nd: Int! = 5, one: One): String
  sum(values: [Int!] = [1, 2], o: In = {q: [1]}): String
  many(filters: [Filter!], grid: [[Filter]]): String
  anyarg(j: Any, k: Any = {d: [1]}): String
  anyout: Any
  anys: [Any]
  plain: Int
  sub: Query
}
"""

S3 = """
type R { v: Int nn: Int! again: R }
type Query { r: R }
type Mutation { first(by: Int = 1): R second: Int third(by: Int): R nn: Int! }
"""


def build(which):
    """Fresh schema objects on every call (hidden caches start empty)."""
    from graphql import build_schema

    if which == "S1":
        return build_schema(S1)
    if which == "S3":
        return build_schema(S3)
    s = build_schema(S2)
    # graphql-core extensions: internal enum values and out_name
    e = s.type_map["E"]
    e.values["X"].value = "ex"
    e.values["Y"].value = 2
    any_t = s.type_map["Any"]
    # a custom scalar with the literal-coercion API (receives the literal with variables replaced) and an output
    # coercion that yields no value for one input
    from vf.ref.coerce import untyped_literal

    any_t.coerce_input_literal = lambda node: untyped_literal(node, {})
    any_t.coerce_output_value = any_t.serialize = lambda v: None if v == "drop" else v
    s.type_map["In"].fields["p"].out_name = "p_out"
    s.query_type.fields["echo"].args["x"].out_name = "x_out"
    return s


NAMES = ["S1", "S2", "S3"]
