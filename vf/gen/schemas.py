"""Schema family: a base schema plus a menu of features (C17 C18 C19 C20).

Everything is described in a tiny declarative intermediate form (``Spec``: plain Python
data, no graphql objects).  From one Spec we derive

* ``render_sdl(spec)``        SDL text, written by a renderer of our own (not print_schema),
* ``construct(spec, ...)``    a ``GraphQLSchema`` assembled with the public constructors
                              (``GraphQLObjectType`` ...), in several construction styles,
* ``spec_fingerprint(spec)``  the fingerprint (shape of ``vf.ref.schemafp.fingerprint``) the
                              schema *must* have - an oracle that shares nothing with the library.

A *feature* is a function that edits a Spec (adds types / fields / directives, renames the
roots, decorates every element with descriptions ...).  Features are applied in the fixed
order of ``FEATURES``; a schema of the family is ``base + set of features``.

Small API
---------
    FEATURES                         ordered dict  id -> Feature(id, doc, group, experimental)
    enumerate_schemas(k)             deterministic list of feature-id tuples, all subsets of size <= k
                                     (subsets with two features of one exclusive ``group`` are left out)
    make_spec(feature_ids, base=None)-> Spec
    build_sdl(feature_ids)           -> str
    build_programmatic(feature_ids, **style) -> GraphQLSchema
    render_sdl(spec), construct(spec, **style), spec_fingerprint(spec, order=...)
    PROGRAMMATIC_STYLES              the construction styles worth running (list of kwargs dicts)
    HARD_DESCRIPTIONS, SIGMA_STR, SIGMA_SMALL, strings_upto(alphabet, L)
    description_host(), DESCRIPTION_POSITIONS, place_string(spec, position, s)

Every schema of the family is valid (``validate_schema == []``); the checks assert it.
"""

from __future__ import annotations

import copy
import itertools
import pickle
import re
from collections import OrderedDict

DEFAULT_REASON = "No longer supported"
BUILTIN_SCALARS = ("Int", "Float", "String", "Boolean", "ID")

ALL_LOCATIONS = [
    "QUERY", "MUTATION", "SUBSCRIPTION", "FIELD", "FRAGMENT_DEFINITION", "FRAGMENT_SPREAD", "INLINE_FRAGMENT",
    "VARIABLE_DEFINITION", "SCHEMA", "SCALAR", "OBJECT", "FIELD_DEFINITION", "ARGUMENT_DEFINITION", "INTERFACE",
    "UNION", "ENUM", "ENUM_VALUE", "INPUT_OBJECT", "INPUT_FIELD_DEFINITION",
]

# --------------------------------------------------------------------------------------
# the intermediate form


class Default:
    """A default value: SDL literal text, the external Python value, expected canonical text."""

    def __init__(self, text, value, canon=None):
        self.text = text
        self.value = value
        self.canon = text if canon is None else canon


class IV:
    """Input value: argument, input field or directive argument."""

    def __init__(self, name, type, default=None, description=None, deprecation=None):  # noqa: A002
        self.name, self.type, self.default = name, type, default
        self.description, self.deprecation = description, deprecation


class Field:
    def __init__(self, name, type, args=None, description=None, deprecation=None):  # noqa: A002
        self.name, self.type, self.args = name, type, list(args or [])
        self.description, self.deprecation = description, deprecation


class EV:
    def __init__(self, name, description=None, deprecation=None):
        self.name, self.description, self.deprecation = name, description, deprecation


class TypeDef:
    def __init__(self, kind, name, description=None, interfaces=None, fields=None, members=None, values=None,
                 specified_by=None, one_of=False):
        self.kind, self.name, self.description = kind, name, description
        self.interfaces = list(interfaces or [])
        self.fields = list(fields or [])  # Field for object/interface, IV for input
        self.members = list(members or [])
        self.values = list(values or [])
        self.specified_by = specified_by
        self.one_of = one_of

    def field(self, name):
        for f in self.fields:
            if f.name == name:
                return f
        return None


class DirDef:
    def __init__(self, name, locations, args=None, repeatable=False, description=None, deprecation=None):
        self.name, self.locations, self.args = name, list(locations), list(args or [])
        self.repeatable, self.description, self.deprecation = repeatable, description, deprecation

    def arg(self, name):
        for a in self.args:
            if a.name == name:
                return a
        return None


class Spec:
    def __init__(self):
        self.description = None
        self.query, self.mutation, self.subscription = "Query", None, None
        self.block = False  # True: always write a ``schema { }`` block into the SDL
        self.types = []
        self.directives = []
        self.layout = "sdt"  # order of Schema block, Directives, Types in the SDL
        self.desc_style = "auto"  # 'auto' (block form where our renderer can) | 'quoted'
        self.experimental = False  # needs experimental_directives_on_directive_definitions
        self.features = ()

    def clone(self):
        # plain data only: a pickle round trip is a (much faster) deep copy
        return pickle.loads(pickle.dumps(self, pickle.HIGHEST_PROTOCOL))

    def type(self, name):
        for t in self.types:
            if t.name == name:
                return t
        return None

    def has(self, name):
        return self.type(name) is not None

    def directive(self, name):
        for d in self.directives:
            if d.name == name:
                return d
        return None

    def root(self):
        return self.type(self.query)

    def roots(self):
        return {"query": self.query, "mutation": self.mutation, "subscription": self.subscription}

    def add(self, *types):
        for t in types:
            assert not self.has(t.name), f"duplicate type {t.name}"
            self.types.append(t)

    def rename_type(self, old, new):
        assert not self.has(new), new
        pat = re.compile(r"\b" + re.escape(old) + r"\b")

        def rn(s):
            return pat.sub(new, s)

        for t in self.types:
            if t.name == old:
                t.name = new
            t.interfaces = [new if i == old else i for i in t.interfaces]
            t.members = [new if m == old else m for m in t.members]
            for f in t.fields:
                f.type = rn(f.type)
                for a in getattr(f, "args", []):
                    a.type = rn(a.type)
        for d in self.directives:
            for a in d.args:
                a.type = rn(a.type)
        for op in ("query", "mutation", "subscription"):
            if getattr(self, op) == old:
                setattr(self, op, new)

    def needs_block(self):
        """Must the SDL carry an explicit schema definition to denote this schema?"""
        if self.block or self.description is not None:
            return True
        for op, conv in (("query", "Query"), ("mutation", "Mutation"), ("subscription", "Subscription")):
            have = getattr(self, op)
            if have is None:
                if self.has(conv):
                    return True
            elif have != conv:
                return True
        return False


# --------------------------------------------------------------------------------------
# SDL renderer (ours)

def quote(s: str) -> str:
    """A quoted GraphQL string literal denoting exactly ``s`` (escapes everything unusual)."""
    out = ['"']
    for ch in s:
        o = ord(ch)
        if ch == '"':
            out.append('\\"')
        elif ch == "\\":
            out.append("\\\\")
        elif ch == "\n":
            out.append("\\n")
        elif ch == "\r":
            out.append("\\r")
        elif ch == "\t":
            out.append("\\t")
        elif 0x20 <= o <= 0x7E:
            out.append(ch)
        elif o > 0xFFFF:
            out.append("\\u{%X}" % o)
        else:
            out.append("\\u%04X" % o)
    out.append('"')
    return "".join(out)


def block_ok(s: str) -> bool:
    """Can our simple block-string layout (every line indented alike) denote ``s`` exactly?"""
    if not s or '"""' in s or "\r" in s:
        return False
    if any((ord(c) < 0x20 and c not in "\n\t") or ord(c) in (0x7F, 0xFEFF, 0xFFFF) for c in s):
        return False
    lines = s.split("\n")
    if not lines[0].strip(" \t") or not lines[-1].strip(" \t"):
        return False
    if s.endswith('"') or s.endswith("\\"):
        return False
    # the common indentation must come out as exactly our indentation: some non-blank line
    # has to start in column zero
    return any(ln.strip(" \t") and ln[0] not in " \t" for ln in lines)


def render_string(s: str, indent: str, style: str) -> str:
    if style == "auto" and block_ok(s):
        body = "\n".join(indent + ln for ln in s.split("\n"))
        return f'"""\n{body}\n{indent}"""'
    return quote(s)


def _desc(d, indent, style):
    if d is None:
        return ""
    return indent + render_string(d, indent, style) + "\n"


def _deprecated(reason):
    if reason is None:
        return ""
    if reason == DEFAULT_REASON:
        return " @deprecated"
    return f" @deprecated(reason: {quote(reason)})"


def _iv(a, indent, style, multiline):
    s = f"{a.name}: {a.type}"
    if a.default is not None:
        s += f" = {a.default.text}"
    s += _deprecated(a.deprecation)
    if multiline:
        return _desc(a.description, indent, style) + indent + s
    return s


def _args(args, indent, style):
    if not args:
        return ""
    if all(a.description is None for a in args):
        return "(" + ", ".join(_iv(a, "", style, False) for a in args) + ")"
    inner = indent + "  "
    return "(\n" + "\n".join(_iv(a, inner, style, True) for a in args) + "\n" + indent + ")"


def render_type(t, style="auto") -> str:
    head = _desc(t.description, "", style)
    if t.kind == "scalar":
        s = f"scalar {t.name}"
        if t.specified_by is not None:
            s += f" @specifiedBy(url: {quote(t.specified_by)})"
        return head + s
    if t.kind in ("object", "interface"):
        kw = "type" if t.kind == "object" else "interface"
        s = f"{kw} {t.name}"
        if t.interfaces:
            s += " implements " + " & ".join(t.interfaces)
        rows = []
        for f in t.fields:
            rows.append(
                _desc(f.description, "  ", style)
                + f"  {f.name}{_args(f.args, '  ', style)}: {f.type}{_deprecated(f.deprecation)}"
            )
        return head + s + " {\n" + "\n".join(rows) + "\n}"
    if t.kind == "union":
        s = f"union {t.name}"
        if t.members:
            s += " = " + " | ".join(t.members)
        return head + s
    if t.kind == "enum":
        rows = [_desc(v.description, "  ", style) + f"  {v.name}{_deprecated(v.deprecation)}" for v in t.values]
        return head + f"enum {t.name}" + " {\n" + "\n".join(rows) + "\n}"
    if t.kind == "input":
        rows = [_iv(f, "  ", style, True) for f in t.fields]
        one = " @oneOf" if t.one_of else ""
        return head + f"input {t.name}{one}" + " {\n" + "\n".join(rows) + "\n}"
    raise ValueError(t.kind)


def render_directive(d, style="auto") -> str:
    s = _desc(d.description, "", style) + f"directive @{d.name}{_args(d.args, '', style)}"
    s += _deprecated(d.deprecation)
    if d.repeatable:
        s += " repeatable"
    return s + " on " + " | ".join(d.locations)


def render_schema_block(spec, style="auto") -> str:
    rows = []
    for op in ("query", "mutation", "subscription"):
        n = getattr(spec, op)
        if n is not None:
            rows.append(f"  {op}: {n}")
    return _desc(spec.description, "", style) + "schema {\n" + "\n".join(rows) + "\n}"


def render_sdl(spec) -> str:
    style = spec.desc_style
    parts = {"s": [], "d": [], "t": []}
    if spec.needs_block():
        parts["s"].append(render_schema_block(spec, style))
    for d in spec.directives:
        parts["d"].append(render_directive(d, style))
    for t in spec.types:
        parts["t"].append(render_type(t, style))
    out = []
    for k in spec.layout:
        out.extend(parts[k])
    return "\n\n".join(out) + "\n"


# --------------------------------------------------------------------------------------
# programmatic construction

PROGRAMMATIC_STYLES = [
    {"defaults": "value", "order": "spec", "directives_first": False},
    {"defaults": "legacy", "order": "reversed", "directives_first": True},
    {"defaults": "literal", "order": "spec", "directives_first": True},
]


def enum_internal(name):
    """Internal Python value of an enum value in the 'legacy' construction style."""
    return "<" + name + ">"


def split_type(s):
    """'[T!]!' -> ('nonnull', ('list', ('nonnull', ('named', 'T'))))"""
    if s.endswith("!"):
        return ("nonnull", split_type(s[:-1]))
    if s.startswith("["):
        assert s.endswith("]"), s
        return ("list", split_type(s[1:-1]))
    return ("named", s)


def named_of(s):
    return s.replace("[", "").replace("]", "").replace("!", "")


def to_internal(value, type_s, spec):
    """External default value -> the coerced (internal) value of the 'legacy' style."""
    k, inner = split_type(type_s)
    if value is None:
        return None
    if k == "nonnull":
        return to_internal(value, type_s[:-1], spec)
    if k == "list":
        item = type_s[1:-1]
        if isinstance(value, (list, tuple)):
            return [to_internal(v, item, spec) for v in value]
        return [to_internal(value, item, spec)]
    t = spec.type(inner)
    if t is not None and t.kind == "enum":
        return enum_internal(value)
    if t is not None and t.kind == "input":
        out = {}
        for n, v in value.items():
            f = t.field(n)
            out[n] = to_internal(v, f.type, spec)
        return out
    return copy.deepcopy(value)


def legacy_ok(value, type_s, spec):
    """The deprecated internal default (printed through ast_from_value) cannot hold a list or
    dict for a custom scalar; such defaults are given as external values also in 'legacy' style."""
    k, inner = split_type(type_s)
    if value is None:
        return True
    if k == "nonnull":
        return legacy_ok(value, type_s[:-1], spec)
    if k == "list":
        item = type_s[1:-1]
        if isinstance(value, (list, tuple)):
            return all(legacy_ok(v, item, spec) for v in value)
        return legacy_ok(value, item, spec)
    t = spec.type(inner)
    if t is not None and t.kind == "input":
        return all(legacy_ok(v, t.field(n).type, spec) for n, v in value.items())
    if t is not None and t.kind == "scalar":
        return not isinstance(value, (list, tuple, dict))
    return True


def construct(spec, defaults="value", order="spec", directives_first=False):
    """Assemble the schema with the public type constructors.

    defaults: 'value'   GraphQLDefaultInput(value=external Python value)
              'literal' GraphQLDefaultInput(literal=<const value AST>)
              'legacy'  the deprecated ``default_value=`` (internal value; enum values get
                        internal Python values different from their names)
    order:    'spec' | 'reversed'  order of the ``types=`` list (all types are listed)
    directives_first: custom directives before / after the specified ones
    """
    import graphql as g
    from graphql.language import parse_const_value

    legacy = defaults == "legacy"
    types = {}
    builtin = {"Int": g.GraphQLInt, "Float": g.GraphQLFloat, "String": g.GraphQLString,
               "Boolean": g.GraphQLBoolean, "ID": g.GraphQLID}

    def lookup(n):
        return types[n] if n in types else builtin[n]

    def T(s):  # noqa: N802
        k, inner = split_type(s)
        if k == "nonnull":
            return g.GraphQLNonNull(T(s[:-1]))
        if k == "list":
            return g.GraphQLList(T(s[1:-1]))
        return lookup(inner)

    def dflt(a):
        if a.default is None:
            return {}
        if defaults == "literal":
            return {"default": g.GraphQLDefaultInput(literal=parse_const_value(a.default.text))}
        if legacy and legacy_ok(a.default.value, a.type, spec):
            return {"default_value": to_internal(a.default.value, a.type, spec)}
        return {"default": g.GraphQLDefaultInput(value=copy.deepcopy(a.default.value))}

    def mk_args(args):
        return {
            a.name: g.GraphQLArgument(T(a.type), description=a.description, deprecation_reason=a.deprecation, **dflt(a))
            for a in args
        }

    def mk_fields(t):
        return {
            f.name: g.GraphQLField(T(f.type), args=mk_args(f.args), description=f.description,
                                   deprecation_reason=f.deprecation)
            for f in t.fields
        }

    def mk_input_fields(t):
        return {
            f.name: g.GraphQLInputField(T(f.type), description=f.description, deprecation_reason=f.deprecation,
                                        **dflt(f))
            for f in t.fields
        }

    for t in spec.types:
        if t.kind == "scalar":
            types[t.name] = g.GraphQLScalarType(t.name, description=t.description, specified_by_url=t.specified_by)
        elif t.kind == "object":
            types[t.name] = g.GraphQLObjectType(
                t.name, fields=(lambda t=t: mk_fields(t)),
                interfaces=(lambda t=t: [types[i] for i in t.interfaces]), description=t.description)
        elif t.kind == "interface":
            types[t.name] = g.GraphQLInterfaceType(
                t.name, fields=(lambda t=t: mk_fields(t)),
                interfaces=(lambda t=t: [types[i] for i in t.interfaces]), description=t.description)
        elif t.kind == "union":
            types[t.name] = g.GraphQLUnionType(t.name, types=(lambda t=t: [types[m] for m in t.members]),
                                               description=t.description)
        elif t.kind == "enum":
            types[t.name] = g.GraphQLEnumType(
                t.name,
                values={
                    v.name: g.GraphQLEnumValue(enum_internal(v.name) if legacy else v.name,
                                               description=v.description, deprecation_reason=v.deprecation)
                    for v in t.values
                },
                description=t.description)
        elif t.kind == "input":
            types[t.name] = g.GraphQLInputObjectType(t.name, fields=(lambda t=t: mk_input_fields(t)),
                                                     description=t.description, is_one_of=t.one_of)
        else:
            raise ValueError(t.kind)
    custom = [
        g.GraphQLDirective(
            d.name, [g.DirectiveLocation[loc] for loc in d.locations], args=mk_args(d.args),
            is_repeatable=d.repeatable, description=d.description, deprecation_reason=d.deprecation)
        for d in spec.directives
    ]
    specified = list(g.specified_directives)
    names = [t.name for t in spec.types]
    if order == "reversed":
        names.reverse()
    return g.GraphQLSchema(
        query=types[spec.query] if spec.query else None,
        mutation=types[spec.mutation] if spec.mutation else None,
        subscription=types[spec.subscription] if spec.subscription else None,
        types=[types[n] for n in names],
        directives=(custom + specified) if directives_first else (specified + custom),
        description=spec.description,
    )


# --------------------------------------------------------------------------------------
# expected fingerprint (same shape as vf.ref.schemafp.fingerprint)

_KIND = {"scalar": "SCALAR", "object": "OBJECT", "interface": "INTERFACE", "union": "UNION", "enum": "ENUM",
         "input": "INPUT_OBJECT"}


def _fp_iv(a):
    return {"type": a.type, "default": a.default.canon if a.default is not None else None,
            "description": a.description, "deprecation": a.deprecation}


def _fp_type(t):
    e = {"kind": _KIND[t.kind], "description": t.description}
    if t.kind == "scalar":
        e["specified_by"] = t.specified_by
    elif t.kind in ("object", "interface"):
        e["interfaces"] = list(t.interfaces)
        e["fields"] = [
            [f.name, {"type": f.type, "args": [[a.name, _fp_iv(a)] for a in f.args], "description": f.description,
                      "deprecation": f.deprecation}]
            for f in t.fields
        ]
    elif t.kind == "union":
        e["members"] = list(t.members)
    elif t.kind == "enum":
        e["values"] = [[v.name, {"description": v.description, "deprecation": v.deprecation}] for v in t.values]
    elif t.kind == "input":
        e["one_of"] = bool(t.one_of)
        e["fields"] = [[f.name, _fp_iv(f)] for f in t.fields]
    return e


def spec_fingerprint(spec, order="spec"):
    types = [[t.name, _fp_type(t)] for t in spec.types]
    if order == "reversed":
        types.reverse()
    return {
        "description": spec.description,
        "roots": spec.roots(),
        "types": types,
        "directives": [
            [d.name, {"description": d.description, "repeatable": bool(d.repeatable), "locations": list(d.locations),
                      "deprecation": d.deprecation, "args": [[a.name, _fp_iv(a)] for a in d.args]}]
            for d in spec.directives
        ],
        "specified_directives": ["include", "skip", "deprecated", "specifiedBy", "oneOf"],
    }


# --------------------------------------------------------------------------------------
# strings

# hard characters for string *contents* (DESIGN 1.6)
SIGMA_STR = ["a", " ", "\t", "\n", "\r", "\x0b", "\x0c", "\x1c", "\x1d", "\x1e", "\x85", "\u2028", "\u2029", '"',
             "\\", "\x00", "\x7f", "\ufeff", "\uffff", "\U0001f600"]
# the characters block strings and indentation care about: longer strings over fewer symbols
SIGMA_SMALL = ["a", " ", "\n", '"', "\\"]

HARD_DESCRIPTIONS = [
    "line one\n\nline three after an empty line",
    "first\n  \nafter a line of two blanks",
    "first\n\t\nafter a line holding a tab",
    "first\n      \n  second indented, after a line of six blanks\nthird",
    "  leading blanks",
    "\tleading tab\nsecond",
    "first\n    indented more\n  indented less",
    "  all\n  lines\n  indented",
    'has "quotes" inside',
    'ends with quote"',
    '"starts with quote',
    'tri """ ple',
    '""""',
    "back\\slash and \\n not a newline",
    "ends with backslash\\",
    'backslash before quote \\"',
    'backslash before triple \\"""',
    "",
    " ",
    "\n",
    "trailing space \nnext",
    "trailing newline\n",
    "\nleading newline",
    "\n\n  surrounded by blank lines  \n\n",
    "cr\rlf\r\nmix",
    "seps \u2028 \u2029 \x0b \x0c \x85 \x1c end",
    "first\n \u2028\nwhitespace look-alike line",
    "bom \ufeff nul \x00 del \x7f astral \U0001f600",
    "x" * 90,
    "short\n" + "y" * 90,
    "# not a comment",
    "text with , commas : colons { braces } and @at",
]


def strings_upto(alphabet, L):  # noqa: N803
    """All strings of length <= L over the alphabet, shortest first, deterministic."""
    out = []
    for n in range(L + 1):
        for tup in itertools.product(alphabet, repeat=n):
            out.append("".join(tup))
    return out


# --------------------------------------------------------------------------------------
# base schema and features


def base_spec():
    s = Spec()
    s.add(
        TypeDef("object", "Query", fields=[
            Field("id", "ID"),
            Field("name", "String", args=[IV("upper", "Boolean")]),
            Field("self", "Query"),
        ])
    )
    return s


class Feature:
    def __init__(self, id, doc, fn, group=None, experimental=False):  # noqa: A002
        self.id, self.doc, self.fn, self.group, self.experimental = id, doc, fn, group, experimental

    def __repr__(self):
        return f"Feature({self.id})"


FEATURES = OrderedDict()


def feature(id, doc, group=None, experimental=False):  # noqa: A002
    def deco(fn):
        FEATURES[id] = Feature(id, doc, fn, group, experimental)
        return fn

    return deco


def _root_field(s, f):
    s.root().fields.append(f)


# ---- structure ----


@feature("iface_chain", "interface implementing an interface, object implementing both; fields typed by them")
def _f_iface_chain(s):
    s.add(
        TypeDef("interface", "Node", fields=[Field("id", "ID")]),
        TypeDef("interface", "Named", interfaces=["Node"], fields=[Field("id", "ID"), Field("name", "String")]),
        TypeDef("object", "Thing", interfaces=["Named", "Node"],
                fields=[Field("id", "ID"), Field("name", "String"), Field("next", "Node")]),
    )
    _root_field(s, Field("node", "Node"))
    _root_field(s, Field("named", "[Named]"))


@feature("iface_args", "interface field with arguments and defaults; the implementation adds an optional argument")
def _f_iface_args(s):
    s.add(
        TypeDef("interface", "Greeter", fields=[
            Field("greet", "String", args=[IV("p", "String", Default('"n"', "n")), IV("q", "Int")])]),
        TypeDef("object", "Polite", interfaces=["Greeter"], fields=[
            Field("greet", "String!", args=[IV("p", "String", Default('"polite"', "polite")), IV("q", "Int"),
                                             IV("extra", "Int", Default("1", 1))])]),
    )
    _root_field(s, Field("greeter", "Greeter"))


@feature("union2", "union of two object types")
def _f_union2(s):
    s.add(
        TypeDef("object", "Cat", fields=[Field("meow", "Boolean")]),
        TypeDef("object", "Dog", fields=[Field("bark", "Boolean"), Field("chases", "Pet")]),
        TypeDef("union", "Pet", members=["Cat", "Dog"]),
    )
    _root_field(s, Field("pet", "Pet"))
    _root_field(s, Field("pets", "[Pet!]!"))


@feature("union1", "union with a single member, defined before its member")
def _f_union1(s):
    s.add(TypeDef("union", "Solo", members=["Only"]), TypeDef("object", "Only", fields=[Field("x", "Int")]))
    _root_field(s, Field("solo", "Solo"))


@feature("enum_deprecated", "enum with deprecated values (default and custom reason), used in and out")
def _f_enum_deprecated(s):
    s.add(TypeDef("enum", "Color", values=[EV("RED"), EV("GREEN", deprecation="use RED"),
                                          EV("BLUE", deprecation=DEFAULT_REASON)]))
    _root_field(s, Field("color", "Color", args=[IV("c", "Color")]))


@feature("deprecated_empty", '@deprecated(reason: "") on a field, an argument, an input field and an enum value')
def _f_deprecated_empty(s):
    s.add(
        TypeDef("enum", "Level", values=[EV("LOW"), EV("MID", deprecation="")]),
        TypeDef("input", "Knobs", fields=[IV("a", "Int"), IV("old", "Int", deprecation="")]),
    )
    _root_field(s, Field("emptyReason", "Level", args=[IV("k", "Knobs"), IV("oldArg", "Int", deprecation="")],
                         deprecation=""))


@feature("deprecated_reasons", "deprecation reasons with quotes, backslashes, line breaks, default reason spelled out")
def _f_deprecated_reasons(s):
    s.add(
        TypeDef("enum", "Phase", values=[EV("NEW"), EV("OLD", deprecation='say "no"\nsecond line'),
                                          EV("OLDER", deprecation="back\\slash\ttab")]),
        TypeDef("input", "Opts", fields=[IV("keep", "Int"), IV("gone", "Int", deprecation="  spaced  "),
                                         IV("gone2", "String", Default('"d"', "d"), deprecation='"""')]),
    )
    _root_field(s, Field("phased", "Phase", args=[IV("o", "Opts"), IV("legacy", "Int", deprecation="multi\n\n  line")],
                         deprecation=DEFAULT_REASON))
    _root_field(s, Field("phased2", "Int", deprecation="unicode \u2028 \U0001f600 \x7f"))


@feature("oneof_input", "OneOf input object")
def _f_oneof(s):
    s.add(TypeDef("input", "Pick", one_of=True, fields=[IV("byId", "ID"), IV("byName", "String"), IV("byPos", "[Int!]")]))
    _root_field(s, Field("pick", "Int", args=[IV("p", "Pick"), IV("p2", "Pick", Default("{byId: 1}", {"byId": 1}, '{byId: "1"}'))]))


@feature("recursive_input", "input object referring to itself directly and through a list")
def _f_recursive_input(s):
    s.add(TypeDef("input", "Tree", fields=[IV("value", "Int"), IV("kids", "[Tree!]"), IV("parent", "Tree")]))
    _root_field(s, Field("tree", "Int", args=[
        IV("t", "Tree", Default("{value: 1, kids: [{value: 2}]}", {"value": 1, "kids": [{"value": 2}]},
                                "{kids: [{value: 2}], value: 1}"))]))


@feature("wrappers", "list / non-null nestings on output and input positions")
def _f_wrappers(s):
    s.add(TypeDef("input", "Grid", fields=[IV("cells", "[[Int!]!]!"), IV("opt", "[[Int]]")]))
    _root_field(s, Field("matrix", "[[Int!]]!", args=[IV("g", "Grid"), IV("ids", "[ID!]!"), IV("deep", "[[[String]]]")]))
    _root_field(s, Field("selves", "[Query!]!"))


@feature("required_inputs", "required arguments / input fields, and non-null ones made optional by a default")
def _f_required(s):
    s.add(TypeDef("input", "Need", fields=[IV("must", "Int!"), IV("may", "Int!", Default("3", 3))]))
    _root_field(s, Field("need", "Int", args=[IV("n", "Need!"), IV("m", "Int!", Default("4", 4)), IV("r", "String!")]))


# ---- a default of every input kind ----


def _host_input(s):
    if not s.has("Host"):
        s.add(TypeDef("input", "Host", fields=[IV("plain", "Int")]))
        _root_field(s, Field("host", "Int", args=[IV("h", "Host")]))
    return s.type("Host")


def _default_feature(fid, doc, type_s, items, setup=None):
    """items: list of (suffix, Default) - each becomes an argument and an input field."""

    @feature(fid, doc)
    def _f(s):
        if setup is not None:
            setup(s)
        host = _host_input(s)
        args = []
        for suffix, d in items:
            args.append(IV(f"{fid[8:]}{suffix}", type_s, copy.deepcopy(d)))
            host.fields.append(IV(f"{fid[8:]}{suffix}", type_s, copy.deepcopy(d)))
        _root_field(s, Field(f"{fid[8:]}Field", "Int", args=args))

    return _f


_default_feature("default_int", "Int defaults", "Int",
                 [("0", Default("0", 0)), ("Neg", Default("-7", -7)), ("Max", Default("2147483647", 2147483647)),
                  # an external value that is a float with an integral value is a legal Int input (prints as an Int literal)
                  ("Float", Default("25", 25.0, "25")), ("Exp", Default("1000", 1e3, "1000"))])
_default_feature("default_float", "Float defaults (fraction, exponent, integer literal, negative zero)", "Float", [
    ("Frac", Default("1.5", 1.5, "1.5")),
    ("Exp", Default("1e3", 1000.0, "1000.0")),
    ("Int", Default("2", 2, "2.0")),
    ("Small", Default("-2.5e-7", -2.5e-7, "-2.5e-07")),
    ("Big", Default("1.5e300", 1.5e300, "1.5e+300")),
])
_default_feature("default_string", "String defaults (empty, escapes, unicode, block-like content)", "String", [
    ("Empty", Default('""', "", '""')),
    ("Plain", Default('"abc"', "abc")),
    ("Esc", Default('"q\\"b\\\\n\\nt\\t"', 'q"b\\n\nt\t', '"q\\"b\\\\n\\nt\\t"')),
    ("Uni", Default('"\\u2028\\u00e9\\u{1F600}"', "\u2028\u00e9\U0001f600", '"\\u2028\\u00e9\\ud83d\\ude00"')),
    ("Lines", Default('"a\\n  b\\n\\nc"', "a\n  b\n\nc", '"a\\n  b\\n\\nc"')),
])
_default_feature("default_boolean", "Boolean defaults", "Boolean",
                 [("T", Default("true", True)), ("F", Default("false", False))])
_default_feature("default_id", "ID defaults (string, integer literal)", "ID",
                 [("S", Default('"abc"', "abc")), ("N", Default("123", 123, '"123"')), ("NS", Default('"42"', "42"))])


def _setup_enum(s):
    if not s.has("Dir"):
        s.add(TypeDef("enum", "Dir", values=[EV("UP"), EV("DOWN"), EV("LEFT", deprecation="no")]))


_default_feature("default_enum", "enum defaults (also a deprecated value)", "Dir",
                 [("Up", Default("UP", "UP")), ("Dep", Default("LEFT", "LEFT"))], setup=_setup_enum)
_default_feature("default_null", "null defaults on nullable positions", "Int", [("Null", Default("null", None))])


@feature("default_list", "list defaults (empty, nested, single value for a list)")
def _f_default_list(s):
    host = _host_input(s)
    items = [
        IV("listEmpty", "[Int]", Default("[]", [])),
        IV("listInts", "[Int!]", Default("[1, 2, 3]", [1, 2, 3])),
        IV("listNested", "[[Int]]", Default("[[1], [], [2, null]]", [[1], [], [2, None]])),
        IV("listStr", "[String]!", Default('["a", "", null]', ["a", "", None])),
    ]
    for a in items:
        host.fields.append(copy.deepcopy(a))
    _root_field(s, Field("listField", "Int", args=items))


@feature("default_object", "input object defaults (empty, partial, full, keys out of definition order)")
def _f_default_object(s):
    s.add(TypeDef("input", "Point", fields=[IV("x", "Int", Default("0", 0)), IV("y", "Int"), IV("label", "String")]))
    host = _host_input(s)
    items = [
        IV("objEmpty", "Point", Default("{}", {})),
        IV("objPart", "Point", Default("{y: 2}", {"y": 2})),
        IV("objFull", "Point!", Default('{x: 1, y: 2, label: "p"}', {"x": 1, "y": 2, "label": "p"},
                                        '{label: "p", x: 1, y: 2}')),
        IV("objNull", "Point", Default("{y: null}", {"y": None})),
    ]
    for a in items:
        host.fields.append(copy.deepcopy(a))
    _root_field(s, Field("objField", "Int", args=items))


@feature("default_nested", "defaults nesting list, object and enum; object default on a list position")
def _f_default_nested(s):
    _setup_enum(s)
    s.add(TypeDef("input", "Move", fields=[IV("dir", "Dir", Default("UP", "UP")), IV("steps", "[Int!]"),
                                           IV("then", "[Move!]")]))
    _root_field(s, Field("moves", "Int", args=[
        IV("path", "[Move!]", Default("[{dir: DOWN, steps: [1, 2]}, {then: [{dir: LEFT}]}]",
                                      [{"dir": "DOWN", "steps": [1, 2]}, {"then": [{"dir": "LEFT"}]}])),
        IV("dirs", "[[Dir!]]", Default("[[UP, DOWN], []]", [["UP", "DOWN"], []])),
    ]))


@feature("default_custom_scalar", "defaults for a custom scalar (any literal shape)")
def _f_default_scalar(s):
    s.add(TypeDef("scalar", "Any"))
    _root_field(s, Field("anything", "Any", args=[
        IV("a1", "Any", Default("1", 1)),
        IV("a2", "Any", Default('"s"', "s")),
        IV("a3", "Any", Default('{k: [1, "x", true, null], z: 1.5}', {"k": [1, "x", True, None], "z": 1.5})),
        IV("a4", "[Any]", Default("[[], {}]", [[], {}])),
    ]))


# ---- directives ----


@feature("dir_all_locations", "non repeatable directive on every location with arguments of several types and defaults")
def _f_dir_all(s):
    s.directives.append(DirDef("everywhere", ALL_LOCATIONS, args=[
        IV("name", "String", Default('"x"', "x")), IV("n", "Int!"), IV("flags", "[Boolean!]", Default("[true]", [True])),
        IV("id", "ID")]))


@feature("dir_repeatable", "repeatable directive with list / input object arguments and defaults")
def _f_dir_repeatable(s):
    s.add(TypeDef("input", "Rule", fields=[IV("key", "String!"), IV("weight", "Float", Default("0.5", 0.5))]))
    s.directives.append(DirDef("rule", ["FIELD_DEFINITION", "OBJECT", "FIELD"], repeatable=True, args=[
        IV("rules", "[Rule!]", Default('[{key: "k"}]', [{"key": "k"}])),
        IV("one", "Rule", Default('{key: "a", weight: 2}', {"key": "a", "weight": 2}, '{key: "a", weight: 2.0}')),
    ]))


@feature("dir_bare", "directives without arguments, single location; two of them (order)")
def _f_dir_bare(s):
    s.directives.append(DirDef("zeta", ["QUERY"]))
    s.directives.append(DirDef("alpha", ["ENUM_VALUE"], repeatable=True))


@feature("dir_deprecated", "deprecated directive definitions (experimental syntax)", experimental=True)
def _f_dir_deprecated(s):
    s.experimental = True
    s.directives.append(DirDef("oldDir", ["FIELD"], deprecation="gone"))
    s.directives.append(DirDef("oldDir2", ["FIELD", "QUERY"], args=[IV("a", "Int")], repeatable=True,
                               deprecation=DEFAULT_REASON))


@feature("name_clash_dir_type", "a type named like a specified directive and a directive named like a type")
def _f_name_clash(s):
    s.add(TypeDef("object", "skip", fields=[Field("include", "Int"), Field("deprecated", "skip")]))
    s.directives.append(DirDef("Query", ["FIELD"], args=[IV("skip", "Boolean")]))
    _root_field(s, Field("skip", "skip", args=[IV("if", "Boolean")]))


# ---- scalars ----


@feature("specified_by", "custom scalar with @specifiedBy, used as output and input")
def _f_specified_by(s):
    s.add(TypeDef("scalar", "Url", specified_by="https://example.com/url?a=1&b=\"q\""))
    _root_field(s, Field("url", "Url", args=[IV("u", "Url")]))


@feature("scalar_plain", "custom scalars without @specifiedBy, one of them unused")
def _f_scalar_plain(s):
    s.add(TypeDef("scalar", "Date"), TypeDef("scalar", "Unused"))
    _root_field(s, Field("date", "Date", args=[IV("d", "[Date!]")]))


@feature("orphans", "types of every kind that nothing refers to; interface without implementation")
def _f_orphans(s):
    s.add(
        TypeDef("object", "OrphanObj", fields=[Field("o", "OrphanEnum")]),
        TypeDef("interface", "OrphanIface", fields=[Field("i", "Int")]),
        TypeDef("union", "OrphanUnion", members=["OrphanObj"]),
        TypeDef("enum", "OrphanEnum", values=[EV("ONE")]),
        TypeDef("input", "OrphanInput", fields=[IV("i", "Int")]),
    )


@feature("natural_names", "names whose natural order differs from the lexicographic one, given unsorted")
def _f_natural(s):
    s.add(
        TypeDef("enum", "e10", values=[EV("v10"), EV("v9"), EV("V1"), EV("_v"), EV("v010")]),
        TypeDef("enum", "e9", values=[EV("B"), EV("A")]),
        TypeDef("input", "i2", fields=[IV("f10", "Int"), IV("f2", "Int"), IV("F", "Int"), IV("f02", "Int")]),
        TypeDef("object", "T10", fields=[Field("a10", "Int", args=[IV("z", "Int"), IV("a10", "Int"), IV("a9", "Int")]),
                                         Field("a2", "e10"), Field("A", "e9")]),
        TypeDef("object", "T9", fields=[Field("b", "Int")]),
        TypeDef("union", "U1", members=["T9", "T10"]),
    )
    s.directives.append(DirDef("d10", ["QUERY", "FIELD", "ENUM"], args=[IV("b", "i2"), IV("a", "Int")]))
    s.directives.append(DirDef("d9", ["OBJECT"]))
    _root_field(s, Field("z9", "U1"))
    _root_field(s, Field("z10", "T10"))


# ---- root operation types ----


@feature("mutation_root", "conventionally named mutation root")
def _f_mutation_root(s):
    s.add(TypeDef("object", "Mutation", fields=[Field("set", "Int", args=[IV("to", "Int", Default("1", 1))])]))
    s.mutation = "Mutation"


@feature("subscription_root", "conventionally named subscription root")
def _f_subscription_root(s):
    s.add(TypeDef("object", "Subscription", fields=[Field("ticks", "Int")]))
    s.subscription = "Subscription"


@feature("roots_custom", "all three roots under non conventional names (schema block)")
def _f_roots_custom(s):
    s.rename_type(s.query, "QueryRoot")
    if s.mutation is None:
        s.add(TypeDef("object", "MutationRoot", fields=[Field("m", "Int")]))
        s.mutation = "MutationRoot"
    else:
        s.rename_type(s.mutation, "MutationRoot")
    if s.subscription is None:
        s.add(TypeDef("object", "SubscriptionRoot", fields=[Field("s", "Int")]))
        s.subscription = "SubscriptionRoot"
    else:
        s.rename_type(s.subscription, "SubscriptionRoot")


@feature("root_custom_query", "only the query root renamed", group="queryname")
def _f_root_custom_query(s):
    if s.query == "Query":
        s.rename_type("Query", "Root")


@feature("roots_shared", "mutation root defined before the query root in the type list")
def _f_roots_order(s):
    if s.mutation is None:
        s.types.insert(0, TypeDef("object", "Mutation" if not s.has("Mutation") else "Mut2",
                                  fields=[Field("first", s.query)]))
        s.mutation = s.types[0].name


@feature("schema_block", "explicit schema block although the names are conventional")
def _f_schema_block(s):
    s.block = True


@feature("schema_description", "description on the schema definition")
def _f_schema_description(s):
    s.description = "The schema.\n\n  Second paragraph, indented."


# ---- Query / Mutation / Subscription as names of types that are NOT roots ----


def _free_root_name(s, op, conv, new):
    if getattr(s, op) == conv:
        s.rename_type(conv, new)


@feature("name_query_object", "object type named Query that is not the query root", group="name:Query")
def _f_name_query_object(s):
    _free_root_name(s, "query", "Query", "RealQuery")
    s.add(TypeDef("object", "Query", fields=[Field("notRoot", "Int")]))
    _root_field(s, Field("theQueryType", "Query"))


@feature("name_query_enum", "enum named Query", group="name:Query")
def _f_name_query_enum(s):
    _free_root_name(s, "query", "Query", "RealQuery")
    s.add(TypeDef("enum", "Query", values=[EV("FAST"), EV("SLOW")]))
    _root_field(s, Field("queryKind", "Query", args=[IV("k", "Query", Default("FAST", "FAST"))]))


@feature("name_mutation_object", "object type named Mutation that is not the mutation root", group="name:Mutation")
def _f_name_mutation_object(s):
    _free_root_name(s, "mutation", "Mutation", "RealMutation")
    s.add(TypeDef("object", "Mutation", fields=[Field("gene", "String")]))
    _root_field(s, Field("mutations", "[Mutation]"))


@feature("name_mutation_input", "input object named Mutation", group="name:Mutation")
def _f_name_mutation_input(s):
    _free_root_name(s, "mutation", "Mutation", "RealMutation")
    s.add(TypeDef("input", "Mutation", fields=[IV("gene", "String")]))
    _root_field(s, Field("mutate", "Int", args=[IV("m", "Mutation")]))


@feature("name_subscription_object", "object type named Subscription that is not the subscription root",
         group="name:Subscription")
def _f_name_subscription_object(s):
    _free_root_name(s, "subscription", "Subscription", "RealSubscription")
    s.add(TypeDef("object", "Subscription", fields=[Field("plan", "String"), Field("renews", "Boolean")]))
    _root_field(s, Field("billing", "Subscription"))


@feature("name_subscription_enum", "enum named Subscription", group="name:Subscription")
def _f_name_subscription_enum(s):
    _free_root_name(s, "subscription", "Subscription", "RealSubscription")
    s.add(TypeDef("enum", "Subscription", values=[EV("FREE"), EV("PAID")]))
    _root_field(s, Field("plan", "Subscription"))


@feature("name_subscription_interface", "interface named Subscription", group="name:Subscription")
def _f_name_subscription_interface(s):
    _free_root_name(s, "subscription", "Subscription", "RealSubscription")
    s.add(TypeDef("interface", "Subscription", fields=[Field("plan", "String")]))
    _root_field(s, Field("anyPlan", "Subscription"))


@feature("name_mutation_scalar_unused", "scalar named Mutation that nothing refers to", group="name:Mutation")
def _f_name_mutation_scalar(s):
    _free_root_name(s, "mutation", "Mutation", "RealMutation")
    s.add(TypeDef("scalar", "Mutation"))


# ---- SDL layout ----


@feature("layout_types_first", "SDL lists types first, then directives, then the schema block")
def _f_layout(s):
    s.layout = "tds"


@feature("sdl_quoted_descriptions", "SDL writes every description as a quoted string with escapes")
def _f_quoted(s):
    s.desc_style = "quoted"


# ---- descriptions (applied last, so that they decorate what the other features added) ----


def elements(spec):
    """Every describable element: (kind, label, object)."""
    out = [("schema", "schema", spec)] if spec.needs_block() else []
    for d in spec.directives:
        out.append(("directive", "@" + d.name, d))
        for a in d.args:
            out.append(("directive_arg", f"@{d.name}({a.name}:)", a))
    for t in spec.types:
        out.append((t.kind, t.name, t))
        if t.kind in ("object", "interface"):
            for f in t.fields:
                out.append(("field", f"{t.name}.{f.name}", f))
                for a in f.args:
                    out.append(("arg", f"{t.name}.{f.name}({a.name}:)", a))
        elif t.kind == "input":
            for f in t.fields:
                out.append(("input_field", f"{t.name}.{f.name}", f))
        elif t.kind == "enum":
            for v in t.values:
                out.append(("enum_value", f"{t.name}.{v.name}", v))
    return out


@feature("desc_simple", "a one line description on every element of every kind (incl. the schema)")
def _f_desc_simple(s):
    s.block = True
    for kind, label, obj in elements(s):
        obj.description = f"The {kind} {label}"


@feature("desc_multiline", "hard multi line descriptions rotated over every element of every kind")
def _f_desc_multiline(s):
    s.block = True
    for i, (_kind, _label, obj) in enumerate(elements(s)):
        obj.description = HARD_DESCRIPTIONS[i % len(HARD_DESCRIPTIONS)]


@feature("desc_partial", "descriptions on every second argument / field / value only (mixed one line and block layout)")
def _f_desc_partial(s):
    for i, (kind, label, obj) in enumerate(elements(s)):
        if kind == "schema" or i % 2:
            continue
        if obj.description is None:
            obj.description = f"Partial {label}\nsecond line" if i % 4 else f"Partial {label}"


# --------------------------------------------------------------------------------------
# enumeration


def enumerate_schemas(k, experimental=True):
    """All feature subsets of size <= k (tuples in FEATURES order), smallest first."""
    ids = [f for f in FEATURES if experimental or not FEATURES[f].experimental]
    out = []
    for n in range(k + 1):
        for combo in itertools.combinations(ids, n):
            groups = [FEATURES[f].group for f in combo if FEATURES[f].group]
            if len(groups) != len(set(groups)):
                continue
            out.append(combo)
    return out


def make_spec(feature_ids, base=None):
    s = base.clone() if base is not None else base_spec()
    want = set(feature_ids)
    unknown = want - set(FEATURES)
    assert not unknown, unknown
    for fid, f in FEATURES.items():  # fixed application order
        if fid in want:
            f.fn(s)
    s.features = tuple(f for f in FEATURES if f in want)
    return s


def build_sdl(feature_ids):
    return render_sdl(make_spec(feature_ids))


def build_programmatic(feature_ids, **style):
    return construct(make_spec(feature_ids), **style)


def is_experimental(feature_ids):
    return any(FEATURES[f].experimental for f in feature_ids)


# --------------------------------------------------------------------------------------
# the description / reason / string positions (C17: every string in every position)


def description_host():
    """A small schema with one element of every describable kind."""
    s = Spec()
    s.block = True
    s.directives.append(DirDef("dir", ["FIELD", "OBJECT"], args=[IV("darg", "String")]))
    s.add(
        TypeDef("scalar", "Sc"),
        TypeDef("enum", "En", values=[EV("A"), EV("B")]),
        TypeDef("input", "In", fields=[IV("first", "Int"), IV("second", "String")]),
        TypeDef("interface", "If", fields=[Field("f", "Int")]),
        TypeDef("object", "Query", interfaces=["If"], fields=[
            Field("f", "Int"),
            Field("g", "Sc", args=[IV("x", "In"), IV("y", "En"), IV("s", "String")]),
            Field("u", "Un"),
        ]),
        TypeDef("union", "Un", members=["Query"]),
    )
    return s


def _pos_desc(getter):
    def put(spec, s):
        getter(spec).description = s

    return put


def _pos_reason(getter):
    def put(spec, s):
        getter(spec).deprecation = s

    return put


def _put_specified_by(spec, s):
    spec.type("Sc").specified_by = s


def _put_default_string(spec, s):
    spec.type("Query").field("g").args[2].default = Default(quote(s), s, _json(s))


def _put_default_in_object(spec, s):
    spec.type("Query").field("g").args[0].default = Default("{second: " + quote(s) + "}", {"second": s},
                                                            "{second: " + _json(s) + "}")


def _json(s):
    import json

    return json.dumps(s, ensure_ascii=True)


DESCRIPTION_POSITIONS = OrderedDict([
    ("desc:schema", _pos_desc(lambda sp: sp)),
    ("desc:directive", _pos_desc(lambda sp: sp.directive("dir"))),
    ("desc:directive_arg", _pos_desc(lambda sp: sp.directive("dir").args[0])),
    ("desc:scalar", _pos_desc(lambda sp: sp.type("Sc"))),
    ("desc:object", _pos_desc(lambda sp: sp.type("Query"))),
    ("desc:interface", _pos_desc(lambda sp: sp.type("If"))),
    ("desc:union", _pos_desc(lambda sp: sp.type("Un"))),
    ("desc:enum", _pos_desc(lambda sp: sp.type("En"))),
    ("desc:input", _pos_desc(lambda sp: sp.type("In"))),
    ("desc:field_first", _pos_desc(lambda sp: sp.type("Query").field("f"))),
    ("desc:field", _pos_desc(lambda sp: sp.type("Query").field("g"))),
    ("desc:arg_first", _pos_desc(lambda sp: sp.type("Query").field("g").args[0])),
    ("desc:arg", _pos_desc(lambda sp: sp.type("Query").field("g").args[1])),
    ("desc:enum_value_first", _pos_desc(lambda sp: sp.type("En").values[0])),
    ("desc:enum_value", _pos_desc(lambda sp: sp.type("En").values[1])),
    ("desc:input_field_first", _pos_desc(lambda sp: sp.type("In").fields[0])),
    ("desc:input_field", _pos_desc(lambda sp: sp.type("In").fields[1])),
    ("reason:field", _pos_reason(lambda sp: sp.type("Query").field("g"))),
    ("reason:arg", _pos_reason(lambda sp: sp.type("Query").field("g").args[1])),
    ("reason:enum_value", _pos_reason(lambda sp: sp.type("En").values[1])),
    ("reason:input_field", _pos_reason(lambda sp: sp.type("In").fields[1])),
    ("url:specified_by", _put_specified_by),
    ("default:string_arg", _put_default_string),
    ("default:string_in_object", _put_default_in_object),
])


def place_string(spec, position, s):
    """Put string ``s`` at the named position of (a clone of) the description host."""
    DESCRIPTION_POSITIONS[position](spec, s)
    return spec
