"""Extension items and single edits over the schema family of vf/gen/schemas.py (C19).

* ``c19_base()``            a base Spec with one type of every kind, two directives, defaults
                            of input object type (the targets of the extension items)
* ``extension_items(spec)`` the menu of extension items valid against ``spec``.  An item is a
                            list of ``Def``s (one SDL definition / extension each) together
                            with its effect on the declarative Spec, so that the expected
                            result of extending is computed without the library:
                            ``merge(spec, defs)`` = new definitions appended in document
                            order, then extensions applied in document order.
* ``orders(defs, full)``    the definition orders to run (all permutations up to 4
                            definitions; longer documents: rotations, reversals and adjacent
                            transpositions)
* ``EDITS``                 single schema edits, one (or more) per change kind that
                            ``find_schema_changes`` knows, with the expected change type
* ``root_query(spec)``      a query selecting every root field whose arguments are optional
"""

from __future__ import annotations

import itertools

from vf.gen.schemas import DEFAULT_REASON, IV, Default, DirDef, EV, Field, TypeDef, base_spec

TAG_LOCATIONS = ["SCHEMA", "SCALAR", "OBJECT", "FIELD_DEFINITION", "ARGUMENT_DEFINITION", "INTERFACE", "UNION",
                 "ENUM", "ENUM_VALUE", "INPUT_OBJECT", "INPUT_FIELD_DEFINITION"]


def c19_core(s):
    s.directives.append(DirDef("tag", TAG_LOCATIONS, repeatable=True,
                               args=[IV("name", "String", Default('"t"', "t")), IV("weight", "Int")]))
    s.directives.append(DirDef("once", ["FIELD", "QUERY"],
                               args=[IV("flag", "Boolean!", Default("true", True)), IV("opt", "Filter")],
                               description="Applies once."))
    s.add(
        TypeDef("interface", "Entity", fields=[Field("id", "ID")]),
        TypeDef("interface", "Stamped", fields=[Field("at", "Int")]),
        TypeDef("object", "Item", interfaces=["Entity"], fields=[
            Field("id", "ID"),
            Field("label", "String", args=[IV("prefix", "String", Default('"p"', "p")), IV("n", "Int!")],
                  description="The label."),
        ], description="An item."),
        TypeDef("object", "Extra", fields=[Field("n", "Int"), Field("m", "[Int!]")]),
        TypeDef("union", "Either", members=["Item", "Extra"]),
        TypeDef("enum", "Mode", values=[EV("ON"), EV("OFF"), EV("AUTO", description="Automatic.")]),
        TypeDef("input", "Filter", fields=[IV("mode", "Mode", Default("ON", "ON")), IV("limit", "Int", Default("10", 10)),
                                           IV("note", "String", description="A note.")]),
        TypeDef("scalar", "Blob"),
    )
    q = s.root()
    q.fields.extend([
        Field("entity", "Entity"),
        Field("either", "Either"),
        Field("mode", "Mode", args=[IV("m", "Mode", Default("OFF", "OFF"))]),
        Field("items", "[Item]", args=[IV("filter", "Filter", Default("{limit: 5}", {"limit": 5})),
                                       IV("filters", "[Filter!]", Default("[{}]", [{}]))]),
        Field("blob", "Blob", args=[IV("b", "Blob")]),
    ])


def c19_base():
    s = base_spec()
    c19_core(s)
    return s


# --------------------------------------------------------------------------------------
# extension items


class Def:
    """One definition of an extension document and its effect on a Spec."""

    def __init__(self, sdl, apply, is_extension):
        self.sdl, self.apply, self.is_extension = sdl, apply, is_extension


class Item:
    def __init__(self, id, defs, experimental=False):  # noqa: A002
        self.id, self.defs, self.experimental = id, defs, experimental


def _new_type(sdl, typedef):
    def ap(s):
        s.add(typedef())

    return Def(sdl, ap, False)


def _ext(sdl, fn):
    return Def(sdl, fn, True)


def _noop(_s):
    return None


def extension_items(spec):
    """The items that are valid against ``spec`` (a c19_base() + features Spec)."""
    q = spec.query
    items = []

    def add(id_, *defs, experimental=False):
        items.append(Item(id_, list(defs), experimental))

    # -- objects
    add("obj_field", _ext("extend type Item { extra1: Int }",
                          lambda s: s.type("Item").fields.append(Field("extra1", "Int"))))
    add("obj_field_args", _ext(
        'extend type Item {\n  "Second extra."\n  extra2(a: Filter = {mode: OFF}, b: [Mode!] = [ON]): [Item!] @deprecated(reason: "x")\n}',
        lambda s: s.type("Item").fields.append(Field("extra2", "[Item!]", args=[
            IV("a", "Filter", Default("{mode: OFF}", {"mode": "OFF"})), IV("b", "[Mode!]", Default("[ON]", ["ON"]))],
            description="Second extra.", deprecation="x"))))

    def _obj_iface(s):
        t = s.type("Extra")
        t.interfaces.append("Marked")
        t.fields.append(Field("mark", "Int"))

    add("obj_interface",
        _new_type("interface Marked { mark: Int }", lambda: TypeDef("interface", "Marked", fields=[Field("mark", "Int")])),
        _ext("extend type Extra implements Marked { mark: Int }", _obj_iface))
    add("obj_directive", _ext('extend type Item @tag(name: "o")', _noop))
    add("root_field", _ext(f"extend type {q} {{ added(x: Int = 1): Extra }}",
                           lambda s: s.root().fields.append(Field("added", "Extra", args=[IV("x", "Int", Default("1", 1))]))))
    # -- interfaces
    add("iface_field",
        _ext("extend interface Entity { rank: Int }", lambda s: s.type("Entity").fields.append(Field("rank", "Int"))),
        _ext("extend type Item { rank: Int }", lambda s: s.type("Item").fields.append(Field("rank", "Int"))))

    def _iface_iface(s):
        t = s.type("Entity")
        t.interfaces.append("Base")
        t.fields.append(Field("base", "Int"))

    def _item_base(s):
        t = s.type("Item")
        t.interfaces.append("Base")
        t.fields.append(Field("base", "Int"))

    add("iface_interface",
        _new_type("interface Base { base: Int }", lambda: TypeDef("interface", "Base", fields=[Field("base", "Int")])),
        _ext("extend interface Entity implements Base { base: Int }", _iface_iface),
        _ext("extend type Item implements Base { base: Int }", _item_base))
    add("iface_directive", _ext("extend interface Entity @tag", _noop))
    # -- unions
    add("union_member",
        _new_type("type Third { t: Int }", lambda: TypeDef("object", "Third", fields=[Field("t", "Int")])),
        _ext("extend union Either = Third", lambda s: s.type("Either").members.append("Third")))
    add("union_directive", _ext('extend union Either @tag(name: "u")', _noop))
    # -- enums

    def _enum_values(s):
        s.type("Mode").values.extend([EV("MANUAL", deprecation="m"), EV("DESCRIBED", description="desc")])

    add("enum_value", _ext('extend enum Mode { MANUAL @deprecated(reason: "m") "desc" DESCRIBED }', _enum_values))
    add("enum_directive", _ext("extend enum Mode @tag", _noop))
    # -- input objects
    add("input_field", _ext("extend input Filter { extra: Int = 3 }",
                            lambda s: s.type("Filter").fields.append(IV("extra", "Int", Default("3", 3)))))

    def _input_nested(s):
        s.type("Filter").fields.extend([IV("sub", "Filter"), IV("tags", "[String!]", Default('["a"]', ["a"]))])

    add("input_field_nested", _ext('extend input Filter { sub: Filter, tags: [String!] = ["a"] }', _input_nested))
    add("input_directive", _ext("extend input Filter @tag", _noop))
    # -- scalars
    add("scalar_directive", _ext('extend scalar Blob @tag(name: "s")', _noop))

    def _blob_url(s):
        s.type("Blob").specified_by = "https://example.com/blob"

    add("scalar_specified_by", _ext('extend scalar Blob @specifiedBy(url: "https://example.com/blob")', _blob_url))
    add("scalar_twice", _ext('extend scalar Blob @tag(name: "1")', _noop), _ext('extend scalar Blob @tag(name: "2")', _noop))
    # -- new types of every kind
    add("new_object", _new_type("type NewObj implements Stamped { at: Int other: Either }", lambda: TypeDef(
        "object", "NewObj", interfaces=["Stamped"], fields=[Field("at", "Int"), Field("other", "Either")])))
    add("new_interface",
        _new_type("interface NewIface { x(a: Int = 1): Int }", lambda: TypeDef(
            "interface", "NewIface", fields=[Field("x", "Int", args=[IV("a", "Int", Default("1", 1))])])),
        _new_type("type NewImpl implements NewIface { x(a: Int = 1): Int }", lambda: TypeDef(
            "object", "NewImpl", interfaces=["NewIface"], fields=[Field("x", "Int", args=[IV("a", "Int", Default("1", 1))])])))
    add("new_union", _new_type("union NewUnion = Extra | Item", lambda: TypeDef("union", "NewUnion", members=["Extra", "Item"])))
    add("new_enum", _new_type('"New enum."\nenum NewEnum { A B @deprecated }', lambda: TypeDef(
        "enum", "NewEnum", values=[EV("A"), EV("B", deprecation=DEFAULT_REASON)], description="New enum.")))
    add("new_input", _new_type("input NewInput @oneOf { a: Int b: Filter }", lambda: TypeDef(
        "input", "NewInput", one_of=True, fields=[IV("a", "Int"), IV("b", "Filter")])))
    add("new_scalar", _new_type('scalar NewScalar @specifiedBy(url: "https://example.com/new")', lambda: TypeDef(
        "scalar", "NewScalar", specified_by="https://example.com/new")))

    def _new_dir(s):
        s.directives.append(DirDef("fresh", ["FIELD", "ENUM"], repeatable=True,
                                   args=[IV("f", "Filter", Default("{limit: 1}", {"limit": 1}))]))

    add("new_directive", Def("directive @fresh(f: Filter = {limit: 1}) repeatable on FIELD | ENUM", _new_dir, False))
    add("new_and_extended",
        _new_type("type Lazy { a: Int }", lambda: TypeDef("object", "Lazy", fields=[Field("a", "Int")])),
        _ext("extend type Lazy { b: Lazy }", lambda s: s.type("Lazy").fields.append(Field("b", "Lazy"))))

    def _root_fresh(s):
        s.root().fields.append(Field("fresh", "Fresh", args=[IV("n", "NewIn", Default("{}", {}))]))

    add("new_types_used_by_root",
        _new_type("type Fresh { f: Fresh }", lambda: TypeDef("object", "Fresh", fields=[Field("f", "Fresh")])),
        _ext(f"extend type {q} {{ fresh(n: NewIn = {{}}): Fresh }}", _root_fresh),
        _new_type("input NewIn { v: Int = 1 }", lambda: TypeDef("input", "NewIn", fields=[IV("v", "Int", Default("1", 1))])))
    # -- schema extensions
    if spec.mutation is None:
        mname = "Mutation" if not spec.has("Mutation") else "ExtMutation"

        def _set_mutation(s, mname=mname):
            s.mutation = mname

        add("schema_mutation",
            _new_type(f"type {mname} {{ doIt(n: Int = 2): Int }}", lambda mname=mname: TypeDef(
                "object", mname, fields=[Field("doIt", "Int", args=[IV("n", "Int", Default("2", 2))])])),
            _ext(f"extend schema {{ mutation: {mname} }}", _set_mutation))
    if spec.subscription is None:
        sname = "Subscription" if not spec.has("Subscription") else "ExtSubscription"

        def _set_subscription(s, sname=sname):
            s.subscription = sname

        add("schema_subscription",
            _new_type(f"type {sname} {{ tick: Int }}", lambda sname=sname: TypeDef("object", sname, fields=[Field("tick", "Int")])),
            _ext(f"extend schema {{ subscription: {sname} }}", _set_subscription))
    add("schema_directive", _ext('extend schema @tag(name: "s")', _noop))

    def _dep_once(s):
        if s.directive("once").deprecation is None:
            s.directive("once").deprecation = "r"

    add("directive_extension", _ext('extend directive @once @deprecated(reason: "r")', _dep_once), experimental=True)
    return items


def merge(spec, defs):
    """Reference semantics of A + B: definitions first (document order), then extensions."""
    s = spec.clone()
    for d in defs:
        if not d.is_extension:
            d.apply(s)
    for d in defs:
        if d.is_extension:
            d.apply(s)
    return s


def orders(n, full_upto=4):
    """Index orders for a document of n definitions."""
    idx = list(range(n))
    if n <= full_upto:
        return [list(p) for p in itertools.permutations(idx)]
    out = []
    seen = set()

    def push(p):
        t = tuple(p)
        if t not in seen:
            seen.add(t)
            out.append(list(p))

    for r in range(n):
        rot = idx[r:] + idx[:r]
        push(rot)
        push(rot[::-1])
    for i in range(n - 1):
        p = list(idx)
        p[i], p[i + 1] = p[i + 1], p[i]
        push(p)
    return out


# --------------------------------------------------------------------------------------
# queries for the behavioural (history) variant


def root_query(spec):
    """Select every root field all of whose arguments may be omitted (defaults apply)."""
    sel = []
    for f in spec.root().fields:
        if any(a.type.endswith("!") and a.default is None for a in f.args):
            continue
        named = f.type.replace("[", "").replace("]", "").replace("!", "")
        t = spec.type(named)
        if t is not None and t.kind in ("object", "interface", "union"):
            sel.append(f"{f.name} {{ __typename }}")
        else:
            sel.append(f.name)
    return "{ " + " ".join(sel) + " }"


# --------------------------------------------------------------------------------------
# single edits (one per change kind of find_schema_changes)


class Edit:
    def __init__(self, id, expect, fn):  # noqa: A002
        self.id, self.expect, self.fn = id, expect, fn


EDITS = []


def edit(id, expect):  # noqa: A002
    def deco(fn):
        EDITS.append(Edit(id, expect, fn))
        return fn

    return deco


def _drop(lst, name):
    for i, x in enumerate(lst):
        if x.name == name:
            del lst[i]
            return True
    return False


# ---- breaking


@edit("type_removed", "TYPE_REMOVED")
def _e_type_removed(s):
    # Extra is referenced by the union only: remove both references
    s.type("Either").members.remove("Extra")
    s.types.remove(s.type("Extra"))


@edit("type_changed_kind", "TYPE_CHANGED_KIND")
def _e_type_changed_kind(s):
    t = s.type("Blob")
    t.kind = "enum"
    t.values = [EV("X")]


@edit("type_removed_from_union", "TYPE_REMOVED_FROM_UNION")
def _e_removed_from_union(s):
    s.type("Either").members.remove("Extra")


@edit("value_removed_from_enum", "VALUE_REMOVED_FROM_ENUM")
def _e_value_removed(s):
    _drop(s.type("Mode").values, "AUTO")


@edit("required_input_field_added", "REQUIRED_INPUT_FIELD_ADDED")
def _e_required_input_field(s):
    s.type("Filter").fields.append(IV("must", "Int!"))


@edit("implemented_interface_removed", "IMPLEMENTED_INTERFACE_REMOVED")
def _e_iface_removed(s):
    s.type("Item").interfaces.remove("Entity")


@edit("object_field_removed", "FIELD_REMOVED")
def _e_field_removed(s):
    _drop(s.type("Extra").fields, "m")


@edit("interface_field_removed", "FIELD_REMOVED")
def _e_iface_field_removed(s):
    for n in ("Entity", "Item"):  # keep the interface non-empty and implemented
        s.type(n).fields.append(Field("zz", "Int"))
    _drop(s.type("Entity").fields, "id")


@edit("input_field_removed", "FIELD_REMOVED")
def _e_input_field_removed(s):
    _drop(s.type("Filter").fields, "note")


@edit("object_field_changed_kind", "FIELD_CHANGED_KIND")
def _e_field_changed_kind(s):
    s.type("Extra").field("n").type = "String"


@edit("object_field_list_removed", "FIELD_CHANGED_KIND")
def _e_field_unlisted(s):
    s.type("Extra").field("m").type = "Int"


@edit("object_field_nonnull_removed", "FIELD_CHANGED_KIND")
def _e_field_nullable(s):
    s.type("Extra").field("m").type = "[Int]"


@edit("input_field_changed_kind", "FIELD_CHANGED_KIND")
def _e_input_field_changed_kind(s):
    s.type("Filter").field("note").type = "Int"


@edit("input_field_made_required", "FIELD_CHANGED_KIND")
def _e_input_field_required(s):
    s.type("Filter").field("note").type = "String!"


@edit("required_arg_added", "REQUIRED_ARG_ADDED")
def _e_required_arg(s):
    s.type("Item").field("label").args.append(IV("must", "Int!"))


@edit("arg_removed", "ARG_REMOVED")
def _e_arg_removed(s):
    _drop(s.type("Item").field("label").args, "prefix")


@edit("arg_changed_kind", "ARG_CHANGED_KIND")
def _e_arg_changed_kind(s):
    a = s.type("Item").field("label").args[0]
    a.type, a.default = "Int", None


@edit("arg_made_required", "ARG_CHANGED_KIND")
def _e_arg_required(s):
    s.root().field("name").args[0].type = "Boolean!"


@edit("directive_removed", "DIRECTIVE_REMOVED")
def _e_directive_removed(s):
    _drop(s.directives, "once")


@edit("directive_arg_removed", "DIRECTIVE_ARG_REMOVED")
def _e_directive_arg_removed(s):
    _drop(s.directive("tag").args, "weight")


@edit("required_directive_arg_added", "REQUIRED_DIRECTIVE_ARG_ADDED")
def _e_required_directive_arg(s):
    s.directive("tag").args.append(IV("must", "Int!"))


@edit("directive_repeatable_removed", "DIRECTIVE_REPEATABLE_REMOVED")
def _e_repeatable_removed(s):
    s.directive("tag").repeatable = False


@edit("directive_location_removed", "DIRECTIVE_LOCATION_REMOVED")
def _e_location_removed(s):
    s.directive("once").locations.remove("QUERY")


@edit("directive_arg_changed_kind", "ARG_CHANGED_KIND")
def _e_directive_arg_changed_kind(s):
    s.directive("tag").arg("weight").type = "String"


# ---- dangerous


@edit("value_added_to_enum", "VALUE_ADDED_TO_ENUM")
def _e_value_added(s):
    s.type("Mode").values.append(EV("LATE"))


@edit("type_added_to_union", "TYPE_ADDED_TO_UNION")
def _e_added_to_union(s):
    s.type("Either").members.append(s.query)


@edit("optional_input_field_added", "OPTIONAL_INPUT_FIELD_ADDED")
def _e_optional_input_field(s):
    s.type("Filter").fields.append(IV("may", "Int"))


@edit("optional_arg_added", "OPTIONAL_ARG_ADDED")
def _e_optional_arg(s):
    s.type("Item").field("label").args.append(IV("may", "Int"))


@edit("nonnull_arg_with_default_added", "OPTIONAL_ARG_ADDED")
def _e_optional_arg_default(s):
    s.type("Item").field("label").args.append(IV("may", "Int!", Default("1", 1)))


@edit("implemented_interface_added", "IMPLEMENTED_INTERFACE_ADDED")
def _e_iface_added(s):
    s.type("Extra").interfaces.append("Entity")
    s.type("Extra").fields.append(Field("id", "ID"))


@edit("arg_default_changed", "ARG_DEFAULT_VALUE_CHANGE")
def _e_default_changed(s):
    s.type("Item").field("label").args[0].default = Default('"q"', "q")


@edit("arg_default_removed", "ARG_DEFAULT_VALUE_CHANGE")
def _e_default_removed(s):
    s.type("Item").field("label").args[0].default = None


@edit("arg_object_default_changed", "ARG_DEFAULT_VALUE_CHANGE")
def _e_object_default_changed(s):
    s.root().field("items").args[0].default = Default("{limit: 6}", {"limit": 6})


@edit("directive_arg_default_changed", "ARG_DEFAULT_VALUE_CHANGE")
def _e_directive_default_changed(s):
    s.directive("tag").arg("name").default = Default('"u"', "u")


@edit("directive_arg_default_removed", "ARG_DEFAULT_VALUE_CHANGE")
def _e_directive_default_removed(s):
    s.directive("tag").arg("name").default = None


# ---- safe


@edit("type_added", "TYPE_ADDED")
def _e_type_added(s):
    s.add(TypeDef("object", "Added", fields=[Field("a", "Int")]))


@edit("directive_added", "DIRECTIVE_ADDED")
def _e_directive_added(s):
    s.directives.append(DirDef("added", ["FIELD"]))


@edit("object_field_added", "FIELD_ADDED")
def _e_field_added(s):
    s.type("Extra").fields.append(Field("more", "Int"))


@edit("interface_field_added", "FIELD_ADDED")
def _e_iface_field_added(s):
    s.type("Entity").fields.append(Field("more", "Int"))
    s.type("Item").fields.append(Field("more", "Int"))


@edit("directive_repeatable_added", "DIRECTIVE_REPEATABLE_ADDED")
def _e_repeatable_added(s):
    s.directive("once").repeatable = True


@edit("directive_location_added", "DIRECTIVE_LOCATION_ADDED")
def _e_location_added(s):
    s.directive("once").locations.append("MUTATION")


@edit("optional_directive_arg_added", "OPTIONAL_DIRECTIVE_ARG_ADDED")
def _e_optional_directive_arg(s):
    s.directive("once").args.append(IV("may", "Int"))


@edit("object_field_made_nonnull", "FIELD_CHANGED_KIND_SAFE")
def _e_field_nonnull(s):
    s.type("Extra").field("n").type = "Int!"


@edit("input_field_made_nullable", "FIELD_CHANGED_KIND_SAFE")
def _e_input_field_nullable(s):
    # the non-null field must exist in the OLD schema: handled by apply_edit
    s.type("Filter").field("strict").type = "Int"


@edit("arg_made_nullable", "ARG_CHANGED_KIND_SAFE")
def _e_arg_nullable(s):
    s.type("Item").field("label").args[1].type = "Int"


@edit("directive_arg_made_nullable", "ARG_CHANGED_KIND_SAFE")
def _e_directive_arg_nullable(s):
    # the old argument must not have a default (else a default change is reported): see apply_edit
    s.directive("once").arg("flag").type = "Boolean"


@edit("arg_default_added", "ARG_DEFAULT_VALUE_ADDED")
def _e_default_added(s):
    s.root().field("name").args[0].default = Default("true", True)


@edit("directive_arg_default_added", "ARG_DEFAULT_VALUE_ADDED")
def _e_directive_default_added(s):
    s.directive("tag").arg("weight").default = Default("1", 1)


def _describe(kind):
    def fn(s):
        target = {
            "type": lambda: s.type("Extra"),
            "described_type": lambda: s.type("Item"),
            "scalar": lambda: s.type("Blob"),
            "union": lambda: s.type("Either"),
            "enum": lambda: s.type("Mode"),
            "input": lambda: s.type("Filter"),
            "interface": lambda: s.type("Entity"),
            "field": lambda: s.type("Extra").field("n"),
            "interface_field": lambda: s.type("Entity").field("id"),
            "arg": lambda: s.type("Item").field("label").args[0],
            "enum_value": lambda: s.type("Mode").values[0],
            "input_field": lambda: s.type("Filter").field("limit"),
            "directive": lambda: s.directive("tag"),
            "directive_arg": lambda: s.directive("tag").arg("weight"),
        }[kind]()
        target.description = "Changed." if target.description != "Changed." else "Changed again."

    return fn


for _k in ("type", "described_type", "scalar", "union", "enum", "input", "interface", "field", "interface_field", "arg",
           "enum_value", "input_field", "directive", "directive_arg"):
    EDITS.append(Edit(f"description_changed_{_k}", "DESCRIPTION_CHANGED", _describe(_k)))


@edit("description_removed", "DESCRIPTION_CHANGED")
def _e_description_removed(s):
    s.type("Item").description = None


@edit("description_to_empty", "DESCRIPTION_CHANGED")
def _e_description_empty(s):
    s.type("Item").field("label").description = ""


def apply_edit(spec_a, e):
    """(old spec, new spec) for edit ``e`` on ``spec_a``."""
    old = spec_a.clone()
    if e.id == "input_field_made_nullable":
        old.type("Filter").fields.append(IV("strict", "Int!", Default("1", 1)))
    if e.id == "directive_arg_made_nullable":
        old.directive("once").arg("flag").default = None
    new = old.clone()
    e.fn(new)
    return old, new
