"""The GraphQL grammar as a choice scenario (DESIGN.md 1.6).

``Gen(chooser, ...).document()`` emits a list of tokens ``(kind, text, value)``;
the default derivation of every production is its shortest one, every option
or repetition is a choice point, so the explorer enumerates all derivations
with <= k departures from the minimal document.  kind: P punctuator, N name,
I int, F float, S string, B block string.  ``value`` is the expected token
value according to the lexical grammar (None for punctuators) - written down
here by hand, independently of the implementation's lexer.
"""

from __future__ import annotations

DEF_KINDS = [
    "shorthand", "query", "mutation", "subscription", "fragment",
    "schema", "scalar", "type", "interface", "union", "enum", "input", "directive",
    "ext_schema", "ext_scalar", "ext_type", "ext_interface", "ext_union", "ext_enum", "ext_input",
    "ext_directive",
]
EXECUTABLE = DEF_KINDS[:5]
TYPESYSTEM = DEF_KINDS[5:13]
EXTENSIONS = DEF_KINDS[13:]

# (source text, value) pairs for quoted and block strings used inside documents
STRINGS = [
    ('"s"', "s"),
    ('""', ""),
    ('"a\\"b\\\\c"', 'a"b\\c'),
    ('"\\u00e9\\n"', "é\n"),
    ('"\\u{1F600}\\uD83D\\uDE00"', "\U0001f600\U0001f600"),
    ('" # , "', " # , "),
]
BLOCKS = [
    ('"""b"""', "b"),
    ('"""\n    x\n      y\n    """', "x\n  y"),
    ('""" a \\""" "" """', ' a """ "" '),
    ('""""""', ""),
]
LOCATIONS = ["FIELD", "QUERY", "OBJECT", "INPUT_FIELD_DEFINITION", "DIRECTIVE_DEFINITION"]


class Gen:
    def __init__(self, c, frag_args=False, dir_on_dir=False, maxn=2, depth=2):
        self.c = c
        self.frag_args = frag_args
        self.dir_on_dir = dir_on_dir
        self.maxn = maxn
        self.maxdepth = depth
        self.out = []

    # -- emit -------------------------------------------------------------
    def p(self, text):
        self.out.append(("P", text, None))

    def n(self, text):
        self.out.append(("N", text, text))

    def name(self, pool, label):
        self.n(self.c.pick(pool, label))

    def opt(self, label):
        return self.c.flag(label)

    def count(self, label, minimum=0, maxn=None):
        return minimum + self.c.choose((maxn if maxn is not None else self.maxn) - minimum + 1, label)

    # -- shared -------------------------------------------------------------
    def string(self, label="str"):
        k = self.c.choose(len(STRINGS) + len(BLOCKS), label)
        if k < len(STRINGS):
            t, v = STRINGS[k]
            self.out.append(("S", t, v))
        else:
            t, v = BLOCKS[k - len(STRINGS)]
            self.out.append(("B", t, v))

    def description(self, label="desc"):
        if self.opt(label):
            self.string(label + ".s")

    def value(self, const, depth=0, label="val"):
        kinds = ["int", "var", "float", "string", "true", "false", "null", "enum", "list", "object"]
        if const:
            kinds.remove("var")
        if depth >= self.maxdepth:
            kinds = [k for k in kinds if k not in ("list", "object")]
        k = self.c.pick(kinds, label)
        if k == "int":
            t = self.c.pick(["1", "0", "-0", "-12", "2147483648"], label + ".int")
            self.out.append(("I", t, t))
        elif k == "float":
            t = self.c.pick(["1.5", "1e3", "-0.0E-2", "6.02e+23"], label + ".float")
            self.out.append(("F", t, t))
        elif k == "var":
            self.p("$")
            self.name(["v", "on", "null"], label + ".var")
        elif k == "string":
            self.string(label + ".str")
        elif k in ("true", "false", "null"):
            self.n(k)
        elif k == "enum":
            self.name(["E", "on", "query", "fragment", "type"], label + ".enum")
        elif k == "list":
            self.p("[")
            for i in range(self.count(label + ".n")):
                self.value(const, depth + 1, f"{label}[{i}]")
            self.p("]")
        else:
            self.p("{")
            for i in range(self.count(label + ".n")):
                self.name(["k", "on", "true"], f"{label}.k{i}")
                self.p(":")
                self.value(const, depth + 1, f"{label}.{i}")
            self.p("}")

    def type_ref(self, label="type"):
        form = self.c.pick(["T", "T!", "[T]", "[T!]!", "[[T]]", "[[T!]]!"], label)
        nm = self.c.pick(["T", "Int", "on"], label + ".name")
        for ch in form:
            if ch == "T":
                self.n(nm)
            else:
                self.p(ch)

    def arguments(self, const, label="args", frag=False):
        n = self.count(label + ".n")
        if n:
            self.p("(")
            for i in range(n):
                self.name(["a", "on", "if"], f"{label}.{i}.name")
                self.p(":")
                self.value(const, 0, f"{label}.{i}")
            self.p(")")

    def directives(self, const, label="dirs"):
        for i in range(self.count(label + ".n")):
            self.p("@")
            self.name(["d", "skip", "on"], f"{label}.{i}.name")
            self.arguments(const, f"{label}.{i}.args")

    # -- executable -------------------------------------------------------------
    def selection_set(self, depth, label="sel"):
        self.p("{")
        for i in range(self.count(label + ".n", minimum=1)):
            self.selection(depth, f"{label}.{i}")
        self.p("}")

    def selection(self, depth, label):
        kinds = ["field", "spread", "inline"]
        if depth >= self.maxdepth:
            kinds = ["field", "spread"]
        k = self.c.pick(kinds, label)
        if k == "field":
            if self.opt(label + ".alias"):
                self.name(["x", "on", "query"], label + ".aliasname")
                self.p(":")
            self.name(["a", "on", "fragment", "__typename"], label + ".name")
            self.arguments(False, label + ".args")
            self.directives(False, label + ".dirs")
            if depth < self.maxdepth and self.opt(label + ".sub"):
                self.selection_set(depth + 1, label + ".sub")
        elif k == "spread":
            self.p("...")
            self.name(["F", "query", "onX"], label + ".fname")
            if self.frag_args:
                self.arguments(False, label + ".fargs")
            self.directives(False, label + ".dirs")
        else:
            self.p("...")
            if self.opt(label + ".cond"):
                self.n("on")
                self.name(["T", "on"], label + ".tc")
            self.directives(False, label + ".dirs")
            self.selection_set(depth + 1, label + ".sub")

    def variable_definitions(self, label="vars"):
        n = self.count(label + ".n")
        if n:
            self.p("(")
            for i in range(n):
                self.description(f"{label}.{i}.desc")
                self.p("$")
                self.name(["v", "on", "w"], f"{label}.{i}.name")
                self.p(":")
                self.type_ref(f"{label}.{i}.type")
                if self.opt(f"{label}.{i}.default"):
                    self.p("=")
                    self.value(True, 0, f"{label}.{i}.dv")
                self.directives(True, f"{label}.{i}.dirs")
            self.p(")")

    # -- definitions -------------------------------------------------------------
    def definition(self, kind, label):
        getattr(self, "d_" + kind)(label)

    def d_shorthand(self, label):
        self.selection_set(0, label + ".sel")

    def _operation(self, op, label):
        self.description(label + ".desc")
        self.n(op)
        if self.opt(label + ".named"):
            self.name(["Q", "on", "query"], label + ".name")
        self.variable_definitions(label + ".vars")
        self.directives(False, label + ".dirs")
        self.selection_set(0, label + ".sel")

    def d_query(self, label):
        self._operation("query", label)

    def d_mutation(self, label):
        self._operation("mutation", label)

    def d_subscription(self, label):
        self._operation("subscription", label)

    def d_fragment(self, label):
        self.description(label + ".desc")
        self.n("fragment")
        self.name(["F", "query", "onX"], label + ".name")
        if self.frag_args:
            self.variable_definitions(label + ".vars")
        self.n("on")
        self.name(["T", "on"], label + ".tc")
        self.directives(False, label + ".dirs")
        self.selection_set(0, label + ".sel")

    def op_types(self, label, minimum):
        n = self.count(label + ".n", minimum=minimum)
        if n:
            self.p("{")
            for i in range(n):
                self.name(["query", "mutation", "subscription"], f"{label}.{i}.op")
                self.p(":")
                self.name(["Q", "on"], f"{label}.{i}.t")
            self.p("}")
        return n

    def d_schema(self, label):
        self.description(label + ".desc")
        self.n("schema")
        self.directives(True, label + ".dirs")
        self.op_types(label + ".ops", 1)

    def d_scalar(self, label):
        self.description(label + ".desc")
        self.n("scalar")
        self.name(["S", "on"], label + ".name")
        self.directives(True, label + ".dirs")

    def implements(self, label):
        n = self.count(label + ".n")
        if n:
            self.n("implements")
            if self.opt(label + ".amp"):
                self.p("&")
            for i in range(n):
                if i:
                    self.p("&")
                self.name(["I", "on", "J"], f"{label}.{i}")

    def input_value_def(self, label):
        self.description(label + ".desc")
        self.name(["a", "on", "input"], label + ".name")
        self.p(":")
        self.type_ref(label + ".type")
        if self.opt(label + ".default"):
            self.p("=")
            self.value(True, 0, label + ".dv")
        self.directives(True, label + ".dirs")

    def argument_defs(self, label):
        n = self.count(label + ".n")
        if n:
            self.p("(")
            for i in range(n):
                self.input_value_def(f"{label}.{i}")
            self.p(")")

    def fields_def(self, label, minimum=0):
        n = self.count(label + ".n", minimum=minimum)
        if n:
            self.p("{")
            for i in range(n):
                self.description(f"{label}.{i}.desc")
                self.name(["f", "on", "type"], f"{label}.{i}.name")
                self.argument_defs(f"{label}.{i}.args")
                self.p(":")
                self.type_ref(f"{label}.{i}.type")
                self.directives(True, f"{label}.{i}.dirs")
            self.p("}")
        return n

    def d_type(self, label):
        self.description(label + ".desc")
        self.n("type")
        self.name(["T", "on", "Query"], label + ".name")
        self.implements(label + ".impl")
        self.directives(True, label + ".dirs")
        self.fields_def(label + ".fields")

    def d_interface(self, label):
        self.description(label + ".desc")
        self.n("interface")
        self.name(["I", "on"], label + ".name")
        self.implements(label + ".impl")
        self.directives(True, label + ".dirs")
        self.fields_def(label + ".fields")

    def union_members(self, label, minimum=0):
        n = self.count(label + ".n", minimum=minimum)
        if n:
            self.p("=")
            if self.opt(label + ".pipe"):
                self.p("|")
            for i in range(n):
                if i:
                    self.p("|")
                self.name(["T", "on", "U"], f"{label}.{i}")
        return n

    def d_union(self, label):
        self.description(label + ".desc")
        self.n("union")
        self.name(["U", "on"], label + ".name")
        self.directives(True, label + ".dirs")
        self.union_members(label + ".members")

    def enum_values(self, label, minimum=0):
        n = self.count(label + ".n", minimum=minimum)
        if n:
            self.p("{")
            for i in range(n):
                self.description(f"{label}.{i}.desc")
                self.name(["A", "on", "enum"], f"{label}.{i}.name")
                self.directives(True, f"{label}.{i}.dirs")
            self.p("}")
        return n

    def d_enum(self, label):
        self.description(label + ".desc")
        self.n("enum")
        self.name(["E", "on"], label + ".name")
        self.directives(True, label + ".dirs")
        self.enum_values(label + ".values")

    def input_fields(self, label, minimum=0):
        n = self.count(label + ".n", minimum=minimum)
        if n:
            self.p("{")
            for i in range(n):
                self.input_value_def(f"{label}.{i}")
            self.p("}")
        return n

    def d_input(self, label):
        self.description(label + ".desc")
        self.n("input")
        self.name(["In", "on"], label + ".name")
        self.directives(True, label + ".dirs")
        self.input_fields(label + ".fields")

    def d_directive(self, label):
        self.description(label + ".desc")
        self.n("directive")
        self.p("@")
        self.name(["d", "on", "repeatable"], label + ".name")
        self.argument_defs(label + ".args")
        if self.dir_on_dir:
            self.directives(True, label + ".dirs")
        if self.opt(label + ".rep"):
            self.n("repeatable")
        self.n("on")
        if self.opt(label + ".pipe"):
            self.p("|")
        n = self.count(label + ".nloc", minimum=1)
        for i in range(n):
            if i:
                self.p("|")
            self.name(LOCATIONS, f"{label}.loc{i}")

    # extensions: at least one of the optional parts must be present
    def _ext_dirs_or(self, label, part):
        """directives then `part(label, minimum)`; if no directives, part is mandatory."""
        before = len(self.out)
        self.directives(True, label + ".dirs")
        has_dirs = len(self.out) > before
        part(label + ".body", 0 if has_dirs else 1)

    def d_ext_schema(self, label):
        self.n("extend")
        self.n("schema")
        self._ext_dirs_or(label, self.op_types)

    def d_ext_scalar(self, label):
        self.n("extend")
        self.n("scalar")
        self.name(["S", "on"], label + ".name")
        # directives are mandatory
        self.p("@")
        self.name(["d", "on"], label + ".d0")
        self.arguments(True, label + ".d0.args")
        self.directives(True, label + ".dirs")

    def d_ext_type(self, label):
        self.n("extend")
        self.n("type")
        self.name(["T", "on"], label + ".name")
        before = len(self.out)
        self.implements(label + ".impl")
        has_impl = len(self.out) > before
        before = len(self.out)
        self.directives(True, label + ".dirs")
        has = has_impl or len(self.out) > before
        self.fields_def(label + ".fields", 0 if has else 1)

    def d_ext_interface(self, label):
        self.n("extend")
        self.n("interface")
        self.name(["I", "on"], label + ".name")
        before = len(self.out)
        self.implements(label + ".impl")
        self.directives(True, label + ".dirs")
        has = len(self.out) > before
        self.fields_def(label + ".fields", 0 if has else 1)

    def d_ext_union(self, label):
        self.n("extend")
        self.n("union")
        self.name(["U", "on"], label + ".name")
        self._ext_dirs_or(label, self.union_members)

    def d_ext_enum(self, label):
        self.n("extend")
        self.n("enum")
        self.name(["E", "on"], label + ".name")
        self._ext_dirs_or(label, self.enum_values)

    def d_ext_input(self, label):
        self.n("extend")
        self.n("input")
        self.name(["In", "on"], label + ".name")
        self._ext_dirs_or(label, self.input_fields)

    def d_ext_directive(self, label):
        self.n("extend")
        self.n("directive")
        self.p("@")
        self.name(["d", "on"], label + ".name")
        self.p("@")
        self.name(["e", "on"], label + ".d0")
        self.arguments(True, label + ".d0.args")
        self.directives(True, label + ".dirs")

    # -- entry points -------------------------------------------------------------
    def document(self, kinds):
        """One definition of a freely chosen kind (cost 0) + up to 2 more (each a deviation)."""
        k = self.c.pick(kinds, "def0.kind", cost=0)
        self.definition(k, "def0")
        for i in range(1, 1 + self.count("ndefs")):
            k = self.c.pick(kinds, f"def{i}.kind", cost=0)
            if k == "shorthand" and self.out and self.out[-1][1] != "}":
                # the grammar reads "{" after a body-less definition (type T, enum E, extend schema @d ...) as that
                # definition's body: a shorthand query cannot be written there; use the keyword form
                k = "query"
            self.definition(k, f"def{i}")
        return self.out


def kinds_for(mode, dir_on_dir):
    if mode == "executable":
        return EXECUTABLE
    ext = EXTENSIONS if dir_on_dir else EXTENSIONS[:-1]
    if mode == "typesystem":
        return TYPESYSTEM
    if mode == "extension":
        return ext
    return EXECUTABLE + TYPESYSTEM + ext


def text_of(tokens, sep=" "):
    return sep.join(t[1] for t in tokens)
