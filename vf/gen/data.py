"""Data graphs conforming to a schema, with single-fault variants (DESIGN.md 1.6).

One dict per object type and variant (two variants so that lists hold different
items); composite fields point at the dicts of their target types, so the graph
is cyclic and any selection depth can be served.  Fields with arguments are
callables ``fn(path, args)``; String-typed ones echo their arguments as JSON so
that the coerced argument values show up in the response data.
"""

from __future__ import annotations

import json


class Boom(Exception):
    pass


def _k():
    from graphql import (GraphQLEnumType, GraphQLInterfaceType, GraphQLList, GraphQLNonNull, GraphQLObjectType,
                         GraphQLScalarType, GraphQLUnionType)

    return GraphQLNonNull, GraphQLList, GraphQLObjectType, GraphQLInterfaceType, GraphQLUnionType, GraphQLEnumType, GraphQLScalarType


def echo(path, args):
    return json.dumps(args, sort_keys=True, default=repr)


def build(schema, variant_null=False, fault=None):
    """fault = (type_name, field_name, kind) with kind in null | wrongleaf | raise | excvalue | badtype | notlist."""
    NonNull, List, Object, Interface, Union, Enum, Scalar = _k()
    objs = {}
    objects = [t for t in schema.type_map.values() if isinstance(t, Object) and not t.name.startswith("__")]
    for t in objects:
        objs[t.name] = ({"__typename": t.name}, {"__typename": t.name})

    def possible(t):
        if isinstance(t, Object):
            return [t]
        return list(schema.get_possible_types(t))

    def leaf(t, tname, fname, variant):
        seed = sum(ord(c) for c in tname + fname) % 50 + variant * 100
        if isinstance(t, Enum):
            vals = list(t.values.values())
            return vals[(seed + variant) % len(vals)].value
        n = t.name
        if n == "Int":
            return seed + 1
        if n == "Float":
            return seed + 0.5
        if n == "String":
            return f"{tname}.{fname}{variant or ''}"
        if n == "Boolean":
            return (seed % 2) == 0
        if n == "ID":
            return f"{tname}{variant + 1}"
        return f"custom:{fname}{variant or ''}"

    def value(t, tname, fname, variant, depth=0):
        if isinstance(t, NonNull):
            return value(t.of_type, tname, fname, variant, depth)
        if isinstance(t, List):
            inner = t.of_type
            base = inner.of_type if isinstance(inner, NonNull) else inner
            if isinstance(base, List):
                return [[value(base.of_type, tname, fname, 0, depth + 2), value(base.of_type, tname, fname, 1, depth + 2)],
                        [value(base.of_type, tname, fname, 1, depth + 2)]]
            if isinstance(base, (Scalar, Enum)):
                return [leaf(base, tname, fname, 0), leaf(base, tname, fname, 1)]
            ps = possible(base)
            items = []
            for i, p in enumerate(ps[:2]):
                items.append(objs[p.name][i % 2])
            if len(items) == 1:
                items.append(objs[ps[0].name][1])
            return items
        if isinstance(t, (Scalar, Enum)):
            return leaf(t, tname, fname, variant)
        ps = possible(t)
        return objs[ps[variant % len(ps)].name][variant]

    for t in objects:
        for variant in (0, 1):
            d = objs[t.name][variant]
            for fname, f in t.fields.items():
                nullable = not isinstance(f.type, NonNull)
                if variant_null and nullable and variant == 0 and not f.args:
                    v = None
                else:
                    v = value(f.type, t.name, fname, variant)
                if f.args:
                    base = f.type.of_type if isinstance(f.type, NonNull) else f.type
                    if isinstance(base, Scalar) and base.name == "String":
                        v = echo
                    else:
                        v = (lambda val: (lambda path, args: val))(v)
                d[fname] = v
    if fault is not None:
        tname, fname, kind = fault
        d = objs[tname][0]
        if kind == "null":
            d[fname] = None
        elif kind == "wrongleaf":
            d[fname] = ["not", "a", "leaf"] if not isinstance(d[fname], list) else {"x": 1}
        elif kind == "raise":
            def boom(path, args):
                raise Boom(f"boom at {path}")
            d[fname] = boom
        elif kind == "excvalue":
            d[fname] = Boom("returned, not raised")
        elif kind == "badtype":
            d[fname] = {"__typename": "NoSuchType"}
        elif kind == "notlist":
            d[fname] = 42
        elif kind == "unserializable":
            # a value the custom scalar's output coercion maps to nothing
            d[fname] = ["drop", d[fname][0]] if isinstance(d[fname], list) else "drop"
    roots = {}
    for op, rt in (("query", schema.query_type), ("mutation", schema.mutation_type), ("subscription", schema.subscription_type)):
        if rt is not None:
            roots[op] = objs[rt.name][0]
    return roots, objs


def fault_menu(schema):
    """Every single fault that is meaningful for the field's type."""
    NonNull, List, Object, Interface, Union, Enum, Scalar = _k()
    out = []
    for t in schema.type_map.values():
        if not isinstance(t, Object) or t.name.startswith("__"):
            continue
        for fname, f in t.fields.items():
            base = f.type
            while isinstance(base, (NonNull, List)):
                base = base.of_type
            kinds = ["null", "raise", "excvalue"]
            is_list = isinstance(f.type.of_type if isinstance(f.type, NonNull) else f.type, List)
            if isinstance(base, (Scalar, Enum)) and not is_list:
                kinds.append("wrongleaf")
            if isinstance(base, (Interface, Union)) and not is_list:
                kinds.append("badtype")
            if is_list:
                kinds.append("notlist")
            if isinstance(base, Scalar) and base.name not in ("Int", "Float", "String", "Boolean", "ID") and not f.args:
                kinds.append("unserializable")
            for k in kinds:
                out.append((t.name, fname, k))
    return out


def harness_resolver(log=None):
    """field_resolver for the implementation that serves the same data model as vf.ref.execute."""

    def resolve(src, info, **args):
        if log is not None:
            log.append((tuple(info.path.as_list()), args))
        v = src.get(info.field_name) if isinstance(src, dict) else None
        if callable(v):
            return v(info.path.as_list(), args)
        return v

    return resolve
