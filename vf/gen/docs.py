"""Type-directed (and, on request, deliberately ill-typed) operation enumerator
over a schema, as a choice scenario (DESIGN.md 1.6).

The default derivation is the smallest valid operation; every deviation adds
one feature: another selection, an alias (chosen so that response names
collide), an argument form, a directive, a fragment, a type condition, a
variable with/without default and with a provided / absent / null value.
"""

from __future__ import annotations

ABSENT = object()


def _k():
    from graphql import (GraphQLEnumType, GraphQLInputObjectType, GraphQLInterfaceType, GraphQLList, GraphQLNonNull,
                         GraphQLObjectType, GraphQLScalarType, GraphQLUnionType)

    return (GraphQLNonNull, GraphQLList, GraphQLObjectType, GraphQLInterfaceType, GraphQLUnionType, GraphQLEnumType,
            GraphQLScalarType, GraphQLInputObjectType)


def valid_inputs(t, depth=0):
    """[(literal text, python value)] accepted for input type t; first entry is the plainest."""
    NonNull, List, Object, Interface, Union, Enum, Scalar, InputObject = _k()
    if isinstance(t, NonNull):
        return [p for p in valid_inputs(t.of_type, depth) if p[0] != "null"]
    out = []
    if isinstance(t, List):
        inner = valid_inputs(t.of_type, depth + 1)
        a = inner[0]
        b = inner[1] if len(inner) > 1 and inner[1][0] != "null" else inner[0]
        out.append((f"[{a[0]}, {b[0]}]", [a[1], b[1]]))
        out.append((a[0], a[1]))  # list of one by coercion; python value is the bare item
        out.append(("[]", []))
        if not isinstance(t.of_type, NonNull):
            out.append((f"[{a[0]}, null]", [a[1], None]))
    elif isinstance(t, InputObject):
        req = {n: f for n, f in t.fields.items() if isinstance(f.type, NonNull) and f.default is None}
        opt = [n for n in t.fields if n not in req]

        def obj(names):
            lits, vals = [], {}
            for n in names:
                lit, val = valid_inputs(t.fields[n].type, depth + 1)[0]
                lits.append(f"{n}: {lit}")
                vals[n] = val
            return ("{" + ", ".join(lits) + "}", vals)

        if t.is_one_of:
            for n in list(t.fields)[:2]:
                out.append(obj([n]))
        else:
            out.append(obj(list(req)))
            if depth < 2:
                for n in opt[:3]:
                    out.append(obj(list(req) + [n]))
                if len(opt) > 1:
                    out.append(obj(list(req) + opt[:2][::-1]))
                # an explicit null for an optional field is not the same as leaving it out (defaults do not apply)
                for n in opt[:3]:
                    if not isinstance(t.fields[n].type, NonNull):
                        lit, vals = obj(list(req))
                        vals = dict(vals)
                        vals[n] = None
                        out.append((lit[:-1] + (", " if req else "") + f"{n}: null}}", vals))
    elif isinstance(t, Enum):
        for name in t.values:
            out.append((name, name))
    else:
        n = t.name
        if n == "Int":
            out += [("1", 1), ("0", 0), ("-7", -7)]
        elif n == "Float":
            out += [("1.5", 1.5), ("2", 2)]
        elif n == "String":
            out += [('"s"', "s"), ('""', "")]
        elif n == "Boolean":
            out += [("true", True), ("false", False)]
        elif n == "ID":
            out += [('"id"', "id"), ("7", 7)]
        else:
            out += [('"c"', "c"), ("1", 1), ("{a: [1, {b: null}]}", {"a": [1, {"b": None}]})]
    out.append(("null", None))
    return out


def invalid_literals(t):
    NonNull, List, Object, Interface, Union, Enum, Scalar, InputObject = _k()
    base = t
    while isinstance(base, (NonNull, List)):
        base = base.of_type
    out = []
    if isinstance(base, InputObject):
        out += ["{zz: 1}", "1", '"s"']
    elif isinstance(base, Enum):
        out += ["NOPE", '"X"', "1"]
    else:
        out += {"Int": ['"s"', "1.5", "true", "E"], "Float": ['"s"', "true"], "String": ["1", "true", "E"],
                "Boolean": ["1", '"true"'], "ID": ["1.5", "true"]}.get(base.name, ["{a: 1}"])
    if isinstance(t, NonNull):
        out.append("null")
    if isinstance(t, List) or (isinstance(t, NonNull) and isinstance(t.of_type, List)):
        out.append("[[1]]")
    return out


COND_DIRS = ["", "@skip(if: true)", "@skip(if: false)", "@include(if: false)", "@include(if: true)",
             "@skip(if: $sk)", "@include(if: $inc)", "@skip(if: false) @include(if: false)", "@include(if: true) @skip(if: true)"]


class DocGen:
    def __init__(self, c, schema, *, illtyped=False, maxdepth=3, maxsel=2, incremental=False, op="query", name="Q", free=(), lean=False):
        self.c = c
        self.schema = schema
        self.ill = illtyped
        self.maxdepth = maxdepth
        self.maxsel = maxsel
        self.incremental = incremental
        self.op = op
        self.name = name
        self.free = set(free)  # choice points that are plain product dimensions (cost 0) in this family
        self.lean = lean  # structure only: no aliases, no @skip/@include, default arguments
        self.vars = {}  # name -> type string
        self.var_inputs = {}  # name -> valid_inputs list
        self.frags = []  # (name, typename, body)
        self.K = _k()

    # -- helpers ---------------------------------------------------------
    def named(self, t):
        NonNull, List = self.K[0], self.K[1]
        while isinstance(t, (NonNull, List)):
            t = t.of_type
        return t

    def is_composite(self, t):
        return isinstance(t, (self.K[2], self.K[3], self.K[4]))

    def declare(self, name, typ):
        self.vars[name] = str(typ)
        self.var_inputs[name] = valid_inputs(typ)

    def cond_dirs(self, label):
        if self.lean:
            return ""
        d = self.c.pick(COND_DIRS, label)
        if "$sk" in d:
            self.declare("sk", self.K[0](self.schema.type_map["Boolean"]))
        if "$inc" in d:
            self.declare("inc", self.schema.type_map["Boolean"])
        return d

    def conditions(self, T):
        """Type conditions that overlap T (first: none)."""
        Object, Interface, Union = self.K[2], self.K[3], self.K[4]
        out = [None, T.name]
        if isinstance(T, Object):
            poss = [T]
        else:
            poss = list(self.schema.get_possible_types(T))
        for p in poss:
            if p.name not in out:
                out.append(p.name)
            for i in p.interfaces:
                if i.name not in out:
                    out.append(i.name)
        for u in self.schema.type_map.values():
            if isinstance(u, Union) and any(m in poss for m in u.types) and u.name not in out:
                out.append(u.name)
        if self.ill:
            for t in self.schema.type_map.values():
                if self.is_composite(t) and not t.name.startswith("__") and t.name not in out:
                    out.append(t.name)
                    break
            out.append("Int")
            out.append("Nope")
        return out

    # -- selections ------------------------------------------------------------
    def selset(self, T, d, label):
        n = 1 + self.c.choose(self.maxsel, label + ".n")
        return "{ " + " ".join(self.selection(T, d, f"{label}.{i}") for i in range(n)) + " }"

    def field_menu(self, T, d):
        Object, Interface = self.K[2], self.K[3]
        if isinstance(T, (Object, Interface)):
            names = list(T.fields)
        else:
            names = []
        if d >= self.maxdepth:
            names = [n for n in names if not self.is_composite(self.named(T.fields[n].type))]
        names.append("__typename")
        if self.ill:
            names.append("zz")
        return names

    def selection(self, T, d, label):
        kinds = ["field", "inline", "spread"] if d < self.maxdepth + 1 else ["field"]
        k = self.c.pick(kinds, label + ".kind", cost=0 if "kind" in self.free else 1)
        if k == "field":
            return self.field(T, d, label)
        conds = self.conditions(T)
        cond = self.c.pick(conds, label + ".cond")
        ct = self.schema.type_map.get(cond) if cond else T
        if ct is None or not self.is_composite(ct):
            ct = T
        dirs = self.cond_dirs(label + ".dirs")
        if self.incremental:
            dirs = (dirs + " " + self.c.pick(["", '@defer(label: "%s")' % label.replace(".", "_"), "@defer", "@defer(if: false)",
                                             "@defer(if: $df)"], label + ".defer", cost=0 if "incr" in self.free else 1)).strip()
            if "$df" in dirs:
                self.declare("df", self.K[0](self.schema.type_map["Boolean"]))
        if k == "inline":
            body = self.selset(ct, d + 1, label + ".body")
            return "... " + (f"on {cond} " if cond else "") + (dirs + " " if dirs else "") + body
        # named fragment: reuse or define
        usable = [f for f in self.frags if f[1] == (cond or T.name)]
        reuse = self.c.choose(len(usable) + 1, label + ".reuse") if usable else 0
        if reuse:
            name = usable[reuse - 1][0]
        else:
            name = f"F{len(self.frags)}"
            self.frags.append((name, cond or T.name, None))
            idx = len(self.frags) - 1
            body = self.selset(ct, d + 1, label + ".frag")
            self.frags[idx] = (name, cond or T.name, body)
        return f"...{name}" + (" " + dirs if dirs else "")

    def field(self, T, d, label):
        NonNull, List = self.K[0], self.K[1]
        names = self.field_menu(T, d)
        fname = self.c.pick(names, label + ".field", cost=0 if ("rootfield" in self.free and label == "root.0") else 1)
        alias = None if self.lean else self.c.pick([None, "x", "y"] + [n for n in names[:3] if n != fname], label + ".alias")
        out = (alias + ": " if alias else "") + fname
        fdef = getattr(T, "fields", {}).get(fname)
        if fdef is None:
            dirs = self.cond_dirs(label + ".dirs")
            return out + (" " + dirs if dirs else "")
        args = []
        for aname, a in fdef.args.items():
            required = isinstance(a.type, NonNull) and a.default is None
            menu = []
            vi = valid_inputs(a.type)
            if not required:
                menu.append(None)
            menu += [lit for lit, _v in vi]
            menu.append("$" + aname)
            base = a.type.of_type if isinstance(a.type, NonNull) else a.type
            if isinstance(base, List):
                menu.append("[$" + aname + "_item]")
                menu.append("[" + valid_inputs(base.of_type)[0][0] + ", $" + aname + "_item]")
            InputObject = self.K[7]
            obj_t = base
            while isinstance(obj_t, (List, NonNull)):
                obj_t = obj_t.of_type
            if isinstance(obj_t, InputObject) and obj_t.fields:
                # a variable inside an object literal - written directly, also where a list (of lists) of objects is expected
                f0 = next((n for n, f in obj_t.fields.items() if isinstance(f.type, NonNull)), next(iter(obj_t.fields)))
                menu.append("{" + f0 + ": $" + aname + "_" + f0 + "}")
                if obj_t is not base:
                    menu.append("[{" + f0 + ": $" + aname + "_" + f0 + "}]")
            Scalar = self.K[6]
            if isinstance(obj_t, Scalar) and obj_t.name not in ("Int", "Float", "String", "Boolean", "ID"):
                # custom scalar: variables embedded in untyped object / list literals
                menu.append("{a: $" + aname + "_any, b: [5]}")
                menu.append("[$" + aname + "_any, 1]")
            if self.ill:
                menu += invalid_literals(a.type)
                if required:
                    menu.append(None)
            ch = menu[0] if self.lean else self.c.pick(menu, f"{label}.arg.{aname}")
            if ch is None:
                continue
            if "$" in ch:
                import re as _re

                vname = _re.search(r"\$([_A-Za-z0-9]+)", ch).group(1)
                if vname == aname:
                    vt = a.type
                elif vname.endswith("_any"):
                    vt = self.schema.type_map["Int"]
                elif vname.endswith("_item"):
                    vt = base.of_type
                else:
                    vt = obj_t.fields[vname[len(aname) + 1:]].type
                # declared with the position's type, or - the near miss for VariablesInAllowedPosition - its nullable / non-null twin
                forms = ["exact"]
                if isinstance(vt, NonNull):
                    forms.append("nullable")
                else:
                    forms.append("nonnull")
                form = self.c.pick(forms, f"{label}.arg.{aname}.vartype", cost=0 if "var" in self.free else 1)
                if form == "nullable":
                    vt = vt.of_type
                elif form == "nonnull":
                    vt = NonNull(vt)
                self.declare(vname, vt)
            args.append(f"{aname}: {ch}")
        if self.ill and self.c.flag(label + ".unknownarg"):
            args.append("nope: 1")
        if args:
            out += "(" + ", ".join(args) + ")"
        dirs = self.cond_dirs(label + ".dirs")
        ft = fdef.type
        base = ft.of_type if isinstance(ft, NonNull) else ft
        if self.incremental and isinstance(base, List):
            st = self.c.pick(["", '@stream(label: "%s")' % label.replace(".", "_"), "@stream(initialCount: 1)",
                              '@stream(label: "%s", initialCount: 2)' % label.replace(".", "_"), "@stream(if: false)"], label + ".stream",
                             cost=0 if "incr" in self.free else 1)
            dirs = (dirs + " " + st).strip()
        if dirs:
            out += " " + dirs
        nt = self.named(ft)
        if self.is_composite(nt):
            if not (self.ill and self.c.flag(label + ".nosub")):
                out += " " + self.selset(nt, d + 1, label + ".sub")
        elif self.ill and self.c.flag(label + ".leafsub"):
            out += " { a }"
        return out

    # -- whole operation --------------------------------------------------------------
    def operation(self):
        root = {"query": self.schema.query_type, "mutation": self.schema.mutation_type,
                "subscription": self.schema.subscription_type}[self.op]
        body = self.selset(root, 0, "root")
        var_defs = []
        values = {}
        for name, ts in self.vars.items():
            inputs = self.var_inputs[name]
            non_null = ts.endswith("!")
            # declaration: exact type, or with a default
            vcost = 0 if "var" in self.free else 1
            decl = self.c.pick(["plain", "default"], f"var.{name}.decl", cost=vcost)
            text = f"${name}: {ts}"
            if decl == "default":
                text += " = " + inputs[0][0]
            var_defs.append(text)
            # runtime value
            opts = ["valid", "absent", "null", "valid2"]
            st = self.c.pick(opts, f"var.{name}.value", cost=vcost)
            if st == "valid":
                values[name] = inputs[0][1]
            elif st == "valid2":
                values[name] = inputs[min(1, len(inputs) - 1)][1]
            elif st == "null":
                values[name] = None
        head = self.op + " " + self.name + ("(" + ", ".join(var_defs) + ")" if var_defs else "")
        frs = " ".join(f"fragment {n} on {t} {b}" for n, t, b in self.frags)
        return (head + " " + body + (" " + frs if frs else "")), values
