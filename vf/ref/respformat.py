"""Response-format checker (spec section 7.1): shape of data / errors of an ExecutionResult."""

from __future__ import annotations

import json


def check_error_dict(e, problems, where="errors"):
    if not isinstance(e, dict):
        problems.append(f"{where}: entry is {type(e).__name__}, not a map")
        return
    if not isinstance(e.get("message"), str):
        problems.append(f"{where}: message is {type(e.get('message')).__name__}")
    for k in e:
        if k not in ("message", "locations", "path", "extensions"):
            problems.append(f"{where}: unexpected key {k!r}")
    if "locations" in e:
        locs = e["locations"]
        if not isinstance(locs, list) or not locs:
            problems.append(f"{where}: locations {locs!r}")
        else:
            for l in locs:
                if (not isinstance(l, dict) or set(l) != {"line", "column"} or type(l["line"]) is not int
                        or type(l["column"]) is not int or l["line"] < 1 or l["column"] < 1):
                    problems.append(f"{where}: location {l!r}")
    if "path" in e:
        p = e["path"]
        if not isinstance(p, list) or not p or any(type(s) not in (str, int) for s in p):
            problems.append(f"{where}: path {p!r}")
    if "extensions" in e and not isinstance(e["extensions"], dict):
        problems.append(f"{where}: extensions is {type(e['extensions']).__name__}, not a map")


def check_result(result, request_error=False):
    """Problems (list of str) with an ExecutionResult; empty list = well formed."""
    problems = []
    try:
        f = result.formatted
    except Exception as x:  # noqa: BLE001
        return [f".formatted raised {type(x).__name__}: {x}"]
    if not isinstance(f, dict):
        return [f".formatted is {type(f).__name__}"]
    for k in f:
        if k not in ("data", "errors", "extensions"):
            problems.append(f"unexpected top-level key {k!r}")
    errors = f.get("errors")
    if "errors" in f:
        if not isinstance(errors, list) or not errors:
            problems.append(f"errors present but {errors!r}")
            errors = []
        for i, e in enumerate(errors):
            check_error_dict(e, problems, f"errors[{i}]")
    if "data" in f:
        d = f["data"]
        if d is not None and not isinstance(d, dict):
            problems.append(f"data is {type(d).__name__}")
        if d is None and not errors:
            problems.append("data is null but there are no errors")
    elif not errors:
        problems.append("neither data nor errors")
    for e in result.errors or []:
        try:
            s = str(e)
            if not isinstance(s, str):
                problems.append("str(error) not a str")
        except Exception as x:  # noqa: BLE001
            problems.append(f"str(error) raised {type(x).__name__}: {x}")
    try:
        json.dumps(f, allow_nan=False)
    except Exception as x:  # noqa: BLE001
        problems.append(f"formatted result is not JSON-representable: {type(x).__name__}: {x}")
    # every error path points at or below a null in data
    d = f.get("data")
    for i, e in enumerate(errors or []):
        p = e.get("path") if isinstance(e, dict) else None
        if not isinstance(p, list) or "data" not in f:
            continue
        cur = d
        ok = False
        for seg in p:
            if cur is None:
                ok = True
                break
            try:
                cur = cur[seg]
            except (KeyError, IndexError, TypeError):
                ok = None
                break
        else:
            ok = cur is None
        if ok is None:
            problems.append(f"errors[{i}].path {p!r} does not exist in data")
        elif not ok:
            problems.append(f"errors[{i}].path {p!r} ends at a non-null value")
    return problems
