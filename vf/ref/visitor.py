"""Reference visitor: a plain recursive implementation of the documented
enter / leave / SKIP / BREAK / REMOVE / replace contract of language.visit.

decide(phase, node, path) -> action, where path is the key path of the node
(positions are those of the original tree; edits never renumber them).
Returns (outcome, log): outcome = ('break',) | ('keep', node) | ('remove',) |
('replace', value);  log = [(phase, kind, key, path, n_ancestors, parent_kind)].
"""

from __future__ import annotations

import dataclasses

from . import astshape


class _Break(Exception):
    pass


def default_children(node):
    return astshape.children(node)


def keyed_children(keymap):
    def fn(node):
        out = []
        for f in keymap.get(node.kind, ()):
            v = getattr(node, f, None)
            if v is None:
                continue
            out.append((f, v))
        return out

    return fn


def parent_kind(p):
    if p is None:
        return None
    if isinstance(p, tuple):
        return "list"
    return p.kind


def ref_visit(root, decide, actions, children=default_children, phases=("enter", "leave")):
    """actions: object with SKIP, BREAK, REMOVE sentinels (taken from the implementation's
    public constants - they are values of the API, not logic)."""
    SKIP, BREAK, REMOVE = actions
    log = []
    counter = [0]

    def call(phase, node, key, parent, path, ancestors, idx):
        if phase not in phases:
            return None
        log.append((phase, node.kind, key, tuple(path), len(ancestors), parent_kind(parent)))
        return decide(phase, node, tuple(path))

    def walk(node, key, parent, path, ancestors):
        idx = counter[0]
        counter[0] += 1
        act = call("enter", node, key, parent, path, ancestors, idx)
        if act is BREAK or act is True:
            raise _Break
        if act is SKIP or act is False:
            return ("keep", node)
        if act is REMOVE or act is Ellipsis:
            return ("remove",)
        replaced = False
        if act is not None:
            if astshape.is_node(act):
                node = act
                replaced = True
            else:
                return ("replace", act)
        below = ancestors + ([parent] if parent is not None else [])
        new_vals = {}
        for fname, v in children(node):
            if isinstance(v, tuple):
                items = []
                changed = False
                for i, ch in enumerate(v):
                    if not astshape.is_node(ch):
                        raise TypeError("non-node in list")
                    r = walk(ch, i, v, path + [fname, i], below + [node])
                    if r[0] == "keep":
                        items.append(r[1])
                        changed = changed or (r[1] is not ch)
                    elif r[0] == "remove":
                        changed = True
                    else:
                        items.append(r[1])
                        changed = True
                if changed:
                    new_vals[fname] = tuple(items)
            else:
                r = walk(v, fname, node, path + [fname], below)
                if r[0] == "keep":
                    if r[1] is not v:
                        new_vals[fname] = r[1]
                elif r[0] == "remove":
                    new_vals[fname] = None
                else:
                    new_vals[fname] = r[1]
        if new_vals:
            vals = {f.name: getattr(node, f.name) for f in dataclasses.fields(node)}
            vals.update(new_vals)
            node = node.__class__(**vals)
            replaced = True
        act = call("leave", node, key, parent, path, ancestors, idx)
        if act is BREAK or act is True:
            raise _Break
        if act is REMOVE or act is Ellipsis:
            return ("remove",)
        if act is not None and act is not SKIP and act is not False:
            return ("replace", act)
        return ("keep", node)

    try:
        r = walk(root, None, None, [], [])
    except _Break:
        return ("break",), log
    return r, log
