"""Reference for source locations (spec 2.2 LineTerminator: LF | CR LF | CR).

line   = 1 + number of line terminators that end at or before the offset
column = 1 + distance from the end of the last such terminator
For an offset strictly inside a CR LF pair that terminator is not yet complete
and therefore not counted: the offset is the last column of its line (no token
can start there, but callers may ask for any offset).
"""


def terminators(body):
    """[(start, end)] of every line terminator in body."""
    out = []
    i, n = 0, len(body)
    while i < n:
        c = body[i]
        if c == "\n":
            out.append((i, i + 1))
            i += 1
        elif c == "\r":
            if i + 1 < n and body[i + 1] == "\n":
                out.append((i, i + 2))
                i += 2
            else:
                out.append((i, i + 1))
                i += 1
        else:
            i += 1
    return out


def location(body, offset):
    line, start = 1, 0
    for s, e in terminators(body):
        if e <= offset:
            line += 1
            start = e
        else:
            break
    return (line, offset - start + 1)


def lines(body):
    out, start = [], 0
    for s, e in terminators(body):
        out.append(body[start:s])
        start = e
    out.append(body[start:])
    return out
