"""Reference for the incremental delivery format: applies pending / incremental /
completed payloads to the initial payload (merge) and monitors the delivery
protocol while doing so (a small state machine over the payload sequence).

Written from the incremental-delivery RFC text (response format with
``pending`` / ``incremental`` / ``completed`` / ``hasNext``, ``id`` + ``subPath``
addressing).  Works on formatted (JSON-like) payloads only.
"""

from __future__ import annotations

import copy


class ProtocolViolation(Exception):
    def __init__(self, signature, detail):
        super().__init__(f"{signature}: {detail}")
        self.signature = signature
        self.detail = detail


def _get(data, path, what):
    cur = data
    for k in path:
        if cur is None:
            raise ProtocolViolation("target_path_through_null", f"{what}: path {path} goes through null")
        try:
            cur = cur[k]
        except (KeyError, IndexError, TypeError):
            raise ProtocolViolation("target_path_missing", f"{what}: path {path} does not exist in the data assembled so far") from None
    return cur


def _deep_merge(a, b, path):
    for k, v in b.items():
        if k in a and isinstance(a[k], dict) and isinstance(v, dict):
            _deep_merge(a[k], v, path + [k])
        elif k in a and isinstance(a[k], list) and isinstance(v, list):
            if len(a[k]) != len(v):
                raise ProtocolViolation("merge_conflict", f"list length conflict at {path + [k]}")
            for i, (x, y) in enumerate(zip(a[k], v)):
                if isinstance(x, dict) and isinstance(y, dict):
                    _deep_merge(x, y, path + [k, i])
                elif x != y:
                    raise ProtocolViolation("merge_conflict", f"conflicting values at {path + [k, i]}: {x!r} vs {y!r}")
        elif k in a:
            if a[k] != v:
                raise ProtocolViolation("merge_conflict", f"conflicting values at {path + [k]}: {a[k]!r} vs {v!r}")
        else:
            a[k] = copy.deepcopy(v)


INITIAL_KEYS = {"data", "errors", "pending", "hasNext", "extensions"}
SUBSEQUENT_KEYS = {"pending", "incremental", "completed", "hasNext", "extensions"}


class Merged:
    __slots__ = ("data", "errors", "completed", "announced", "payloads", "failed_ids")

    def __init__(self):
        self.data = None
        self.errors = []
        self.completed = {}  # id -> (pending entry, errors or None)
        self.announced = []  # pending entries in announcement order
        self.payloads = 0
        self.failed_ids = []


def apply_payloads(payloads, enclosing=None):
    """payloads: formatted initial payload followed by the subsequent ones (a single plain
    response is a list of one payload without hasNext).  enclosing: {label: label of the
    syntactically enclosing deferred fragment} for the nesting rule.  Returns Merged."""
    enclosing = enclosing or {}
    m = Merged()
    pending = {}
    ever = set()
    if not payloads:
        raise ProtocolViolation("no_payload", "no payload at all")
    for i, p in enumerate(payloads):
        last = i == len(payloads) - 1
        m.payloads += 1
        if not isinstance(p, dict):
            raise ProtocolViolation("payload_shape", f"payload {i} is {type(p).__name__}")
        if i == 0:
            extra = set(p) - INITIAL_KEYS
            if extra:
                raise ProtocolViolation("payload_shape", f"initial payload has keys {sorted(extra)}")
            m.data = copy.deepcopy(p.get("data"))
            m.errors += p.get("errors", [])
            if "hasNext" not in p:
                if len(payloads) != 1:
                    raise ProtocolViolation("hasnext", "initial payload without hasNext followed by more payloads")
                if "pending" in p:
                    raise ProtocolViolation("hasnext", "pending announced in a response without hasNext")
                return m
        else:
            extra = set(p) - SUBSEQUENT_KEYS
            if extra:
                raise ProtocolViolation("payload_shape", f"subsequent payload {i} has keys {sorted(extra)}")
        if p.get("hasNext") is not (not last):
            raise ProtocolViolation("hasnext", f"payload {i} of {len(payloads)} has hasNext={p.get('hasNext')!r}")
        completed_now = {c.get("id") for c in p.get("completed", [])}
        for pe in p.get("pending", []):
            if not isinstance(pe, dict) or "id" not in pe or "path" not in pe or not isinstance(pe["id"], str):
                raise ProtocolViolation("pending_shape", f"payload {i}: {pe!r}")
            if pe["id"] in ever:
                raise ProtocolViolation("id_reused", f"payload {i}: id {pe['id']} announced again")
            ever.add(pe["id"])
            pending[pe["id"]] = pe
            m.announced.append(pe)
        for pe in p.get("pending", []):
            # the announced path must exist in the data assembled so far (or in this payload's increments)
            par = enclosing.get(pe.get("label"))
            if par is not None:
                for q in pending.values():
                    if q is not pe and q.get("label") == par and q["id"] not in completed_now and q["path"] == pe["path"][: len(q["path"])]:
                        raise ProtocolViolation("nested_announced_while_parent_pending",
                                                f"payload {i}: {pe.get('label')!r} announced while enclosing {par!r} (id {q['id']}) is still pending")
        for inc in p.get("incremental", []):
            if not isinstance(inc, dict) or "id" not in inc or (("items" in inc) == ("data" in inc)):
                raise ProtocolViolation("incremental_shape", f"payload {i}: {inc!r}")
            extra = set(inc) - {"id", "items", "data", "subPath", "errors", "extensions"}
            if extra:
                raise ProtocolViolation("incremental_shape", f"payload {i}: keys {sorted(extra)}")
            if inc["id"] not in pending:
                raise ProtocolViolation("incremental_for_non_pending_id", f"payload {i}: id {inc['id']} is not pending (ever announced: {inc['id'] in ever})")
            base = list(pending[inc["id"]]["path"]) + list(inc.get("subPath", []))
            tgt = _get(m.data, base, f"payload {i} incremental id {inc['id']}")
            if "items" in inc:
                if not isinstance(tgt, list):
                    raise ProtocolViolation("stream_target_not_list", f"payload {i}: {base}")
                if inc.get("subPath"):
                    raise ProtocolViolation("incremental_shape", f"payload {i}: stream entry with subPath")
                if not isinstance(inc["items"], list):
                    raise ProtocolViolation("incremental_shape", f"payload {i}: items {inc['items']!r}")
                tgt.extend(copy.deepcopy(inc["items"]))
            else:
                if not isinstance(tgt, dict):
                    raise ProtocolViolation("defer_target_not_object", f"payload {i}: {base} is {type(tgt).__name__}")
                if not isinstance(inc["data"], dict):
                    raise ProtocolViolation("incremental_shape", f"payload {i}: data {inc['data']!r}")
                _deep_merge(tgt, inc["data"], base)
            m.errors += inc.get("errors", [])
        for c in p.get("completed", []):
            if not isinstance(c, dict) or "id" not in c or set(c) - {"id", "errors"}:
                raise ProtocolViolation("completed_shape", f"payload {i}: {c!r}")
            if c["id"] not in pending:
                raise ProtocolViolation("completed_non_pending_id", f"payload {i}: id {c['id']} (ever announced: {c['id'] in ever})")
            if "errors" in c and not c["errors"]:
                raise ProtocolViolation("completed_shape", f"payload {i}: empty errors list on completed {c['id']}")
            m.completed[c["id"]] = (pending.pop(c["id"]), c.get("errors"))
            if c.get("errors"):
                m.failed_ids.append(c["id"])
                m.errors += c["errors"]
        if i > 0 and not (p.get("pending") or p.get("incremental") or p.get("completed")) and not last:
            raise ProtocolViolation("empty_payload", f"payload {i} carries nothing")
    if pending:
        raise ProtocolViolation("ids_never_completed", f"{sorted(pending)} still pending after the last payload")
    return m


def refines(m, r, path, withheld_paths):
    """m is the non-propagating reference r with some subtrees replaced by null and some whole
    deferred fragments / stream tails withheld (only at or below a path in withheld_paths)."""
    if m is None:
        return None
    def may_withhold():
        return any(list(fp) == path[: len(fp)] for fp in withheld_paths)
    if isinstance(r, dict):
        if not isinstance(m, dict):
            return f"{path}: {type(m).__name__} where the reference has an object"
        for k in m:
            if k not in r:
                return f"{path}: key {k!r} not in the reference"
        if len(m) != len(r) and not may_withhold():
            return f"{path}: keys {sorted(set(r) - set(m))} missing and no deferred fragment at or above failed"
        for k in m:
            why = refines(m[k], r[k], path + [k], withheld_paths)
            if why:
                return why
        return None
    if isinstance(r, list):
        if not isinstance(m, list):
            return f"{path}: {type(m).__name__} where the reference has a list"
        if len(m) > len(r):
            return f"{path}: list longer than the reference"
        if len(m) < len(r) and not may_withhold():
            return f"{path}: list shorter than the reference ({len(m)} < {len(r)}) and no stream at or above failed"
        for i, (a, b) in enumerate(zip(m, r)):
            why = refines(a, b, path + [i], withheld_paths)
            if why:
                return why
        return None
    if m != r:
        return f"{path}: {m!r} != {r!r}"
    return None
