"""Reference tokenizer written from the lexical grammar of the specification
(October 2021 + the \\u{...} / surrogate-pair escapes of the 2023 draft).

``tokens(s)`` returns ``[(kind, start, end, value)]`` (without SOF/EOF) or
``None`` if the source does not lex.  Shares no code with graphql.language.
"""

from __future__ import annotations

import re

PUNCT = {
    "!": "BANG", "$": "DOLLAR", "&": "AMP", "(": "PAREN_L", ")": "PAREN_R",
    ":": "COLON", "=": "EQUALS", "@": "AT", "[": "BRACKET_L", "]": "BRACKET_R",
    "{": "BRACE_L", "|": "PIPE", "}": "BRACE_R",
}
RE_NAME = re.compile(r"[_A-Za-z][_0-9A-Za-z]*")
_INT = r"-?(?:0|[1-9][0-9]*)"
RE_FLOAT = re.compile(_INT + r"(?:\.[0-9]+(?:[eE][+-]?[0-9]+)?|[eE][+-]?[0-9]+)")
RE_INT = re.compile(_INT)
ESC = {'"': '"', "\\": "\\", "/": "/", "b": "\b", "f": "\f", "n": "\n", "r": "\r", "t": "\t"}
HEX = set("0123456789abcdefABCDEF")
_NAME_CONT = set("_0123456789abcdefghijklmnopqrstuvwxyzABCDEFGHIJKLMNOPQRSTUVWXYZ")
RE_LINES = re.compile(r"\r\n|[\n\r]")


def _src_char(s, i):
    """Length of the SourceCharacter at i: 1, 2 for a surrogate pair, 0 if none."""
    c = s[i]
    if not ("\ud800" <= c <= "\udfff"):
        return 1
    if c <= "\udbff" and i + 1 < len(s) and "\udc00" <= s[i + 1] <= "\udfff":
        return 2
    return 0


def block_string_value(raw):
    """BlockStringValue(rawValue) of the specification."""
    lines = RE_LINES.split(raw)
    common = None
    for ln in lines[1:]:
        indent = len(ln) - len(ln.lstrip(" \t"))
        if indent < len(ln) and (common is None or indent < common):
            common = indent
    if common:
        lines = [lines[0]] + [ln[common:] for ln in lines[1:]]
    while lines and not lines[0].strip(" \t"):
        lines.pop(0)
    while lines and not lines[-1].strip(" \t"):
        lines.pop()
    return "\n".join(lines)


def _string(s, i):
    if s.startswith('"""', i):
        j = i + 3
        raw = []
        while True:
            if j >= len(s):
                return None
            if s.startswith('"""', j):
                break
            if s.startswith('\\"""', j):
                raw.append('"""')
                j += 4
                continue
            n = _src_char(s, j)
            if not n:
                return None
            raw.append(s[j : j + n])
            j += n
        return j + 3, block_string_value("".join(raw)), "BLOCK_STRING"
    j = i + 1
    out = []
    while True:
        if j >= len(s):
            return None
        c = s[j]
        if c == '"':
            return j + 1, "".join(out), "STRING"
        if c in "\n\r":
            return None
        if c == "\\":
            if j + 1 >= len(s):
                return None
            d = s[j + 1]
            if d == "u":
                if s.startswith("{", j + 2):
                    k = s.find("}", j + 3)
                    if k < 0:
                        return None
                    h = s[j + 3 : k]
                    if not h or any(x not in HEX for x in h):
                        return None
                    if len(h) > 8:
                        return None
                    v = int(h, 16)
                    if v > 0x10FFFF or 0xD800 <= v <= 0xDFFF:
                        return None
                    out.append(chr(v))
                    j = k + 1
                    continue
                h = s[j + 2 : j + 6]
                if len(h) < 4 or any(x not in HEX for x in h):
                    return None
                v = int(h, 16)
                if 0xD800 <= v <= 0xDBFF:
                    h2 = s[j + 8 : j + 12]
                    if (
                        s[j + 6 : j + 8] == "\\u"
                        and len(h2) == 4
                        and all(x in HEX for x in h2)
                        and 0xDC00 <= int(h2, 16) <= 0xDFFF
                    ):
                        out.append(chr(0x10000 + ((v - 0xD800) << 10) + (int(h2, 16) - 0xDC00)))
                        j += 12
                        continue
                    return None
                if 0xDC00 <= v <= 0xDFFF:
                    return None
                out.append(chr(v))
                j += 6
                continue
            if d in ESC:
                out.append(ESC[d])
                j += 2
                continue
            return None
        n = _src_char(s, j)
        if not n:
            return None
        out.append(s[j : j + n])
        j += n


def tokens(s):
    toks = []
    i = 0
    n = len(s)
    while i < n:
        c = s[i]
        if c in "\ufeff\t ,\n":
            i += 1
            continue
        if c == "\r":
            i += 2 if s.startswith("\r\n", i) else 1
            continue
        if c == "#":
            j = i + 1
            while j < n and s[j] not in "\n\r":
                k = _src_char(s, j)
                if not k:
                    return None  # not a SourceCharacter: the source text is invalid
                j += k
            i = j
            continue
        if s.startswith("...", i):
            toks.append(("SPREAD", i, i + 3, None))
            i += 3
            continue
        if c in PUNCT:
            toks.append((PUNCT[c], i, i + 1, None))
            i += 1
            continue
        m = RE_NAME.match(s, i)
        if m:
            toks.append(("NAME", i, m.end(), m.group()))
            i = m.end()
            continue
        if c == "-" or "0" <= c <= "9":
            m = RE_FLOAT.match(s, i)
            kind = "FLOAT"
            if not m:
                m = RE_INT.match(s, i)
                kind = "INT"
            if not m:
                return None
            e = m.end()
            # lookahead restriction: not followed by Digit, '.', NameStart
            if e < n and (s[e] == "." or s[e] in _NAME_CONT):
                return None
            toks.append((kind, i, e, m.group()))
            i = e
            continue
        if c == '"':
            r = _string(s, i)
            if r is None:
                return None
            e, v, k = r
            toks.append((k, i, e, v))
            i = e
            continue
        return None
    return toks


def is_ignored_only(s):
    """True iff s consists only of Ignored tokens (and is itself valid source text)."""
    t = tokens(s)
    return t is not None and not t
