"""Reference checker of the GraphQL specification's type-system validation rules
(spec section 3 "Type System": the "Type Validation" sub-sections of Schema, Objects,
Interfaces, Unions, Enums, Input Objects, Directives, plus "Reserved Names").

Used by C20.  It reads a GraphQLSchema and its type objects *as data* (kind tests via
isinstance, ``.fields``, ``.args``, ``.interfaces``, ``.types``, ``.values``,
``.of_type``, ``.default``) and shares no logic with graphql/type/validate.py,
utilities/type_comparators.py or utilities/validate_input_value.py: sub-typing,
type equality, default-value validation and both cycle detectors are written here
from the specification's algorithms.

``violations(schema)`` returns a list of ``(rule_class, where)`` tuples, one per broken
rule instance; ``classes(schema)`` the sorted distinct rule classes.  C20 only uses
"empty vs non-empty".

Rule classes
    root.query_missing root.not_object root.duplicate
    name.type name.field name.arg name.enum_value name.input_field name.directive name.directive_arg
    empty.object empty.interface empty.union empty.enum empty.input
    pos.field_not_output pos.arg_not_input pos.input_field_not_input pos.directive_arg_not_input
    impl.not_interface impl.self impl.duplicate impl.transitive_missing impl.field_missing
    impl.field_type impl.arg_missing impl.arg_type impl.extra_required_arg impl.deprecated
    union.not_object union.duplicate
    dep.required_arg dep.required_input_field dep.required_directive_arg
    default.arg default.input_field default.directive_arg
    cycle.nonnull cycle.default
    oneof.nonnull oneof.default
    directive.no_locations

Scope notes
* names are only checked for the reserved ``__`` prefix (the constructors refuse
  everything that is not a Name, and ``true/false/null`` enum values);
* a default value is judged only when the declared type is an input type (otherwise
  the position rule is already broken), and a value supplied for an input field whose
  own type is not an input type is not judged either;
* custom scalars accept every const literal / value;
* the rule "a directive definition must not reference itself" is not part of C20.
"""

from __future__ import annotations

import math

INTROSPECTION_TYPES = frozenset(
    ["__Schema", "__Directive", "__DirectiveLocation", "__Type", "__Field", "__InputValue", "__EnumValue",
     "__TypeKind"]
)
BUILTIN_SCALARS = frozenset(["Int", "Float", "String", "Boolean", "ID"])
INT_MIN, INT_MAX = -(2 ** 31), 2 ** 31 - 1


class _K:
    """Kind tests (lazy import: workers fork before graphql is loaded)."""

    def __init__(self):
        from graphql.pyutils import Undefined
        from graphql.type import (GraphQLEnumType, GraphQLInputObjectType, GraphQLInterfaceType, GraphQLList,
                                  GraphQLNonNull, GraphQLObjectType, GraphQLScalarType, GraphQLUnionType)

        self.Undefined = Undefined
        self.NonNull, self.List = GraphQLNonNull, GraphQLList
        self.Object, self.Interface, self.Union = GraphQLObjectType, GraphQLInterfaceType, GraphQLUnionType
        self.Enum, self.Input, self.Scalar = GraphQLEnumType, GraphQLInputObjectType, GraphQLScalarType

    def named(self, t):
        while isinstance(t, (self.NonNull, self.List)):
            t = t.of_type
        return t

    def is_input(self, t):
        return isinstance(self.named(t), (self.Scalar, self.Enum, self.Input))

    def is_output(self, t):
        return isinstance(self.named(t), (self.Scalar, self.Object, self.Interface, self.Union, self.Enum))

    def has_default(self, holder):
        return getattr(holder, "default", None) is not None or getattr(holder, "default_value",
                                                                       self.Undefined) is not self.Undefined

    def required(self, holder):
        return isinstance(holder.type, self.NonNull) and not self.has_default(holder)


_k = None


def K():
    global _k
    if _k is None:
        _k = _K()
    return _k


# --- types -----------------------------------------------------------------------


def same_type(a, b):
    """Spec: "the same type" (invariant)."""
    k = K()
    if isinstance(a, k.NonNull) or isinstance(b, k.NonNull):
        return isinstance(a, k.NonNull) and isinstance(b, k.NonNull) and same_type(a.of_type, b.of_type)
    if isinstance(a, k.List) or isinstance(b, k.List):
        return isinstance(a, k.List) and isinstance(b, k.List) and same_type(a.of_type, b.of_type)
    return a is b


def is_sub_type(t, sup):
    """Spec IsSubType(possibleSubType, superType)."""
    k = K()
    if t is sup:
        return True
    if isinstance(t, k.Object) and isinstance(sup, k.Union):
        return any(m is t for m in sup.types)
    if isinstance(t, (k.Object, k.Interface)) and isinstance(sup, k.Interface):
        return any(i is sup for i in t.interfaces)
    return False


def valid_implementation_field_type(ft, it):
    """Spec IsValidImplementationFieldType(fieldType, implementedFieldType)."""
    k = K()
    if isinstance(ft, k.NonNull):
        inner = it.of_type if isinstance(it, k.NonNull) else it
        return valid_implementation_field_type(ft.of_type, inner)
    if isinstance(ft, k.List) and isinstance(it, k.List):
        return valid_implementation_field_type(ft.of_type, it.of_type)
    if isinstance(ft, (k.List, k.NonNull)) or isinstance(it, (k.List, k.NonNull)):
        return False
    return is_sub_type(ft, it)


# --- default values ------------------------------------------------------------------


def _builtin_literal_ok(name, node):
    kind = node.kind
    if name == "Int":
        return kind == "int_value" and INT_MIN <= int(node.value) <= INT_MAX
    if name == "Float":
        return kind in ("int_value", "float_value") and math.isfinite(float(node.value))
    if name == "String":
        return kind == "string_value"
    if name == "Boolean":
        return kind == "boolean_value"
    if name == "ID":
        return kind in ("string_value", "int_value")
    raise AssertionError(name)


def literal_ok(node, t):
    """Is the const literal a valid input for type t (spec 3.x "Input Coercion" rules for literals)?"""
    k = K()
    if not k.is_input(t):
        return True  # not judged
    kind = node.kind
    if isinstance(t, k.NonNull):
        return kind != "null_value" and literal_ok(node, t.of_type)
    if kind == "null_value":
        return True
    if kind == "variable":
        return False  # not a const value
    if isinstance(t, k.List):
        if kind == "list_value":
            return all(literal_ok(item, t.of_type) for item in node.values)
        return literal_ok(node, t.of_type)
    if isinstance(t, k.Input):
        if kind != "object_value":
            return False
        given = {}
        for f in node.fields:
            if f.name.value in given:
                return False  # input object field uniqueness
            given[f.name.value] = f.value
        for name in given:
            if name not in t.fields:
                return False
        for name, f in t.fields.items():
            if name in given:
                if not literal_ok(given[name], f.type):
                    return False
            elif k.required(f):
                return False
        if t.is_one_of:
            if len(given) != 1 or next(iter(given.values())).kind == "null_value":
                return False
        return True
    if isinstance(t, k.Enum):
        return kind == "enum_value" and node.value in t.values
    if t.name in BUILTIN_SCALARS:
        return _builtin_literal_ok(t.name, node)
    return True


def _builtin_value_ok(name, v):
    if name == "Int":  # external values are JSON-like: 1.0 is the integer 1
        if type(v) is float and math.isfinite(v) and v == int(v):
            v = int(v)
        return type(v) is int and INT_MIN <= v <= INT_MAX
    if name == "Float":
        return type(v) in (int, float) and math.isfinite(v)
    if name == "String":
        return type(v) is str
    if name == "Boolean":
        return type(v) is bool
    if name == "ID":
        return type(v) in (str, int)
    raise AssertionError(name)


def value_ok(v, t):
    """Is the external (JSON-like: None/bool/int/float/str/list/dict) value valid for type t?"""
    k = K()
    if not k.is_input(t):
        return True
    if isinstance(t, k.NonNull):
        return v is not None and value_ok(v, t.of_type)
    if v is None:
        return True
    if isinstance(t, k.List):
        if isinstance(v, (list, tuple)):
            return all(value_ok(x, t.of_type) for x in v)
        return value_ok(v, t.of_type)
    if isinstance(t, k.Input):
        if not isinstance(v, dict):
            return False
        for name in v:
            if name not in t.fields:
                return False
        for name, f in t.fields.items():
            if name in v:
                if not value_ok(v[name], f.type):
                    return False
            elif k.required(f):
                return False
        if t.is_one_of:
            if len(v) != 1 or next(iter(v.values())) is None:
                return False
        return True
    if isinstance(t, k.Enum):
        return type(v) is str and v in t.values
    if t.name in BUILTIN_SCALARS:
        return _builtin_value_ok(t.name, v)
    return True


def default_ok(holder):
    """The declared default (GraphQLDefaultInput: literal or external value) fits the declared type."""
    d = getattr(holder, "default", None)
    if d is None:
        return True
    if d.literal is not None:
        return literal_ok(d.literal, holder.type)
    return value_ok(d.value, holder.type)


# --- input object cycles ----------------------------------------------------------------


def nonnull_cycle_members(input_types):
    """Names of input objects lying on a cycle of non-null (non-list) input object references."""
    k = K()
    edges = {}
    for t in input_types:
        out = []
        for f in t.fields.values():
            ft = f.type
            if isinstance(ft, k.NonNull) and isinstance(ft.of_type, k.Input):
                out.append(ft.of_type.name)
        edges[t.name] = out
    on_cycle = set()
    for start in edges:
        # is start reachable from itself?
        seen, todo = set(), list(edges[start])
        while todo:
            n = todo.pop()
            if n == start:
                on_cycle.add(start)
                break
            if n in seen:
                continue
            seen.add(n)
            todo.extend(edges.get(n, ()))
    return on_cycle


class _Budget:
    def __init__(self, n):
        self.n = n

    def tick(self):
        self.n -= 1
        if self.n < 0:
            raise RuntimeError("schemarules: default-value cycle search exceeded its budget")


def _default_of(field):
    """(exists, form, payload) of an input field's default."""
    d = getattr(field, "default", None)
    if d is None:
        return None
    if d.literal is not None:
        return ("lit", d.literal)
    return ("val", d.value)


def _dv_object_has_cycle(obj, value, visited, budget):
    """Spec InputObjectDefaultValueHasCycle(inputObject, defaultValue, visitedFields)."""
    budget.tick()
    form, v = value
    if form == "lit":
        if v.kind == "list_value":
            return any(_dv_object_has_cycle(obj, ("lit", item), visited, budget) for item in v.values)
        if v.kind != "object_value":
            return False
        given = {f.name.value: ("lit", f.value) for f in v.fields}
    else:
        if isinstance(v, (list, tuple)):
            return any(_dv_object_has_cycle(obj, ("val", item), visited, budget) for item in v)
        if not isinstance(v, dict):
            return False
        given = {name: ("val", x) for name, x in v.items()}
    for name, field in obj.fields.items():
        if _dv_field_has_cycle(obj, name, field, given, visited, budget):
            return True
    return False


def _dv_field_has_cycle(obj, name, field, given, visited, budget):
    """Spec InputFieldDefaultValueHasCycle(field, defaultValue, visitedFields)."""
    k = K()
    named = k.named(field.type)
    if not isinstance(named, k.Input):
        return False
    if name in given:
        return _dv_object_has_cycle(named, given[name], visited, budget)
    d = _default_of(field)
    if d is None:
        return False
    key = (obj.name, name)
    if key in visited:
        return True
    return _dv_object_has_cycle(named, d, visited | {key}, budget)


def default_cycle_types(input_types):
    out = set()
    for t in input_types:
        # "let defaultValue be an empty unordered map": every field's own default applies
        if _dv_object_has_cycle(t, ("val", {}), frozenset(), _Budget(200000)):
            out.add(t.name)
    return out


# --- the rules -----------------------------------------------------------------------------


def violations(schema):
    k = K()
    out = []
    add = lambda cls, where: out.append((cls, where))  # noqa: E731

    # Schema: root operation types
    roots = [("query", schema.query_type), ("mutation", schema.mutation_type),
             ("subscription", schema.subscription_type)]
    if roots[0][1] is None:
        add("root.query_missing", "schema")
    objs = []
    for op, t in roots:
        if t is None:
            continue
        if isinstance(t, k.Object):
            objs.append((op, t))
        else:
            add("root.not_object", op)
    for i, (op, t) in enumerate(objs):
        for op2, t2 in objs[i + 1:]:
            if t is t2:
                add("root.duplicate", f"{op}={op2}")

    # Directives
    for d in schema.directives:
        if d.name.startswith("__"):
            add("name.directive", d.name)
        if not d.locations:
            add("directive.no_locations", d.name)
        for an, a in d.args.items():
            where = f"@{d.name}({an}:)"
            if an.startswith("__"):
                add("name.directive_arg", where)
            if not k.is_input(a.type):
                add("pos.directive_arg_not_input", where)
            elif not default_ok(a):
                add("default.directive_arg", where)
            if k.required(a) and a.deprecation_reason is not None:
                add("dep.required_directive_arg", where)

    # Types
    inputs = []
    for name, t in schema.type_map.items():
        if name.startswith("__") and name not in INTROSPECTION_TYPES:
            add("name.type", name)
        if isinstance(t, (k.Object, k.Interface)):
            _fields(t, add)
            _interfaces(t, add)
        elif isinstance(t, k.Union):
            if not t.types:
                add("empty.union", name)
            seen = []
            for m in t.types:
                if not isinstance(m, k.Object):
                    add("union.not_object", f"{name}:{getattr(m, 'name', m)}")
                elif any(m is s for s in seen):
                    add("union.duplicate", f"{name}:{m.name}")
                else:
                    seen.append(m)
        elif isinstance(t, k.Enum):
            if not t.values:
                add("empty.enum", name)
            for vn in t.values:
                if vn.startswith("__"):
                    add("name.enum_value", f"{name}.{vn}")
        elif isinstance(t, k.Input):
            inputs.append(t)
            if not t.fields:
                add("empty.input", name)
            for fn, f in t.fields.items():
                where = f"{name}.{fn}"
                if fn.startswith("__"):
                    add("name.input_field", where)
                if not k.is_input(f.type):
                    add("pos.input_field_not_input", where)
                elif not default_ok(f):
                    add("default.input_field", where)
                if k.required(f) and f.deprecation_reason is not None:
                    add("dep.required_input_field", where)
                if t.is_one_of:
                    if isinstance(f.type, k.NonNull):
                        add("oneof.nonnull", where)
                    if k.has_default(f):
                        add("oneof.default", where)
    for n in sorted(nonnull_cycle_members(inputs)):
        add("cycle.nonnull", n)
    for n in sorted(default_cycle_types(inputs)):
        add("cycle.default", n)
    return out


def _fields(t, add):
    k = K()
    if not t.fields:
        add("empty.object" if isinstance(t, k.Object) else "empty.interface", t.name)
    for fn, f in t.fields.items():
        if fn.startswith("__"):
            add("name.field", f"{t.name}.{fn}")
        if not k.is_output(f.type):
            add("pos.field_not_output", f"{t.name}.{fn}")
        for an, a in f.args.items():
            where = f"{t.name}.{fn}({an}:)"
            if an.startswith("__"):
                add("name.arg", where)
            if not k.is_input(a.type):
                add("pos.arg_not_input", where)
            elif not default_ok(a):
                add("default.arg", where)
            if k.required(a) and a.deprecation_reason is not None:
                add("dep.required_arg", where)


def _interfaces(t, add):
    k = K()
    declared = list(t.interfaces)
    seen = []
    for iface in declared:
        if not isinstance(iface, k.Interface):
            add("impl.not_interface", f"{t.name}:{getattr(iface, 'name', iface)}")
            continue
        if iface is t:
            add("impl.self", t.name)
        if any(iface is s for s in seen):
            add("impl.duplicate", f"{t.name}:{iface.name}")
            continue
        seen.append(iface)
        # the implementing type must declare every interface the interface declares
        for tr in iface.interfaces:
            if not any(tr is d for d in declared):
                add("impl.transitive_missing", f"{t.name}:{iface.name}:{getattr(tr, 'name', tr)}")
        for fn, ifield in iface.fields.items():
            field = t.fields.get(fn)
            where = f"{t.name}.{fn}~{iface.name}"
            if field is None:
                add("impl.field_missing", where)
                continue
            if not valid_implementation_field_type(field.type, ifield.type):
                add("impl.field_type", where)
            for an, iarg in ifield.args.items():
                arg = field.args.get(an)
                if arg is None:
                    add("impl.arg_missing", f"{where}({an}:)")
                elif not same_type(arg.type, iarg.type):
                    add("impl.arg_type", f"{where}({an}:)")
            for an, arg in field.args.items():
                if an not in ifield.args and k.required(arg):
                    add("impl.extra_required_arg", f"{where}({an}:)")
            if field.deprecation_reason is not None and ifield.deprecation_reason is None:
                add("impl.deprecated", where)


def classes(schema):
    return sorted({c for c, _ in violations(schema)})
