"""Domain oracle for leaf results (C16), written from the GraphQL specification's
"Result Coercion" paragraphs of the built-in scalars (sec. 3.5.1-3.5.5) and enums (3.9):

  Int      an integer inside the signed 32 bit range; services "may coerce non-integer
           internal values to integers when reasonable without losing information,
           otherwise they must raise a field error" (1.0 -> 1, "123" -> 123).
  Float    a finite IEEE 754 double; non-finite values raise a field error.
  String   text; may coerce "true"/"false" for booleans, "1" for the integer 1.
  Boolean  true / false; may coerce non-zero numbers to true.
  ID       serialised as a String (integers may be rendered as their decimal text).
  Enum     the name of one of the declared values.

The oracle never demands success - a field error is always allowed - it judges
the value that *is* emitted.  It shares no code with graphql-core: the exact
numeric meaning of an input ("reading") is computed with ``fractions.Fraction`` and
``decimal.Decimal`` (exact arithmetic), not with int()/float() parsing.
"""

from __future__ import annotations

import json
import math
from decimal import Decimal
from fractions import Fraction

INT_MIN, INT_MAX = -(2 ** 31), 2 ** 31 - 1

NONFINITE = "nonfinite"


def reading(v):
    """Exact numeric meaning of a Python value: a Fraction, NONFINITE, or None (no numeric meaning).

    bool/int/float: their value.  str: read as a decimal numeral by ``Decimal`` (exact; it accepts
    the same surrounding whitespace / underscores / Unicode decimal digits as Python's own parsers, and
    nothing like "0x10").  Decimal/Fraction: their value.  Objects that declare a numeric conversion
    (__index__/__int__/__float__): that conversion (lenient: such objects are not built-ins).
    """
    if isinstance(v, bool):
        return Fraction(int(v))
    if isinstance(v, int):
        return Fraction(int(v))
    if isinstance(v, float):
        return Fraction(v) if math.isfinite(v) else NONFINITE
    if isinstance(v, str):
        try:
            d = Decimal(str.__str__(v))
        except Exception:  # noqa: BLE001
            return None
        return Fraction(d) if d.is_finite() else NONFINITE
    if isinstance(v, Decimal):
        return Fraction(v) if v.is_finite() else NONFINITE
    if isinstance(v, Fraction):
        return v
    for attr, conv in (("__index__", int), ("__int__", int), ("__float__", float)):
        if hasattr(type(v), attr) and not isinstance(v, (bytes, bytearray, memoryview, complex)):
            try:
                x = conv(v)
            except Exception:  # noqa: BLE001
                return None
            if isinstance(x, float) and not math.isfinite(x):
                return NONFINITE
            return Fraction(x)
    return None


def nearest_double(fr):
    """Correctly rounded double of a Fraction, or None if out of range (int/int true division is
    correctly rounded in CPython and raises OverflowError beyond the double range)."""
    try:
        return fr.numerator / fr.denominator
    except OverflowError:
        return None


def json_ok(value):
    try:
        json.dumps(value, allow_nan=False)
    except (TypeError, ValueError) as e:
        return f"not JSON-representable ({type(e).__name__}: {e})"
    return None


def judge_scalar(name, inp, out):
    """None if `out` is an allowed result of built-in scalar `name` for resolver value `inp`,
    else (signature-suffix, message)."""
    r = reading(inp)
    if name == "Int":
        if type(out) is not int:
            return "type", f"Int result has type {type(out).__name__}, not int"
        if not INT_MIN <= out <= INT_MAX:
            return "range", "Int result is outside the signed 32 bit range"
        if r is None or r is NONFINITE:
            return "meaning", "Int emitted for an input without an integer meaning"
        if r != out:
            return "precision", f"Int result {out} is not numerically equal to the input ({r})"
        return None
    if name == "Float":
        if type(out) not in (int, float):
            return "type", f"Float result has type {type(out).__name__}, not a number"
        if not math.isfinite(out):
            return "nonfinite", "Float result is not finite"
        if r is None or r is NONFINITE:
            return "meaning", "Float emitted for an input without a finite numeric meaning"
        exact = Fraction(out)
        if isinstance(inp, (bool, int, float)):
            # ints must not lose precision silently; floats are already doubles
            if exact != r:
                return "precision", f"Float result {out!r} (= {int(out) if exact.denominator == 1 else exact}) differs from the input"
            if isinstance(inp, int) and int(out) != int(inp):
                return "precision", f"int(result) = {int(out)} differs from the int input"
            return None
        want = nearest_double(r)
        if want is None:
            return "range", "Float emitted for an input beyond the double range"
        if out != want:
            return "precision", f"Float result {out!r} is not the double nearest to the input ({want!r})"
        return None
    if name in ("String", "ID"):
        if not isinstance(out, str):
            return "type", f"{name} result has type {type(out).__name__}, not str"
        text = str.__str__(out)
        if isinstance(inp, str):
            if text != str.__str__(inp):
                return "meaning", f"{name} result differs from the str input"
            return None
        if isinstance(inp, bool):
            if name == "String" and text != ("true" if inp else "false"):
                return "meaning", f"String result {text!r} for boolean {inp}"
            if name == "ID":
                return "meaning", "ID emitted for a boolean"
            return None
        if isinstance(inp, int):
            if text != _decimal_text(int(inp)):
                return "precision", f"{name} result {_short(text)} is not the decimal text of the int input"
            return None
        if isinstance(inp, float):
            if r is NONFINITE:
                return "nonfinite", f"{name} emitted for a non-finite float"
            if name == "ID":
                if r.denominator != 1 or text != _decimal_text(r.numerator):
                    return "precision", f"ID result {_short(text)} for float {inp!r}"
                return None
            back = reading(text)
            if back is None or back is NONFINITE or nearest_double(back) != float(inp):
                return "precision", f"String result {_short(text)} does not read back as the float {inp!r}"
            return None
        # other values (objects with __str__, containers, ...): the property only fixes the domain (text)
        return None
    if name == "Boolean":
        if type(out) is not bool:
            return "type", f"Boolean result has type {type(out).__name__}, not bool"
        if isinstance(inp, bool):
            return None if out is inp else ("meaning", "Boolean result differs from the bool input")
        if isinstance(inp, str):
            if str.__str__(inp) in ("true", "false") and out == (inp == "true"):
                return None
            return "meaning", "Boolean emitted for a string"
        if r is NONFINITE:
            return "nonfinite", "Boolean emitted for a non-finite number"
        if r is not None:
            return None if out == (r != 0) else ("meaning", f"Boolean result {out} for the number {inp!r}")
        # other values: the property only fixes the domain (a boolean)
        return None
    raise ValueError(name)


def _decimal_text(n):
    # decimal rendering without str(int) (independent of the 4300 digit limit and of the code under test)
    if n == 0:
        return "0"
    sign, n = ("-", -n) if n < 0 else ("", n)
    chunks = []
    base = 10 ** 18
    while n:
        n, rem = divmod(n, base)
        chunks.append(rem)
    s = "%d" % chunks[-1] + "".join("%018d" % c for c in reversed(chunks[:-1]))
    return sign + s


def _short(s):
    return repr(s if len(s) <= 40 else s[:20] + ".." + s[-8:])


def _same(a, b):
    if a is b:
        return True
    try:
        return bool(a == b)
    except Exception:  # noqa: BLE001
        return False


def judge_enum(declared, inp, out):
    """declared: ordered list of (name, internal value) read off the enum type (value None/Undefined =
    "absent": the name stands for itself).  The result must be a declared name whose internal value
    is (or ==) the input."""
    if type(out) is not str and not isinstance(out, str):
        return "type", f"enum result has type {type(out).__name__}, not str"
    for name, internal in declared:
        if name == out:
            if _absent(internal):
                ok = isinstance(inp, str) and str.__str__(inp) == name
            else:
                ok = _same(internal, inp)
            if ok:
                return None
            return "meaning", f"enum result {out!r} has internal value {internal!r} which is not equal to the input"
    return "unknown_name", f"enum result {out!r} is not a declared value name"


def _absent(v):
    return v is None or type(v).__name__ == "UndefinedType"


def roundtrip_scalar(name, out, back):
    """`back` = the type's input coercion of the emitted value `out`: must mean the same."""
    if name == "Int":
        ok = type(back) is int and back == out
    elif name == "Float":
        ok = type(back) in (int, float) and not isinstance(back, bool) and math.isfinite(back) and back == out
    elif name in ("String", "ID"):
        ok = isinstance(back, str) and str.__str__(back) == str.__str__(out)
    elif name == "Boolean":
        ok = type(back) is bool and back is out
    else:
        raise ValueError(name)
    return None if ok else ("roundtrip", f"input coercion of the emitted value gives {back!r}")


def roundtrip_enum(declared, inp, out, back):
    for name, internal in declared:
        if name == out:
            # the name is read back as the declared internal value (absent -> the implementation's
            # representation of "no value"), i.e. it identifies the same declared enum value
            if back is internal or _same(back, internal):
                return None
            return "roundtrip", f"input coercion of {out!r} gives {back!r}, declared internal value is {internal!r}"
    return "roundtrip", f"{out!r} is not declared"
