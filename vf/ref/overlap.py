"""Reference for "Field Selection Merging" (spec 5.3.2): FieldsInSetCanMerge /
SameResponseShape, applied to every selection set of a document with fragments
expanded.  Least fixed point over pairs of field nodes: a pair is examined at
most once per exclusivity flag, so cyclic fragment spreads terminate.

conflicts(schema, doc) -> True iff some selection set contains two fields with
the same response name that cannot be merged.  @stream argument equality is
included (incremental delivery RFC)."""

from __future__ import annotations


def _k():
    from graphql import GraphQLInterfaceType, GraphQLList, GraphQLNonNull, GraphQLObjectType, GraphQLUnionType

    return GraphQLNonNull, GraphQLList, GraphQLObjectType, GraphQLInterfaceType, GraphQLUnionType


def canon_value(v):
    k = type(v).__name__
    if k in ("ObjectValueNode", "ConstObjectValueNode"):
        return "{" + ",".join(sorted(f.name.value + ":" + canon_value(f.value) for f in v.fields)) + "}"
    if k in ("ListValueNode", "ConstListValueNode"):
        return "[" + ",".join(canon_value(x) for x in v.values) + "]"
    if k == "VariableNode":
        return "$" + v.name.value
    if k == "NullValueNode":
        return "null"
    if k == "BooleanValueNode":
        return "true" if v.value else "false"
    if k == "StringValueNode":
        return "s:" + repr(v.value)
    return k[0] + ":" + str(v.value)


def args_key(node):
    return tuple(sorted((a.name.value, canon_value(a.value)) for a in (node.arguments or ())))


def stream_key(node):
    for d in node.directives or ():
        if d.name.value == "stream":
            return args_key(d)
    return None


def conflicts(schema, doc):
    NonNull, List, Object, Interface, Union = _k()
    frags = {d.name.value: d for d in doc.definitions if type(d).__name__ == "FragmentDefinitionNode"}
    from graphql.type import TypeNameMetaFieldDef as TYPENAME  # the declared signature of __typename, read as data

    def named(t):
        while isinstance(t, (NonNull, List)):
            t = t.of_type
        return t

    def type_named(n):
        return schema.type_map.get(n.name.value) if n is not None else None

    def collect(selset, parent, out, visited):
        for s in selset.selections:
            k = type(s).__name__
            if k == "FieldNode":
                fdef = None
                if s.name.value == "__typename":
                    # the meta field exists on every composite type and returns String! (specification 4.1 / 5.3.2: the return
                    # type of the field takes part in SameResponseShape like any other)
                    if isinstance(parent, (Object, Interface, Union)):
                        fdef = TYPENAME
                elif parent is not None and hasattr(parent, "fields"):
                    fdef = parent.fields.get(s.name.value)
                out.append((parent, s, fdef))
            elif k == "InlineFragmentNode":
                p = type_named(s.type_condition) if s.type_condition else parent
                collect(s.selection_set, p, out, visited)
            else:
                nm = s.name.value
                if nm in visited or nm not in frags:
                    continue
                visited.add(nm)
                collect(frags[nm].selection_set, type_named(frags[nm].type_condition), out, visited)
        return out

    def shape_conflict(t1, t2):
        while True:
            if isinstance(t1, NonNull) or isinstance(t2, NonNull):
                if not (isinstance(t1, NonNull) and isinstance(t2, NonNull)):
                    return True
                t1, t2 = t1.of_type, t2.of_type
            if isinstance(t1, List) or isinstance(t2, List):
                if not (isinstance(t1, List) and isinstance(t2, List)):
                    return True
                t1, t2 = t1.of_type, t2.of_type
                continue
            break
        composite = (Object, Interface, Union)
        if not isinstance(t1, composite) or not isinstance(t2, composite):
            return t1 is not t2
        return False

    def set_conflicts(fields, excl, seen):
        by = {}
        for f in fields:
            by.setdefault(f[1].alias.value if f[1].alias else f[1].name.value, []).append(f)
        for fs in by.values():
            for i in range(len(fs)):
                for j in range(i + 1, len(fs)):
                    if pair_conflict(fs[i], fs[j], excl, seen):
                        return True
        return False

    def pair_conflict(A, B, excl, seen):
        (pa, na, da), (pb, nb, db) = A, B
        if na is nb:
            return False
        e = excl or (pa is not pb and isinstance(pa, Object) and isinstance(pb, Object))
        key = (id(na), id(nb), e) if id(na) < id(nb) else (id(nb), id(na), e)
        if key in seen:
            return False
        seen.add(key)
        if not e:
            if na.name.value != nb.name.value:
                return True
            if args_key(na) != args_key(nb):
                return True
        if stream_key(na) != stream_key(nb):
            return True
        if da is not None and db is not None and shape_conflict(da.type, db.type):
            return True
        if na.selection_set and nb.selection_set:
            ta = named(da.type) if da else None
            tb = named(db.type) if db else None
            sub = collect(na.selection_set, ta, [], set())
            sub2 = collect(nb.selection_set, tb, [], set())
            merged = sub + [f for f in sub2 if all(f[1] is not g[1] for g in sub)]
            if set_conflicts(merged, e, seen):
                return True
        return False

    found = False

    def visit_sets(selset, parent):
        nonlocal found
        fields = collect(selset, parent, [], set())
        if set_conflicts(fields, False, set()):
            found = True
        for s in selset.selections:
            k = type(s).__name__
            if k == "FieldNode" and s.selection_set:
                fdef = parent.fields.get(s.name.value) if parent is not None and hasattr(parent, "fields") else None
                visit_sets(s.selection_set, named(fdef.type) if fdef else None)
            elif k == "InlineFragmentNode":
                visit_sets(s.selection_set, type_named(s.type_condition) if s.type_condition else parent)

    for d in doc.definitions:
        k = type(d).__name__
        if k == "OperationDefinitionNode":
            root = {"query": schema.query_type, "mutation": schema.mutation_type, "subscription": schema.subscription_type}[d.operation.value]
            visit_sets(d.selection_set, root)
        elif k == "FragmentDefinitionNode":
            visit_sets(d.selection_set, type_named(d.type_condition))
    return found
