"""Cheap structural fingerprint of a schema (change detector used by checks that must show
'the schema was not modified'): names, kinds, field / argument / input-field types and
defaults, enum values, interfaces, members, directives - read off the type objects."""

from __future__ import annotations


def fingerprint(schema):
    out = []
    for name, t in schema.type_map.items():
        row = [name, type(t).__name__, getattr(t, "description", None)]
        fields = getattr(t, "fields", None)
        if isinstance(fields, dict):
            for fn, f in fields.items():
                args = getattr(f, "args", None)
                row.append((fn, str(f.type), getattr(f, "deprecation_reason", None), getattr(f, "description", None),
                            tuple((an, str(a.type), repr(getattr(a, "default", None) and (a.default.value, a.default.literal and str(a.default.literal))))
                                  for an, a in (args or {}).items()),
                            repr(getattr(f, "default", None) and f.default.value)))
        values = getattr(t, "values", None)
        if isinstance(values, dict):
            row.append(tuple((vn, repr(v.value), v.deprecation_reason) for vn, v in values.items()))
        for attr in ("interfaces", "types"):
            xs = getattr(t, attr, None)
            if xs:
                row.append((attr, tuple(x.name for x in xs)))
        out.append(tuple(row))
    for d in schema.directives:
        out.append(("@" + d.name, d.is_repeatable, tuple(str(l) for l in d.locations), tuple((an, str(a.type)) for an, a in d.args.items())))
    out.append(tuple(getattr(t, "name", None) for t in (schema.query_type, schema.mutation_type, schema.subscription_type)))
    return repr(out)
