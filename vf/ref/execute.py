"""Reference executor: the specification's ExecuteRequest, as boring as possible.

No memo, no async, no incremental delivery, no shared caches.  *All* sibling
fields are executed even after a non-null sibling failed, so ``errors`` is the
full set of field errors the specification can produce; an implementation may
report any subset that accounts for the same outermost nulls.

Data model (shared with the harness resolver): a source value is a dict; the
value of field ``f`` is ``src.get(f)``; if that is callable it is called as
``fn(path_list, args_dict)`` and may raise.  Abstract values carry
``__typename``.  An ``Exception`` instance as a value is a field error.
"""

from __future__ import annotations

import math

from . import coerce as rc


class FieldError(Exception):
    pass


class RequestError(Exception):
    pass


class Unspecified(Exception):
    """The specification does not say what happens (e.g. a null reaching @skip(if:) at run time)."""


class Result:
    __slots__ = ("data", "errors", "calls", "request_error", "has_data", "unspecified", "null_variable_paths")

    def __init__(self):
        self.data = None
        self.errors = []  # tuple paths, in reference order
        self.calls = []  # (tuple path, kwargs)
        self.request_error = None
        self.has_data = False
        self.unspecified = None
        self.null_variable_paths = []  # field errors caused by a null variable at a non-null position


def _kinds():
    from graphql import (GraphQLEnumType, GraphQLInterfaceType, GraphQLList, GraphQLNonNull,
                         GraphQLObjectType, GraphQLScalarType, GraphQLUnionType)

    return GraphQLNonNull, GraphQLList, GraphQLObjectType, GraphQLInterfaceType, GraphQLUnionType, GraphQLEnumType, GraphQLScalarType


class Ref:
    def __init__(self, schema, document, root, variables=None, operation_name=None):
        self.schema = schema
        self.root = root
        self.res = Result()
        (self.NonNull, self.List, self.Object, self.Interface, self.Union, self.Enum, self.Scalar) = _kinds()
        self.frags = {}
        ops = []
        for d in document.definitions:
            k = type(d).__name__
            if k == "FragmentDefinitionNode":
                self.frags[d.name.value] = d
            elif k == "OperationDefinitionNode":
                ops.append(d)
        # GetOperation
        if operation_name is None:
            if len(ops) != 1:
                raise RequestError("operation")
            self.op = ops[0]
        else:
            m = [o for o in ops if o.name is not None and o.name.value == operation_name]
            if not m:
                raise RequestError("operation")
            self.op = m[0]
        self.vars = self.coerce_variables(variables or {})

    # ---- variables -----------------------------------------------------------
    def type_from_node(self, n):
        k = type(n).__name__
        if k == "NonNullTypeNode":
            return self.NonNull(self.type_from_node(n.type))
        if k == "ListTypeNode":
            return self.List(self.type_from_node(n.type))
        t = self.schema.type_map.get(n.name.value)
        if t is None:
            raise RequestError("unknown type")
        return t

    def coerce_variables(self, given):
        out = {}
        for vd in self.op.variable_definitions or ():
            name = vd.variable.name.value
            t = self.type_from_node(vd.type)
            has = name in given
            if not has and vd.default_value is not None:
                try:
                    out[name] = rc.coerce_literal(vd.default_value, t, None)
                except rc.Invalid as e:
                    raise RequestError("default") from e
            elif isinstance(t, self.NonNull) and (not has or given[name] is None):
                raise RequestError("variable required")
            elif has:
                try:
                    out[name] = rc.coerce_value(given[name], t)
                except rc.Invalid as e:
                    raise RequestError("variable invalid") from e
        return out

    # ---- arguments -------------------------------------------------------------
    def argument_values(self, fdef, node):
        out = {}
        given = {a.name.value: a.value for a in node.arguments or ()}
        for name, a in fdef.args.items():
            key = a.out_name or name
            has = name in given
            v = rc.MISSING
            if has:
                try:
                    v = rc.coerce_literal(given[name], a.type, self.vars)
                except rc.Invalid as e:
                    raise FieldError from e
            if v is rc.MISSING:
                d = rc.coerce_default(a, a.type)
                if d is not rc.MISSING:
                    out[key] = d
                elif isinstance(a.type, self.NonNull):
                    raise FieldError
            else:
                if v is None and isinstance(a.type, self.NonNull):
                    try:
                        raise rc.NullVariable
                    except rc.NullVariable as nv:
                        raise FieldError from nv
                out[key] = v
        return out

    # ---- CollectFields -----------------------------------------------------------
    def directive_if(self, d):
        for a in d.arguments or ():
            if a.name.value == "if":
                try:
                    v = rc.coerce_literal(a.value, self.NonNull(self.schema.type_map["Boolean"]), self.vars)
                except rc.Invalid as e:
                    raise Unspecified("directive argument") from e
                if v is rc.MISSING:
                    raise Unspecified("directive argument")
                return v
        raise Unspecified("directive argument")

    def included(self, node):
        for d in node.directives or ():
            if d.name.value == "skip" and self.directive_if(d) is True:
                return False
        for d in node.directives or ():
            if d.name.value == "include" and self.directive_if(d) is False:
                return False
        return True

    def applies(self, tc, obj):
        if tc is None:
            return True
        t = self.schema.type_map.get(tc.name.value)
        if t is obj:
            return True
        if isinstance(t, self.Interface):
            return any(i is t for i in obj.interfaces)
        if isinstance(t, self.Union):
            return any(m is obj for m in t.types)
        return False

    def collect(self, obj, selsets):
        grouped = {}
        visited = set()

        def go(ss):
            for s in ss.selections:
                if not self.included(s):
                    continue
                k = type(s).__name__
                if k == "FieldNode":
                    grouped.setdefault(s.alias.value if s.alias else s.name.value, []).append(s)
                elif k == "InlineFragmentNode":
                    if self.applies(s.type_condition, obj):
                        go(s.selection_set)
                else:
                    n = s.name.value
                    if n in visited:
                        continue
                    visited.add(n)
                    f = self.frags.get(n)
                    if f is not None and self.applies(f.type_condition, obj):
                        go(f.selection_set)

        for ss in selsets:
            go(ss)
        return grouped

    # ---- execution ---------------------------------------------------------------------
    def run(self):
        op = self.op.operation.value
        root_t = {"query": self.schema.query_type, "mutation": self.schema.mutation_type,
                  "subscription": self.schema.subscription_type}[op]
        if root_t is None:
            raise RequestError("no root type")
        self.res.has_data = True
        try:
            self.res.data = self.selection(root_t, self.root, [self.op.selection_set], [])
        except FieldError:
            self.res.data = None
        return self.res

    def selection(self, obj_t, src, selsets, path):
        out = {}
        failed = False
        for key, nodes in self.collect(obj_t, selsets).items():
            name = nodes[0].name.value
            if name == "__typename":
                out[key] = obj_t.name
                continue
            fdef = obj_t.fields.get(name)
            if fdef is None:
                continue
            p = path + [key]
            try:
                out[key] = self.field(fdef, src, nodes, p)
            except FieldError:
                if isinstance(fdef.type, self.NonNull):
                    failed = True
                else:
                    out[key] = None
        if failed:
            raise FieldError
        return out

    def err(self, path):
        self.res.errors.append(tuple(path))

    def field(self, fdef, src, nodes, path):
        try:
            args = self.argument_values(fdef, nodes[0])
        except FieldError as e:
            if isinstance(e.__cause__, rc.NullVariable):
                self.res.null_variable_paths.append(tuple(path))
            self.err(path)
            raise
        self.res.calls.append((tuple(path), args))
        try:
            v = src.get(nodes[0].name.value) if isinstance(src, dict) else None
            if callable(v):
                v = v(list(path), dict(args))
        except Exception:  # noqa: BLE001
            self.err(path)
            raise FieldError from None
        return self.complete(fdef.type, nodes, v, path)

    def complete(self, t, nodes, v, path):
        """CompleteValue; raises FieldError if the value at `path` must be null by error."""
        if isinstance(t, self.NonNull):
            r = self.complete(t.of_type, nodes, v, path)
            if r is None:
                # a legitimate null (no error below) at a non-null position is itself a field error
                self.err(path)
                raise FieldError
            return r
        if isinstance(v, Exception):
            self.err(path)
            raise FieldError
        if v is None:
            return None
        if isinstance(t, self.List):
            if isinstance(v, (str, bytes, dict)) or not hasattr(v, "__iter__"):
                self.err(path)
                raise FieldError
            out = []
            failed = False
            it = t.of_type
            for i, x in enumerate(v):
                try:
                    out.append(self.complete(it, nodes, x, path + [i]))
                except FieldError:
                    out.append(None)
                    if isinstance(it, self.NonNull):
                        failed = True
            if failed:
                raise FieldError
            return out
        if isinstance(t, (self.Scalar, self.Enum)):
            try:
                return self.leaf(t, v)
            except FieldError:
                self.err(path)
                raise
        if isinstance(t, (self.Interface, self.Union)):
            tn = v.get("__typename") if isinstance(v, dict) else None
            ot = self.schema.type_map.get(tn) if isinstance(tn, str) else None
            if not isinstance(ot, self.Object) or not self.applies_abstract(t, ot):
                self.err(path)
                raise FieldError
            t = ot
        return self.selection(t, v, [n.selection_set for n in nodes if n.selection_set], path)

    def applies_abstract(self, abstract, obj):
        if isinstance(abstract, self.Interface):
            return any(i is abstract for i in obj.interfaces)
        return any(m is obj for m in abstract.types)

    def leaf(self, t, v):
        """Result coercion for the menu's well-typed values; everything else is a field error."""
        if isinstance(t, self.Enum):
            for name, ev in t.values.items():
                try:
                    if ev.value is v or (type(ev.value) is type(v) and ev.value == v):
                        return name
                except Exception:  # noqa: BLE001
                    pass
            raise FieldError
        n = t.name
        if n == "Int":
            if type(v) is int and rc.INT_MIN <= v <= rc.INT_MAX:
                return v
            raise FieldError
        if n == "Float":
            if type(v) in (int, float) and math.isfinite(v):
                return float(v) if type(v) is float else v
            raise FieldError
        if n == "String":
            if type(v) is str:
                return v
            raise FieldError
        if n == "Boolean":
            if type(v) is bool:
                return v
            raise FieldError
        if n == "ID":
            if type(v) is str:
                return v
            if type(v) is int:
                return str(v)
            raise FieldError
        try:
            r = t.coerce_output_value(v)
        except Exception:  # noqa: BLE001
            raise FieldError from None
        if r is None:
            raise FieldError  # result coercion must produce a value or a field error
        return r


def execute(schema, document, root, variables=None, operation_name=None):
    """Returns vf.ref.execute.Result; request errors give has_data False."""
    try:
        r = Ref(schema, document, root, variables, operation_name)
    except (RequestError, FieldError) as e:
        res = Result()
        res.request_error = str(e) or type(e).__name__
        return res
    try:
        return r.run()
    except RequestError as e:
        res = Result()
        res.request_error = str(e)
        return res
    except Unspecified as e:
        res = Result()
        res.unspecified = str(e)
        return res


# ---- comparison helpers used by C02 / C03 / C13 --------------------------------------------


def null_position(data, path):
    """The outermost null met while walking `path` in data: its path tuple; () if data is None;
    'MISSING' if the path leaves the data; 'NOTNULL' if it ends at a value."""
    cur = data
    if cur is None:
        return ()
    for i, k in enumerate(path):
        try:
            cur = cur[k]
        except (KeyError, IndexError, TypeError):
            return "MISSING"
        if cur is None:
            return tuple(path[: i + 1])
    return "NOTNULL"


def outermost(data, paths):
    ps = {null_position(data, p) for p in paths}
    return {p for p in ps if not any(q != p and isinstance(q, tuple) and isinstance(p, tuple) and p[: len(q)] == q for q in ps)}
