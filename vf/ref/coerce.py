"""Reference input coercion (spec 3.x "Input Coercion", 6.4.1 CoerceArgumentValues,
6.1.2 CoerceVariableValues) and the conformance predicate used by C15.

Reads graphql type objects as data only (kind tests via isinstance, .of_type,
.fields, .values, .default); shares no coercion code with the implementation.
"""

from __future__ import annotations

import math


class Invalid(Exception):
    """The value / literal cannot be coerced to the type."""


class NullVariable(Invalid):
    """A variable whose value is null reached a non-null position (the case the specification defers to run time)."""


MISSING = object()  # "no value" (absent variable, absent field)

INT_MIN, INT_MAX = -(2 ** 31), 2 ** 31 - 1


def kinds():
    from graphql import (GraphQLEnumType, GraphQLInputObjectType, GraphQLList, GraphQLNonNull,
                         GraphQLScalarType)

    return GraphQLNonNull, GraphQLList, GraphQLInputObjectType, GraphQLEnumType, GraphQLScalarType


def default_literal(holder):
    """Default of an argument / input field as (has_default, kind, payload)."""
    d = getattr(holder, "default", None)
    if d is None:
        return None
    if d.literal is not None:
        return ("literal", d.literal)
    return ("value", d.value)


def coerce_default(holder, typ):
    d = default_literal(holder)
    if d is None:
        return MISSING
    if d[0] == "literal":
        return coerce_literal(d[1], typ, None)
    return coerce_value(d[1], typ)


# --- scalars -------------------------------------------------------------------


def scalar_from_value(name, v, scalar=None):
    if name == "Int":
        if type(v) is int and INT_MIN <= v <= INT_MAX:
            return v
        if type(v) is float and math.isfinite(v) and v == int(v) and INT_MIN <= v <= INT_MAX:
            return int(v)
        raise Invalid
    if name == "Float":
        if type(v) is int:
            f = float(v)
            if math.isfinite(f):
                return f
            raise Invalid
        if type(v) is float and math.isfinite(v):
            return v
        raise Invalid
    if name == "String":
        if type(v) is str:
            return v
        raise Invalid
    if name == "Boolean":
        if type(v) is bool:
            return v
        raise Invalid
    if name == "ID":
        if type(v) is str:
            return v
        if type(v) is int:
            return str(v)
        if type(v) is float and math.isfinite(v) and v == int(v):
            return str(int(v))
        raise Invalid
    # custom scalar: identity unless it refuses
    try:
        return scalar.coerce_input_value(v)
    except Exception as e:  # noqa: BLE001
        raise Invalid from e


def untyped_literal(node, variables):
    """Value of a literal without type information; variables already carry their coerced values (defaults
    included); an absent variable leaves an object field out and becomes null inside a list."""
    k = type(node).__name__
    if k == "VariableNode":
        return variables.get(node.name.value, MISSING) if variables is not None else MISSING
    if k == "NullValueNode":
        return None
    if k == "IntValueNode":
        return int(node.value)
    if k == "FloatValueNode":
        return float(node.value)
    if k in ("ListValueNode", "ConstListValueNode"):
        out = []
        for x in node.values:
            v = untyped_literal(x, variables)
            out.append(None if v is MISSING else v)
        return out
    if k in ("ObjectValueNode", "ConstObjectValueNode"):
        out = {}
        for f in node.fields:
            v = untyped_literal(f.value, variables)
            if v is not MISSING:
                out[f.name.value] = v
        return out
    return node.value


def scalar_from_literal(name, node, scalar=None, variables=None):
    k = type(node).__name__
    if name == "Int":
        if k == "IntValueNode":
            v = int(node.value)
            if INT_MIN <= v <= INT_MAX:
                return v
        raise Invalid
    if name == "Float":
        if k in ("IntValueNode", "FloatValueNode"):
            f = float(node.value)
            if math.isfinite(f):
                return f
        raise Invalid
    if name == "String":
        if k == "StringValueNode":
            return node.value
        raise Invalid
    if name == "Boolean":
        if k == "BooleanValueNode":
            return node.value
        raise Invalid
    if name == "ID":
        if k in ("StringValueNode", "IntValueNode"):
            return node.value
        raise Invalid
    if name == "Any":
        v = untyped_literal(node, variables if variables is not None else {})
        if v is MISSING:
            return MISSING
        return v
    try:
        if getattr(scalar, "coerce_input_literal", None) is not None:
            return scalar.coerce_input_literal(node)
        return scalar.parse_literal(node, variables)
    except Exception as e:  # noqa: BLE001
        raise Invalid from e


# --- runtime values (variables) ----------------------------------------------------


def coerce_value(v, typ):
    NonNull, List, InputObject, Enum, Scalar = kinds()
    if isinstance(typ, NonNull):
        if v is None:
            raise Invalid
        return coerce_value(v, typ.of_type)
    if v is None:
        return None
    if isinstance(typ, List):
        if isinstance(v, (list, tuple)):
            return [coerce_value(x, typ.of_type) for x in v]
        if isinstance(v, (str, bytes, dict)) or not hasattr(v, "__iter__"):
            return [coerce_value(v, typ.of_type)]
        return [coerce_value(x, typ.of_type) for x in v]
    if isinstance(typ, InputObject):
        if not isinstance(v, dict):
            raise Invalid
        out = {}
        for k in v:
            if k not in typ.fields:
                raise Invalid
        for name, f in typ.fields.items():
            if name in v:
                out[f.out_name or name] = coerce_value(v[name], f.type)
            else:
                d = coerce_default(f, f.type)
                if d is not MISSING:
                    out[f.out_name or name] = d
                elif isinstance(f.type, NonNull):
                    raise Invalid
        if typ.is_one_of:
            if len(v) != 1 or next(iter(v.values())) is None:
                raise Invalid
        return typ.out_type(out)
    if isinstance(typ, Enum):
        if type(v) is str and v in typ.values:
            return typ.values[v].value
        raise Invalid
    return scalar_from_value(typ.name, v, typ)


# --- literals ------------------------------------------------------------------------


def coerce_literal(node, typ, variables):
    """variables: dict of already coerced variable values (absent key = no value) or None
    for const positions.  Returns the value, or MISSING for an absent variable at top level."""
    NonNull, List, InputObject, Enum, Scalar = kinds()
    k = type(node).__name__
    if k == "VariableNode":
        name = node.name.value
        if variables is None or name not in variables:
            return MISSING
        v = variables[name]
        if v is None and isinstance(typ, NonNull):
            raise NullVariable
        return v
    if isinstance(typ, NonNull):
        if k == "NullValueNode":
            raise Invalid
        return coerce_literal(node, typ.of_type, variables)
    if k == "NullValueNode":
        return None
    if isinstance(typ, List):
        if k in ("ListValueNode", "ConstListValueNode"):
            out = []
            for item in node.values:
                v = coerce_literal(item, typ.of_type, variables)
                if v is MISSING:
                    if isinstance(typ.of_type, NonNull):
                        raise Invalid
                    v = None
                out.append(v)
            return out
        v = coerce_literal(node, typ.of_type, variables)
        if v is MISSING:
            raise Invalid
        return [v]
    if isinstance(typ, InputObject):
        if k not in ("ObjectValueNode", "ConstObjectValueNode"):
            raise Invalid
        given = {}
        for f in node.fields:
            given[f.name.value] = f.value
        for name in given:
            if name not in typ.fields:
                raise Invalid
        out = {}
        for name, f in typ.fields.items():
            v = coerce_literal(given[name], f.type, variables) if name in given else MISSING
            if v is MISSING:
                d = coerce_default(f, f.type)
                if d is not MISSING:
                    out[f.out_name or name] = d
                elif isinstance(f.type, NonNull):
                    raise Invalid
            else:
                out[f.out_name or name] = v
        if typ.is_one_of:
            if len(node.fields) != 1:
                raise Invalid
            only = node.fields[0]
            val = out.get(typ.fields[only.name.value].out_name or only.name.value, MISSING)
            if val is None or val is MISSING:
                raise Invalid
        return typ.out_type(out)
    if isinstance(typ, Enum):
        if k == "EnumValueNode" and node.value in typ.values:
            return typ.values[node.value].value
        raise Invalid
    return scalar_from_literal(typ.name, node, typ, variables)


# --- conformance (C15) -----------------------------------------------------------------


def conforms(v, typ):
    """Does an already coerced value lie in the domain of typ?"""
    NonNull, List, InputObject, Enum, Scalar = kinds()
    if isinstance(typ, NonNull):
        return v is not None and conforms(v, typ.of_type)
    if v is None:
        return True
    if isinstance(typ, List):
        return isinstance(v, list) and all(conforms(x, typ.of_type) for x in v)
    if isinstance(typ, InputObject):
        if not isinstance(v, dict):
            return False
        allowed = {(f.out_name or n): f for n, f in typ.fields.items()}
        for k2, x in v.items():
            if k2 not in allowed or not conforms(x, allowed[k2].type):
                return False
        for n, f in allowed.items():
            if isinstance(f.type, NonNull) and n not in v:
                return False
        if typ.is_one_of and (len(v) != 1 or next(iter(v.values())) is None):
            return False
        return True
    if isinstance(typ, Enum):
        return any(v is ev.value or v == ev.value for ev in typ.values.values())
    n = typ.name
    if n == "Int":
        return type(v) is int and INT_MIN <= v <= INT_MAX
    if n == "Float":
        return type(v) in (int, float) and not isinstance(v, bool) and math.isfinite(v)
    if n in ("String", "ID"):
        return type(v) is str
    if n == "Boolean":
        return type(v) is bool
    return True
