"""Location-free structural view of AST nodes, derived from the dataclass
fields of the node classes (not from QUERY_DOCUMENT_KEYS)."""

from __future__ import annotations

import dataclasses
from enum import Enum

_fields_cache = {}


def data_fields(node):
    cls = type(node)
    f = _fields_cache.get(cls)
    if f is None:
        f = _fields_cache[cls] = tuple(x.name for x in dataclasses.fields(cls) if x.name != "loc")
    return f


def is_node(x):
    return dataclasses.is_dataclass(x) and hasattr(x, "kind") and hasattr(type(x), "loc")


def shape(x):
    """Hashable structural dump: class name without Const, fields, values; () == None."""
    if is_node(x):
        name = type(x).__name__.removeprefix("Const")
        return (name,) + tuple((f, shape(getattr(x, f))) for f in data_fields(x))
    if isinstance(x, (tuple, list)):
        if not x:
            return None
        return tuple(shape(i) for i in x)
    if isinstance(x, Enum):
        return ("enum", x.name)
    return x


def children(node):
    """[(key, child)] of node-valued fields; child is a Node or a non-empty tuple of Nodes.
    Order: by source position when locations are present (document order), else field order."""
    out = []
    for f in data_fields(node):
        v = getattr(node, f)
        if is_node(v):
            out.append((f, v))
        elif isinstance(v, tuple) and v and all(is_node(i) for i in v):
            out.append((f, v))

    def start(item):
        v = item[1]
        if isinstance(v, tuple):
            v = v[0] if v else None
        loc = getattr(v, "loc", None)
        return loc.start if loc is not None else None

    starts = [start(i) for i in out]
    if out and all(s is not None for s in starts):
        out = [i for _s, _k, i in sorted(zip(starts, range(len(out)), out))]
    return out


def count_nodes(x):
    if is_node(x):
        return 1 + sum(count_nodes(v) for _k, v in children(x))
    if isinstance(x, tuple):
        return sum(count_nodes(i) for i in x)
    return 0


def string_values(x, out=None):
    """All (value, block) of StringValueNodes in document order of fields."""
    if out is None:
        out = []
    if is_node(x):
        if type(x).__name__ == "StringValueNode":
            out.append((x.value, bool(x.block)))
        for f in data_fields(x):
            string_values(getattr(x, f), out)
    elif isinstance(x, tuple):
        for i in x:
            string_values(i, out)
    return out
