"""Reference coercion of *runtime* input values for C15 (spec sec. 3.5-3.12 "Input Coercion"),
for JSON-like Python values: None, bool, int, float, str, list/tuple, dict with str keys -
plus the library's ``Undefined`` marker, which by its documented convention means "no value"
(a dict key whose value is Undefined is an absent key; Undefined as a value is null).

Extends vf/ref/coerce.py (literals, defaults, ``conforms`` are imported from there unchanged).
Two Python-specific decisions, both consequences of the property text rather than of the code:
  * Float from an int: accepted iff the int is exactly representable as a finite double
    ("never loses integer precision silently"); ints beyond the double range are invalid.
  * tuples are lists.
Reads graphql type objects as data only.
"""

from __future__ import annotations

import math
from fractions import Fraction

from vf.ref.coerce import INT_MAX, INT_MIN, MISSING, Invalid, coerce_literal, conforms, kinds  # noqa: F401


def is_undefined(v):
    return type(v).__name__ == "UndefinedType"


def jsonlike(v, depth=0):
    """Values for which the specification's value coercion is unambiguous."""
    if v is None or is_undefined(v):
        return True
    t = type(v)
    if t in (bool, int, float, str):
        return True
    if depth > 8:
        return False
    if t in (list, tuple):
        return all(jsonlike(x, depth + 1) for x in v)
    if t is dict:
        return all(type(k) is str and jsonlike(x, depth + 1) for k, x in v.items())
    return False


def _scalar(name, v, scalar):
    if name == "Int":
        if type(v) is int and INT_MIN <= v <= INT_MAX:
            return v
        if type(v) is float and math.isfinite(v) and Fraction(v).denominator == 1 and INT_MIN <= v <= INT_MAX:
            return int(Fraction(v))
        raise Invalid
    if name == "Float":
        if type(v) is int:
            try:
                f = v / 1  # correctly rounded true division
            except OverflowError:
                raise Invalid from None
            if math.isfinite(f) and Fraction(f) == v:
                return f
            raise Invalid
        if type(v) is float and math.isfinite(v):
            return v
        raise Invalid
    if name == "String":
        if type(v) is str:
            return v
        raise Invalid
    if name == "Boolean":
        if type(v) is bool:
            return v
        raise Invalid
    if name == "ID":
        if type(v) is str:
            return v
        if type(v) is int:
            return _dec(v)
        if type(v) is float and math.isfinite(v) and Fraction(v).denominator == 1:
            return _dec(Fraction(v).numerator)
        raise Invalid
    # custom scalar: whatever it says (identity in the C15 schema)
    try:
        return scalar.coerce_input_value(v)
    except Exception as e:  # noqa: BLE001
        raise Invalid from e


def _dec(n):
    from vf.ref.leaf import _decimal_text

    return _decimal_text(n)


def default_of(field):
    """Coerced default of an input field, or MISSING."""
    d = getattr(field, "default", None)
    if d is None:
        return MISSING
    if d.literal is not None:
        return coerce_literal(d.literal, field.type, None)
    return coerce_value(d.value, field.type)


def coerce_value(v, typ):
    NonNull, List, InputObject, Enum, Scalar = kinds()
    if is_undefined(v):
        v = None
    if isinstance(typ, NonNull):
        if v is None:
            raise Invalid
        return coerce_value(v, typ.of_type)
    if v is None:
        return None
    if isinstance(typ, List):
        if type(v) in (list, tuple):
            return [coerce_value(x, typ.of_type) for x in v]
        return [coerce_value(v, typ.of_type)]
    if isinstance(typ, InputObject):
        if type(v) is not dict:
            raise Invalid
        given = {k: x for k, x in v.items() if not is_undefined(x)}
        for k in given:
            if k not in typ.fields:
                raise Invalid
        out = {}
        for name, f in typ.fields.items():
            if name in given:
                out[f.out_name or name] = coerce_value(given[name], f.type)
            else:
                d = default_of(f)
                if d is not MISSING:
                    out[f.out_name or name] = d
                elif isinstance(f.type, NonNull):
                    raise Invalid
        if typ.is_one_of and (len(given) != 1 or next(iter(given.values())) is None):
            raise Invalid
        return typ.out_type(out)
    if isinstance(typ, Enum):
        if type(v) is str and v in typ.values:
            return typ.values[v].value
        raise Invalid
    return _scalar(typ.name, v, typ)


def kind(x):
    if isinstance(x, bool):
        return "bool"
    if isinstance(x, int):
        return "int"
    if isinstance(x, float):
        return "float"
    if isinstance(x, str):
        return "str"
    if type(x) in (list, tuple):
        return "list"
    if type(x) is dict:
        return "dict"
    return type(x)


def same(a, b):
    """Structural equality that distinguishes bool/int/float/str (1 != True != 1.0), ignores dict key
    order and str/int subclassing, and treats nan as equal to itself."""
    ka = kind(a)
    if ka != kind(b):
        return False
    if ka == "list":
        return len(a) == len(b) and all(same(x, y) for x, y in zip(a, b))
    if ka == "dict":
        return set(a) == set(b) and all(same(a[k], b[k]) for k in a)
    if ka == "float":
        return float(a) == float(b) or (a != a and b != b)
    if ka == "str":
        return str.__eq__(a, b) is True
    if ka in ("int", "bool"):
        return int(a) == int(b)
    try:
        return a is b or bool(a == b)
    except Exception:  # noqa: BLE001
        return a is b


def plain(x):
    """Replace str subclass instances by plain str (a coerced String may be the caller's own str subclass
    instance; it is text all the same) so that the strict ``conforms`` of ref/coerce.py can be applied."""
    if isinstance(x, str) and type(x) is not str:
        return str.__str__(x)
    if type(x) is list:
        return [plain(y) for y in x]
    if type(x) is dict:
        return {k: plain(y) for k, y in x.items()}
    return x
