"""Canonical, order sensitive fingerprint of a GraphQL schema (C17 C18 C19).

The fingerprint is read off the schema / type objects as *data* only: attribute
access on ``GraphQLSchema``, the type classes and AST value nodes.  It never calls
``print_schema``, ``print_ast``, ``find_schema_changes``, ``value_to_literal``,
``ast_from_value`` or any coercion routine of the code under test, so it is an
independent witness for "these two schemas are the same schema".

    fingerprint(schema, builtins=False) -> dict (JSON-able)
    diff(fp_a, fp_b, limit=6)           -> list of "path: a != b" strings ([] = equal)
    path_class(diff_line)               -> the path with concrete names replaced by '*'
    canon_literal(node, type_)          -> canonical text of a const value AST node
    canon_value(value, type_, internal) -> canonical text of a Python (default) value

Shape (lists of ``[name, entry]`` pairs keep the ORDER of everything):

    {"description": str|None,
     "roots": {"query": name|None, "mutation": ..., "subscription": ...},
     "types": [[name, {"kind": "OBJECT", "description":..., "interfaces": [names],
                       "fields": [[fname, {"type": "[T!]", "description", "deprecation",
                                           "args": [[aname, {"type", "default", "description",
                                                             "deprecation"}]]}]]}], ...],
     "directives": [[name, {"description", "repeatable", "locations": [names], "deprecation",
                            "args": [...]}]],          # non specified directives, schema order
     "specified_directives": [names]}                  # which specified ones are present (order)

``types`` lists the types of ``schema.type_map`` in map order without the specified
scalars and the introspection types (their position depends on where they are first
referenced and SDL cannot express it); ``builtins=True`` adds ``"all_type_names"``
(the complete key order of the type map) for callers that do care (C18).

Default values are canonicalised *by meaning* and type directed, so that the three ways
graphql-core can hold one (literal AST, external Python value, deprecated internal
value) and the textual variants of a literal compare equal exactly when they denote
the same default:
  Int -> decimal digits; Float -> repr(float) (``1``, ``1.0`` and ``1e0`` agree);
  String -> JSON string; ID -> JSON string of the text (``1`` and ``"1"`` agree);
  Boolean -> true/false; enum -> the value NAME; list -> ``[a, b]`` (a non list given
  for a list type is the one element list); input object -> ``{k: v}`` with the given
  keys sorted by name (omitted fields are NOT filled in); custom scalar -> untyped
  canonical form of the literal / value (numbers by numeric value: 1.0 and 1 agree);
  null -> ``null``.
"""

from __future__ import annotations

import json
import math

__all__ = ["canon_literal", "canon_value", "diff", "fingerprint", "path_class", "type_str"]

_BUILTIN_SCALARS = ("Int", "Float", "String", "Boolean", "ID")


def _g():
    import graphql

    return graphql


def type_str(t) -> str:
    """``[T!]!`` notation from the wrapper objects (no use of ``str(type)``)."""
    g = _g()
    if isinstance(t, g.GraphQLNonNull):
        return type_str(t.of_type) + "!"
    if isinstance(t, g.GraphQLList):
        return "[" + type_str(t.of_type) + "]"
    return getattr(t, "name", None) or ("?" + type(t).__name__)


def _kind(t) -> str:
    g = _g()
    for cls, name in (
        (g.GraphQLScalarType, "SCALAR"),
        (g.GraphQLObjectType, "OBJECT"),
        (g.GraphQLInterfaceType, "INTERFACE"),
        (g.GraphQLUnionType, "UNION"),
        (g.GraphQLEnumType, "ENUM"),
        (g.GraphQLInputObjectType, "INPUT_OBJECT"),
    ):
        if isinstance(t, cls):
            return name
    return "?" + type(t).__name__


def _jstr(s) -> str:
    return json.dumps(str(s), ensure_ascii=True)


def _float_text(x) -> str:
    try:
        f = float(x)
    except (OverflowError, ValueError):
        return "float?" + str(x)
    if math.isnan(f) or math.isinf(f):
        return "null"  # like JSON, non finite numbers have no literal
    return repr(f)


def _untyped_number(x) -> str:
    """Numbers where no type says Int or Float (custom scalars): compared by numeric value,
    so 1.0 and 1 agree (Python: 1 == 1.0; the deprecated ast_from_value writes 1.0 as 1)."""
    t = _float_text(x)
    try:
        f = float(t)
    except ValueError:
        return t
    if f == int(f) and abs(f) < 1e15:
        return str(int(f))
    return t


# --------------------------------------------------------------------------- literals


def _untyped_literal(node) -> str:
    k = getattr(node, "kind", None)
    if k == "null_value":
        return "null"
    if k == "int_value":
        return str(int(node.value))
    if k == "float_value":
        return _untyped_number(node.value)
    if k == "string_value":
        return _jstr(node.value)
    if k == "boolean_value":
        return "true" if node.value else "false"
    if k == "enum_value":
        return str(node.value)
    if k in ("list_value", "const_list_value"):
        return "[" + ", ".join(_untyped_literal(v) for v in node.values) + "]"
    if k in ("object_value", "const_object_value"):
        items = sorted((f.name.value, _untyped_literal(f.value)) for f in node.fields)
        return "{" + ", ".join(f"{n}: {v}" for n, v in items) + "}"
    if k == "variable":
        return "$" + node.name.value
    return "?" + str(k)


def canon_literal(node, type_) -> str:
    """Canonical text of a const value AST node for an input type."""
    g = _g()
    k = getattr(node, "kind", None)
    if isinstance(type_, g.GraphQLNonNull):
        return canon_literal(node, type_.of_type)
    if k == "null_value":
        return "null"
    if isinstance(type_, g.GraphQLList):
        if k in ("list_value", "const_list_value"):
            return "[" + ", ".join(canon_literal(v, type_.of_type) for v in node.values) + "]"
        return "[" + canon_literal(node, type_.of_type) + "]"
    if isinstance(type_, g.GraphQLInputObjectType):
        if k not in ("object_value", "const_object_value"):
            return "!" + _untyped_literal(node)
        fields = type_.fields
        items = []
        for f in node.fields:
            ft = fields.get(f.name.value)
            items.append(
                (f.name.value, canon_literal(f.value, ft.type) if ft is not None else "!" + _untyped_literal(f.value))
            )
        items.sort()
        return "{" + ", ".join(f"{n}: {v}" for n, v in items) + "}"
    if isinstance(type_, g.GraphQLEnumType):
        return str(node.value) if k == "enum_value" else "!" + _untyped_literal(node)
    name = getattr(type_, "name", None)
    if isinstance(type_, g.GraphQLScalarType) and name in _BUILTIN_SCALARS:
        if name == "Int" and k == "int_value":
            return str(int(node.value))
        if name == "Float" and k in ("int_value", "float_value"):
            return _float_text(node.value)
        if name == "String" and k == "string_value":
            return _jstr(node.value)
        if name == "Boolean" and k == "boolean_value":
            return "true" if node.value else "false"
        if name == "ID" and k in ("int_value", "string_value"):
            return _jstr(int(node.value) if k == "int_value" else node.value)
        return "!" + _untyped_literal(node)
    return _untyped_literal(node)


# ----------------------------------------------------------------------- Python values


def _is_undefined(v) -> bool:
    return type(v).__name__ == "UndefinedType"


def _untyped_value(v) -> str:
    if v is None or _is_undefined(v):
        return "null"
    if isinstance(v, bool):
        return "true" if v else "false"
    if isinstance(v, str):
        return _jstr(v)
    if isinstance(v, int):
        return str(int(v))
    if isinstance(v, float):
        return _untyped_number(v)
    if isinstance(v, dict):
        items = sorted((str(k), _untyped_value(x)) for k, x in v.items() if not _is_undefined(x))
        return "{" + ", ".join(f"{n}: {x}" for n, x in items) + "}"
    if isinstance(v, (list, tuple)):
        return "[" + ", ".join(_untyped_value(x) for x in v) + "]"
    return "?" + repr(v)


def canon_value(v, type_, internal=False) -> str:
    """Canonical text of a Python default value for an input type.

    ``internal=False``: an *external* value (``GraphQLDefaultInput.value``): enum values
    are given by name.  ``internal=True``: the deprecated ``default_value`` holding the
    coerced value: enum values are the Python values of the enum definition.
    """
    g = _g()
    if isinstance(type_, g.GraphQLNonNull):
        return canon_value(v, type_.of_type, internal)
    if v is None or _is_undefined(v):
        return "null"
    if isinstance(type_, g.GraphQLList):
        if isinstance(v, (list, tuple)):
            return "[" + ", ".join(canon_value(x, type_.of_type, internal) for x in v) + "]"
        return "[" + canon_value(v, type_.of_type, internal) + "]"
    if isinstance(type_, g.GraphQLInputObjectType):
        if not isinstance(v, dict):
            return "!" + _untyped_value(v)
        fields = type_.fields
        by_out = {}
        if internal:
            by_out = {(f.out_name or n): n for n, f in fields.items()}
        items = []
        for key, x in v.items():
            if _is_undefined(x):
                continue
            n = by_out.get(key, key)
            ft = fields.get(n)
            items.append((str(n), canon_value(x, ft.type, internal) if ft is not None else "!" + _untyped_value(x)))
        items.sort()
        return "{" + ", ".join(f"{n}: {x}" for n, x in items) + "}"
    if isinstance(type_, g.GraphQLEnumType):
        if internal:
            for n, ev in type_.values.items():
                val = ev.value
                if val is None or _is_undefined(val):
                    val = n
                try:
                    if val == v and type(val) is type(v):
                        return n
                except Exception:  # noqa: BLE001
                    pass
            return "!" + _untyped_value(v)
        return str(v) if isinstance(v, str) else "!" + _untyped_value(v)
    name = getattr(type_, "name", None)
    if isinstance(type_, g.GraphQLScalarType) and name in _BUILTIN_SCALARS:
        if name == "Int" and isinstance(v, int) and not isinstance(v, bool):
            return str(int(v))
        if name == "Int" and isinstance(v, float) and v == v and abs(v) != float("inf") and v == int(v):
            return str(int(v))  # a float with an integral value is a legal Int input (specification 3.5.1, input coercion)
        if name == "Float" and isinstance(v, (int, float)) and not isinstance(v, bool):
            return _float_text(v)
        if name == "String" and isinstance(v, str):
            return _jstr(v)
        if name == "Boolean" and isinstance(v, bool):
            return "true" if v else "false"
        if name == "ID" and isinstance(v, (int, str)) and not isinstance(v, bool):
            return _jstr(v)
        return "!" + _untyped_value(v)
    return _untyped_value(v)


def default_text(arg):
    """Canonical default of a GraphQLArgument / GraphQLInputField, None if it has none."""
    d = getattr(arg, "default", None)
    if d is not None:
        lit = getattr(d, "literal", None)
        if lit is not None:
            return canon_literal(lit, arg.type)
        return canon_value(d.value, arg.type, internal=False)
    dv = getattr(arg, "default_value", None)
    if dv is None and not hasattr(arg, "default_value"):
        return None
    if _is_undefined(dv):
        return None
    return canon_value(dv, arg.type, internal=True)


# ------------------------------------------------------------------------ fingerprint


def _input_value(a):
    return {
        "type": type_str(a.type),
        "default": default_text(a),
        "description": a.description,
        "deprecation": a.deprecation_reason,
    }


def _args(args):
    return [[n, _input_value(a)] for n, a in args.items()]


def _fields(fields):
    out = []
    for n, f in fields.items():
        out.append(
            [
                n,
                {
                    "type": type_str(f.type),
                    "args": _args(f.args),
                    "description": f.description,
                    "deprecation": f.deprecation_reason,
                },
            ]
        )
    return out


def type_entry(t) -> dict:
    kind = _kind(t)
    e = {"kind": kind, "description": t.description}
    if kind == "SCALAR":
        e["specified_by"] = t.specified_by_url
    elif kind in ("OBJECT", "INTERFACE"):
        e["interfaces"] = [i.name for i in t.interfaces]
        e["fields"] = _fields(t.fields)
    elif kind == "UNION":
        e["members"] = [m.name for m in t.types]
    elif kind == "ENUM":
        e["values"] = [
            [n, {"description": v.description, "deprecation": v.deprecation_reason}] for n, v in t.values.items()
        ]
    elif kind == "INPUT_OBJECT":
        e["one_of"] = bool(t.is_one_of)
        e["fields"] = [[n, _input_value(f)] for n, f in t.fields.items()]
    return e


def directive_entry(d) -> dict:
    return {
        "description": d.description,
        "repeatable": bool(d.is_repeatable),
        "locations": [getattr(loc, "name", str(loc)) for loc in d.locations],
        "deprecation": getattr(d, "deprecation_reason", None),
        "args": _args(d.args),
    }


def _is_specified_directive(d) -> bool:
    g = _g()
    return any(d is s for s in g.specified_directives)


def _is_builtin_type(t) -> bool:
    g = _g()
    n = getattr(t, "name", "")
    if n.startswith("__"):
        return True
    return n in _BUILTIN_SCALARS and t is g.specified_scalar_types.get(n)


def fingerprint(schema, builtins: bool = False) -> dict:
    fp = {
        "description": schema.description,
        "roots": {
            "query": schema.query_type.name if schema.query_type is not None else None,
            "mutation": schema.mutation_type.name if schema.mutation_type is not None else None,
            "subscription": schema.subscription_type.name if schema.subscription_type is not None else None,
        },
        "types": [],
        "directives": [],
        "specified_directives": [],
    }
    for name, t in schema.type_map.items():
        if _is_builtin_type(t):
            continue
        e = type_entry(t)
        if name != t.name:
            e["name_attribute"] = t.name
        fp["types"].append([name, e])
    for d in schema.directives:
        if _is_specified_directive(d):
            fp["specified_directives"].append(d.name)
        else:
            fp["directives"].append([d.name, directive_entry(d)])
    # the root objects must be the objects of the type map (identity, not just equal names)
    ident = []
    for op, rt in (("query", schema.query_type), ("mutation", schema.mutation_type), ("subscription", schema.subscription_type)):
        if rt is not None and schema.type_map.get(rt.name) is not rt:
            ident.append(op)
    if ident:
        fp["roots_not_in_type_map"] = ident
    if builtins:
        fp["all_type_names"] = list(schema.type_map)
    return fp


# ------------------------------------------------------------------------------- diff


def _is_pairs(x) -> bool:
    return isinstance(x, list) and all(isinstance(i, list) and len(i) == 2 and isinstance(i[0], str) for i in x) and bool(x)


def diff(a, b, limit: int = 6, path: str = "") -> list:
    """Paths at which two fingerprints differ (order differences are reported as such)."""
    out = []
    if a == b:
        return out
    _diff(a, b, path, out, limit)
    return out


def _short(x):
    s = json.dumps(x, ensure_ascii=True, default=repr)
    return s if len(s) <= 160 else s[:157] + "..."


def _diff(a, b, path, out, limit):
    if len(out) >= limit:
        return
    if isinstance(a, dict) and isinstance(b, dict):
        for k in list(a) + [k for k in b if k not in a]:
            if k not in a:
                out.append(f"{path}/{k}: <absent> != {_short(b[k])}")
            elif k not in b:
                out.append(f"{path}/{k}: {_short(a[k])} != <absent>")
            else:
                _diff(a[k], b[k], f"{path}/{k}", out, limit)
            if len(out) >= limit:
                return
        return
    if (_is_pairs(a) or a == []) and (_is_pairs(b) or b == []) and (a or b):
        na, nb = [i[0] for i in a], [i[0] for i in b]
        if na != nb:
            if sorted(na) == sorted(nb):
                out.append(f"{path}<order>: {_short(na)} != {_short(nb)}")
            else:
                only_a = [n for n in na if n not in nb]
                only_b = [n for n in nb if n not in na]
                out.append(f"{path}<names>: only left {_short(only_a)} only right {_short(only_b)}")
        db = dict((i[0], i[1]) for i in b)
        for n, ea in a:
            if n in db:
                _diff(ea, db[n], f"{path}/{n}", out, limit)
                if len(out) >= limit:
                    return
        return
    if a != b:
        out.append(f"{path}: {_short(a)} != {_short(b)}")


def path_class(line: str) -> str:
    """'/types/Foo/fields/bar/description: ..' -> 'types/*/fields/*/description'."""
    p = line.split(": ", 1)[0]
    marker = ""
    for m in ("<order>", "<names>"):
        if p.endswith(m):
            p, marker = p[: -len(m)], m
    parts = [x for x in p.split("/") if x]
    out = []
    keep = {
        "types", "directives", "fields", "args", "values", "roots", "description", "deprecation", "default",
        "type", "kind", "interfaces", "members", "one_of", "specified_by", "repeatable", "locations",
        "specified_directives", "query", "mutation", "subscription", "all_type_names", "roots_not_in_type_map",
        "name_attribute",
    }
    prev_container = False
    for x in parts:
        if prev_container:
            out.append("*")
            prev_container = False
            continue
        out.append(x if x in keep else "*")
        prev_container = x in ("types", "directives", "fields", "args", "values")
    return "/".join(out) + marker


def top_level_entries(fp) -> dict:
    """{'Type': entry, '@dir': entry} for change attribution."""
    d = {n: e for n, e in fp["types"]}
    for n, e in fp["directives"]:
        d["@" + n] = e
    return d
