"""CLI: python -m vf.run <ID> [--tier quick|thorough] [--replay PATH] [--jobs N]"""
import argparse
import os
import sys

from vf.engine import runner


def main():
    ap = argparse.ArgumentParser()
    ap.add_argument("id")
    ap.add_argument("--tier", default=os.environ.get("VERIF_TIER", "quick"), choices=["quick", "thorough"])
    ap.add_argument("--replay")
    ap.add_argument("--jobs", type=int, default=0)
    a = ap.parse_args()
    mod = f"vf.checks.{a.id.lower()}"
    try:
        seed = int(os.environ.get("VERIF_SEED", "0"))
    except ValueError:
        seed = 0
    if a.replay:
        sys.exit(runner.run_replay(mod, a.replay))
    sys.exit(runner.run_check(mod, a.tier, seed, a.jobs or None))


if __name__ == "__main__":
    main()
