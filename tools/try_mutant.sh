#!/bin/bash
# usage: tools/try_mutant.sh <dir-with-patch.diff> <ID> [tier]
# Runs check <ID> against a scratch worktree of /repo with the patch applied (VERIF_REPO_SRC override);
# /repo itself and the committed evidence are not touched. Prints the verdict.
d="$(realpath "$1")"; id="$2"; tier="${3:-quick}"
wt=$(mktemp -d /tmp/mut/try.XXXXXX)
git -C /repo worktree add --detach "$wt" HEAD -q || exit 2
cleanup() { git -C /repo worktree remove --force "$wt" 2>/dev/null; rm -rf "$wt" "$wt.ev"; }
trap cleanup EXIT
git -C "$wt" apply "$d/patch.diff" || { echo "PATCH DOES NOT APPLY"; exit 2; }
mkdir -p "$wt.ev"
cd /verif
out=$(VERIF_REPO_SRC="$wt/src" VERIF_EVIDENCE_DIR="$wt.ev" VERIF_REPLAY_DIR="$wt.ev" ./check "$id" --tier "$tier" 2>&1 | grep -v WARNING)
echo "$out" | grep -E "VIOLATION|signature|summary|ENGINE|tier=" | cut -c1-500 | head -12
if echo "$out" | grep -q "^VIOLATION"; then echo "==> CAUGHT ($d by $id $tier)"; else echo "==> MISSED ($d by $id $tier)"; fi
