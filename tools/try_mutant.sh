#!/bin/bash
# usage: tools/try_mutant.sh <dir-with-patch.diff> <ID> [tier]
# applies the patch to /repo, runs the check, reverts. Prints the verdict.
d="$(realpath "$1")"; id="$2"; tier="${3:-quick}"
cd /repo || exit 2
if [ -n "$(git status --porcelain)" ]; then echo "/repo not clean"; exit 2; fi
git apply "$d/patch.diff" || { echo "PATCH DOES NOT APPLY"; exit 2; }
cd /verif
out=$(./check "$id" --tier "$tier" 2>&1 | grep -v WARNING)
rc=$?
echo "$out" | grep -E "VIOLATION|signature|summary|ENGINE|tier=" | head -12
git -C /repo checkout -- . 
if echo "$out" | grep -q "^VIOLATION"; then echo "==> CAUGHT ($d by $id $tier)"; else echo "==> MISSED ($d by $id $tier)"; fi
