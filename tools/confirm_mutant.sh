#!/bin/bash
# usage: tools/confirm_mutant.sh <agent-output-dir> <seeded-id>
# Independently confirms a seeded change in a scratch worktree (outside /repo and /verif):
#   demo passes on clean tree, patch applies, full test suite passes with it, demo fails with it.
# On success stores it as /verif/seeded/<seeded-id>/ {patch.diff, demo.py, meta.json}.
src="$1"; sid="$2"
wt=$(mktemp -d /tmp/mut/confirm.XXXXXX)
git -C /repo worktree add --detach "$wt" HEAD -q || exit 2
cleanup() { git -C /repo worktree remove --force "$wt" 2>/dev/null; rm -rf "$wt"; }
trap cleanup EXIT
run() { (cd "$wt" && PYTHONPATH="$wt/src" PYTHONDONTWRITEBYTECODE=1 "$@"); }
run /venv/bin/python "$src/demo.py" >/dev/null 2>&1; clean_rc=$?
git -C "$wt" apply "$src/patch.diff" || { echo "$sid: PATCH DOES NOT APPLY"; exit 1; }
tests=$(run /venv/bin/python -m pytest -q -p no:cacheprovider -n 8 2>&1 | tail -1)
run /venv/bin/python "$src/demo.py" >/tmp/mut/confirm.$$.log 2>&1; mut_rc=$?
echo "$sid: clean_demo_rc=$clean_rc mutant_demo_rc=$mut_rc tests='$tests'"
if [ "$clean_rc" = 0 ] && [ "$mut_rc" != 0 ] && echo "$tests" | grep -q "3340 passed" && ! echo "$tests" | grep -q failed; then
  mkdir -p /verif/seeded/$sid
  cp "$src/patch.diff" "$src/demo.py" /verif/seeded/$sid/
  /venv/bin/python - "$src/meta.json" "/verif/seeded/$sid/meta.json" "$tests" "$(git -C /repo rev-parse --short HEAD)" <<'PY'
import json,sys
m=json.load(open(sys.argv[1]))
m["confirmed"]={"base_commit":sys.argv[4],"ran":"scratch worktree: demo.py on clean tree (exit 0); git apply patch.diff; full pytest suite; demo.py (exit !=0)","tests_with_patch":sys.argv[3]}
json.dump(m,open(sys.argv[2],"w"),indent=1)
PY
  echo "$sid: CONFIRMED -> /verif/seeded/$sid"
else
  echo "$sid: NOT CONFIRMED"; tail -5 /tmp/mut/confirm.$$.log
fi
rm -f /tmp/mut/confirm.$$.log
