#!/bin/bash
# usage: tools/run_all_mutants.sh [tier] > seeded/RESULTS.tsv
# Runs every seeded change against the check of its property (and extra checks listed in meta.json "also") in scratch worktrees.
tier="${1:-quick}"
cd /verif
for d in seeded/C*-*/; do
  m=$(basename "$d"); pid=${m%%-*}
  checks="$pid"
  extra=$(python3 -c "import json,sys; print(' '.join(json.load(open('$d/meta.json')).get('also',[])))" 2>/dev/null)
  for c in $checks $extra; do
    [ -f vf/checks/$(echo $c | tr A-Z a-z).py ] || { echo -e "$m\t$c\tNO-CHECK"; continue; }
    out=$(tools/try_mutant.sh "$d" "$c" "$tier" 2>/dev/null)
    verdict=$(echo "$out" | grep -o "==> [A-Z]*" | cut -c5-)
    sig=$(echo "$out" | grep -m1 "signature:" | sed 's/.*signature: //' | cut -c1-120)
    echo -e "$m\t$c\t${verdict:-ERROR}\t$sig"
  done
done
