#!/usr/bin/env python3
"""Regenerate /verif/MANIFEST.json from the check modules that exist (vf/checks/cNN.py).
Properties without a module are listed under not_applicable as 'check not built yet'."""
import importlib
import json
import os
import sys

HERE = os.path.dirname(os.path.dirname(os.path.abspath(__file__)))
sys.path.insert(0, HERE)
props = [json.loads(l) for l in open(os.path.join(HERE, "properties.jsonl"))]
checks, na = [], []
for p in props:
    pid = p["id"]
    path = os.path.join(HERE, "vf", "checks", pid.lower() + ".py")
    if not os.path.exists(path) or pid in os.environ.get("MANIFEST_SKIP", "").split(","):
        na.append({"property_id": pid, "reason": "check not built yet (planned in DESIGN.md section 2, model checking applies)"})
        continue
    src = open(path).read()
    ns = {}
    # read the metadata without importing graphql
    mod = importlib.import_module(f"vf.checks.{pid.lower()}")
    checks.append({
        "property_id": pid,
        "quick_cmd": f"./check {pid} --tier quick",
        "thorough_cmd": f"./check {pid} --tier thorough",
        "evidence_file": f"/verif/evidence/{pid}.json",
        "replay_cmd_template": f"./check {pid} --replay {{path}}",
        "engine": "vf",
        "level_claimed": {
            "category": "model_checking",
            "text": getattr(mod, "LEVEL_TEXT", None) or (
                "Bounded exhaustive exploration of the real implementation: " + mod.RULE),
            "design_ref": f"DESIGN.md section 2, {pid}",
        },
        "level_note": "; ".join(getattr(mod, "ASSUMPTIONS", [])) or "small-scope hypothesis within the stated bounds",
        "technique": getattr(mod, "TECHNIQUE", "explicit bounded-exhaustive enumeration of inputs/schedules on the real code against an independent reference model"),
    })
man = {
    "version": 1,
    "setup_cmd": "mkdir -p /verif/evidence /verif/replays && /venv/bin/python -c 'import sys; sys.path.insert(0, \"/repo/src\"); import graphql'",
    "hooks": {
        "guard": "GRAPHQL_CORE_VERIF",
        "enable": "no source hooks are needed; ./check exports GRAPHQL_CORE_VERIF=1 and PYTHONPATH=/repo/src (working tree, nothing to build)",
        "baseline_off_cmd": "cd /repo && /venv/bin/python -m pytest -q -p no:cacheprovider --timeout=900",
        "source_commits": [],
        "add_only": True,
    },
    "engines": [{
        "name": "vf",
        "path": "/verif/vf",
        "serves_properties": [c["property_id"] for c in checks],
        "kind_free_text": "hand-written stateless explorer: deviation-bounded choice-tree DFS (vf/engine/choice.py), hand-stepped asyncio loop with gates (vf/engine/vloop.py), bounded-exhaustive input enumerators, independent reference models (vf/ref)",
    }],
    "checks": checks,
    "not_applicable": na,
    "notes": "See DESIGN.md. known_findings.json lists repaired (fix:) and recorded defects.",
}
json.dump(man, open(os.path.join(HERE, "MANIFEST.json"), "w"), indent=1)
print(f"{len(checks)} checks, {len(na)} not built")
