#!/usr/bin/env python3
"""Print the prompt given to an independent sub-agent that seeds a property-breaking change.
Only the property text and a scratch worktree path are given - nothing from /verif."""
import json, sys
pid = sys.argv[1]
n = sys.argv[2] if len(sys.argv) > 2 else "2"
p = next(json.loads(l) for l in open('/verif/properties.jsonl') if json.loads(l)['id'] == pid)
wt = f"/tmp/mut/{pid}"
out = f"/tmp/mut/out/{pid}"
print(f"""You are helping to evaluate a verification effort for the Python library graphql-core (a port of GraphQL.js). Your job: craft {n} different, *realistic, subtle* source changes ("seeded bugs") to the library that each BREAK the semantic property below while the library still imports and its whole existing test suite still passes.

Your scratch git worktree of the repository is {wt} (work ONLY there; never touch /repo or /verif, do not read /verif). Run python as:  cd {wt} && PYTHONPATH={wt}/src /venv/bin/python ...   (this makes `import graphql` use your worktree; check graphql.__file__ once).
Full test suite (about 30 s): cd {wt} && PYTHONPATH={wt}/src /venv/bin/python -m pytest -q -p no:cacheprovider -n 8 -x 2>&1 | tail -5   -- it must report 3340 passed with your change applied. While iterating, run only the relevant test files; run the full suite once per final candidate. There is no network.

THE PROPERTY ({pid}: {p['title']})
Statement: {p['statement']}
Quantified over: {p['quantifier']['text']}
Code it is anchored in: {', '.join(p['anchors']['files'])}
Mechanisms: {'; '.join(m['name'] + ' (' + m['where'] + ')' for m in p['anchors'].get('mechanism', []))}

REQUIREMENTS for each change
- It is a plausible mistake or "optimisation" a maintainer could make (an off-by-one, a cache key that is too coarse, a branch condition narrowed/widened, a missing await/cancel, an ordering slip, a dropped attribute on one path, two sites that each look fine alone...). Not a deliberate `if input == X` trap, no new imports of random/time, no debugging code.
- It must need something SPECIFIC to manifest - a particular interleaving / completion order, a fault at a particular point, a multi-step sequence of operations, an unusual input shape, or two cooperating sites - NOT something that ordinary everyday use would expose at once. Since the full test suite must still pass, it must slip between the existing tests.
- It violates the property as stated (not merely changes an error message's wording or performance).
- It must keep the library importable, and the FULL test suite must still pass (3340 passed).
- The {n} changes should be independent of each other (different code sites / mechanisms) and each is delivered as its own patch against the unmodified worktree (save each with `git diff > file`, then `git checkout -- .`; do NOT use `git stash` - the stash is shared between all worktrees of the repository and other people are working in sibling worktrees).

DELIVERABLES - write them under {out}/<k>/ for k = 1..{n}:
- patch.diff : output of `git -C {wt} diff` for that change alone (applies with `git apply` to a clean checkout of the same commit).
- demo.py : a small standalone program that uses only the public or internal API of graphql-core (plus asyncio if needed) and exits 0 with the unmodified library but exits non-zero (assertion failure with a clear message) when the change is applied. It must be deterministic.
- meta.json : {{"property": "{pid}", "title": "<one line>", "what_breaks": "<which clause of the property and how>", "needs": "<what specific input/schedule/sequence is needed to manifest>", "files": [...], "tests_passed": "<the tail line of the full pytest run with the change applied>"}}
Verify yourself before finishing: with the change applied the full suite passes and demo.py fails; with the change reverted demo.py passes. Leave the worktree clean (git checkout -- . ) at the end. Keep your exploration economical: read the anchored code, pick sites, implement, verify. Finish with a two-line summary per change.""")
