"""Writes the table of DESIGN.md 4.5 from seeded/*/meta.json, seeded/RESULTS.tsv and the notes below."""
import glob
import json
import os

HERE = os.path.dirname(os.path.dirname(os.path.abspath(__file__)))
# seeded change -> what had to be added before the check caught it (empty = caught by the check as it stood)
STRENGTHENED = {
    "C01-3": "escape-pair family (lead surrogate followed by an escape >= E000 was in no enumerated string)",
    "C02-2": "atom family S1n: one field node executed on two runtime types whose argument defaults differ",
    "C02-3": "custom scalar with the literal-coercion API + variables with defaults inside untyped object literals",
    "C02-4": "custom scalar whose output coercion returns None + data fault 'unserializable'",
    "C02-6": "explicit null for optional input-object fields in variable values (valid_inputs, atom variable menu)",
    "C03-1": "failing awaitable non-null subfield below awaitable list items (request item_error)",
    "C03-2": "merged field groups over abstract types (requests merged_abstract / merged_union)",
    "C03-4": "coroutine resolvers with a life time (start / await / finally that needs a loop turn) + seriality oracle on them",
    "C03-5": "request rt_ito_reject (resolve_type names a type whose is_type_of refuses), judged against sync execution",
    "C03-6": "request is_type_of_err (item error below an awaitable is_type_of)",
    "C04-1": "rebased after the publisher fix; request shared_nested_fail",
    "C04-2": "request abstract_stream (same field streamed in two inline fragments of an abstract type)",
    "C04-3": "oracle: a fragment completed without errors must have delivered all of its own fields; request shared_nested_healthy",
    "C04-4": "requests defers_in_list_in_defer / nested_defers_in_list + generated defer/stream placement family",
    "C05-2": "stream scripts with an explicit source-end step after a pending item",
    "C05-3": "nested stream inside stream items in the component graphs (distinct nested lists)",
    "C05-6": "requests skip_generation / skip_generation_dedup",
    "C06-2": "work tracked while the hook waits: async failing resolvers in the background (plain_bg requests)",
    "C06-4": "request nested_stream_item_fails (async failing non-null stream item with nested stream)",
    "C06-5": "source form ':aiterable' (iterable != iterator) with a never-firing abort signal",
    "C07-3": "source kind iter_aclose_raises",
    "C07-4": "resolver reading info.root_value (document with field fromroot)",
    "C07-5": "source kind iterable_fresh + never-firing abort signal as a free dimension",
    "C07-6": "root_value given to subscribe() as a free dimension (payload None)",
    "C09-2": "block-string bodies through strip_ignored_characters (blockstrip family)",
    "C09-3": "token-sequence adjacency family (empty string next to block string ...)",
    "C10-1": "block-string family: token line/column after inner CR / LF / CR LF",
    "C10-3": "offsets inside a CR LF pair (defined as the last column of the line)",
    "C12-3": "seeds with fragments defined before the operation + reversed definition order",
    "C12-5": "seeds with a fragment name defined twice using different variables",
    "C12-6": "history family: (A, B) validated in order on one schema object vs a never-used one",
    "C13-1": "variables inside list literals with the nullable / non-null twin declaration (free 'var' dimension)",
    "C13-2": "caught by C14 (FieldsInSetCanMerge equivalence) - not a C13 observable on the enumerated documents",
    "C13-3": "caught by C02 (same fragment spread twice under different directives) - execution semantics, not validation",
    "C13-4": "object literals in list-typed positions (list-of-object arguments in schema S2)",
    "C13-5": "caught by C03 (mixed sync/awaitable is_type_of assignment); C13 executes synchronously",
    "C13-6": "two-operation family (same variable name declared differently)",
    "C14-4": "list-of-object arguments in the Dog menus",
    "C15-3": "OneOf field with out_name",
    "C17-3": "line-level description strings (indentation x words) ; also C08",
    "C17-4": "schemas in which one GraphQLDefaultInput object is shared by inputs of different types",
    "C17-6": "input type with a non-null field that has its own default (left out of every value)",
    # wave 4
    "C01-5": "caught by C14 (fragment-pair memo); the C01 request family has no three-fragment cycle first compared under exclusive parents",
    "C02-7": "caught by C15 (shared default object across wrappings x application orders)",
    "C03-8": "request item_error_nonnull_items (asynchronously failing item below [T!], items given synchronously)",
    "C06-9": "",
    "C07-8": "payload with a non-null failure next to an asynchronously failing sibling; leftover gates completed before the leak check",
    "C07-9": "source kind iter_aclose_truthy (aclose() returns a truthy value)",
    "C08-7": "long strings around the 70/80 character thresholds, both literal forms in both orders within one process",
    "C09-7": "hand documents with every literal kind followed by every token kind (float literals need 2 grammar deviations)",
    "C11-6": "kind-specific handlers verify the kind of the node they are given (all handlers used to be one function)",
    "C11-7": "action 'same': the handler returns the very node object it was given",
    "C13-8": "caught by C14 - same change as C13-2 at another site",
    "C13-9": "caught by C02 - same change as C13-3",
    "C14-7": "argument-equality family: ordered pairs of 40 argument forms (keys differing only in case, numbered keys) x 3 positions",
    "C15-5": "fragment-variable scoping states (fragment declares $v: absent / null / valid) for every variable-bearing literal",
    "C15-6": "one GraphQLDefaultInput shared by 5 wrappings of a type x every application order (120) x value/literal entry",
    "C15-7": "non-dict mappings (MappingProxyType, ChainMap, UserDict, custom Mapping ...) in every input-object position",
    "C16-5": "NOT CAUGHT on purpose: the reference reads a value-less member as 'the name is the value', under which both answers are legal (4.2)",
    "C17-9": "Int defaults given as integral Python floats (25.0, 1e3); reference fingerprint corrected to accept them",
    "C18-6": "programmatic schema with value-based partial object defaults (non-null field with own default left out)",
    "C18-7": "SDL schemas with delicate string defaults (tab / space led block strings, > 70 characters, trailing quote / backslash); also C08, C17",
    "C20-7": "build mode split_base_av: base built with assume_valid=True, then extended",
    "C20-8": "five request shapes (syntax error, empty, invalid, unknown operation, bad variables) against every invalid schema",
    # wave 5
    "C04-11": "same change as C04-2 (third independent delivery)",
    "C06-10": "request failing_defer_owns_streaming_child (a failing deferred fragment whose nested fragment completed early and owns a stream)",
    "C12-11": "seeds with a forbidden @skip / @include on a subscription root field, alone and next to a second subscription (max_errors prefix law)",
    "C19-10": "NOT CAUGHT: directive extensions (experimental) that target a SPECIFIED directive are not in the extension menu; on the clean tree extend_schema applies such an extension while build_schema(A+B) drops it (reported, not repaired), so the extend-equals-build oracle cannot be applied to them yet",
    "C20-3": "schemas derived (to_kwargs / sort / extend) from an already validated invalid schema",
    "C20-5": "default cycles through lists nested inside a default object (3 entries + 1 legal near miss)",
}


def main():
    res = {}
    path = os.path.join(HERE, "seeded", "RESULTS.tsv")
    for line in open(path):
        f = line.rstrip("\n").split("\t")
        if len(f) >= 3:
            res.setdefault(f[0], []).append((f[1], f[2], f[3] if len(f) > 3 else ""))
    rows = []
    for d in sorted(glob.glob(os.path.join(HERE, "seeded", "C*-*"))):
        m = os.path.basename(d)
        meta = json.load(open(os.path.join(d, "meta.json")))
        got = [f"{c}: `{sig[:70]}`" for c, v, sig in res.get(m, []) if v == "CAUGHT"]
        missed = [c for c, v, sig in res.get(m, []) if v != "CAUGHT"]
        verdict = "; ".join(got) if got else "NOT CAUGHT"
        if got and missed:
            verdict += f" (not by {', '.join(missed)})"
        files = ", ".join(os.path.basename(x) for x in meta.get("files", []))[:60]
        rows.append(f"| {m} | {files} | {meta['title'][:150]} | {verdict} | {STRENGTHENED.get(m, '')} |")
    print("| id | file | change | caught by (quick tier): first signature | added before it was caught |")
    print("|---|---|---|---|---|")
    print("\n".join(rows))


if __name__ == "__main__":
    main()
