import asyncio, sys, gc, itertools, collections
from asyncio import events
from graphql import *
from graphql.execution import experimental_execute_incrementally, ExecutionHooks
from graphql.pyutils import AbortController
exec(open('p9.py').read().split("schema = build_schema")[0])
schema = build_schema("""
directive @defer(if: Boolean = true, label: String) on FRAGMENT_SPREAD | INLINE_FRAGMENT
directive @stream(if: Boolean = true, label: String, initialCount: Int = 0) on FIELD
type User { id: ID name: String nn: String! friends: [User] }
type Query { me: User other: User }
""")
doc = parse('{ me { id name ... @defer(label:"d") { name friends @stream(label:"s") { id name } } } }')

def run(script, early):
    loop=VLoop(); events._set_running_loop(loop)
    closes=[]; hook=[]
    try:
        gates=[]
        def gate(label,val):
            f=loop.create_future(); gates.append((label,f,val)); return f
        async def friends(info):
            try:
                for i in range(2):
                    v = await gate(f'src{i}', {'id': str(i), 'name': (lambda info,i=i: gate(f'n{i}','N'))})
                    yield v
            finally:
                closes.append('friends')
        u={'id':'1','name':lambda info: gate('name','N1'),'friends':friends}
        ctl=AbortController()
        out=[]
        async def main():
            r=experimental_execute_incrementally(schema,doc,{'me':u},enable_early_execution=early, abort_signal=ctl.signal,
                  hooks=ExecutionHooks(async_work_finished=lambda info: hook.append(
                      (len(info.executor.background_futures), len(info.executor.pending_incremental_futures),
                       [t.get_coro().__qualname__ for t in asyncio.all_tasks(loop) if not t.done() and t is not mt]))))
            if hasattr(r,'__await__'): r=await r
            if isinstance(r,ExecutionResult): out.append(r.formatted); return 'single'
            out.append(r.initial_result.formatted)
            it=r.subsequent_results
            while True:
                act = await gate('pull', None)
                try: p=await anext(it)
                except StopAsyncIteration: return 'end'
                out.append(p.formatted)
        mt=loop.create_task(main())
        loop.drain()
        trace=[]
        for act in script:
            if mt.done(): break
            openg=[g for g in gates if not g[1].done()]
            if act[0]=='g':
                cand=[g for g in openg if g[0]!='pull']
                if act[1]>=len(cand): return None
                cand[act[1]][1].set_result(cand[act[1]][2]); trace.append(cand[act[1]][0])
            elif act[0]=='pull':
                cand=[g for g in openg if g[0]=='pull']
                if not cand: return None
                cand[0][1].set_result('go'); trace.append('pull')
            elif act[0]=='abort':
                ctl.abort(ValueError('stop')); trace.append('abort')
            loop.drain()
        loop.drain(); gc.collect(); loop.drain()
        pend=[t for t in asyncio.all_tasks(loop) if not t.done() and t is not mt]
        openg=[g[0] for g in gates if not g[1].done()]
        canc=[g[0] for g in gates if g[1].cancelled()]
        if mt.done():
            e = mt.exception()
            res = ('EXC', type(e).__name__, str(e)) if e else mt.result()
        else: res='PENDING'
        return trace,res,len(out),[t.get_coro().__qualname__ for t in pend],openg,canc,list(closes),list(hook),loop.errs
    finally:
        for t in asyncio.all_tasks(loop): t.cancel()
        try: loop.drain()
        except Exception: pass
        events._set_running_loop(None); loop.close()

seen=collections.Counter()
acts=[('g',0),('g',1),('pull',),('abort',)]
n=0
for early in (False,True):
  for L in range(1,7):
    for script in itertools.product(acts,repeat=L):
        if script[-1]!=('abort',) : continue
        if ('abort',) in script[:-1]: continue
        r=run(list(script),early)
        if r is None: continue
        n+=1
        trace,res,nout,pend,openg,canc,closes,hook,errs=r
        key=(res if isinstance(res,str) else res[:2], bool(pend), tuple(openg)!=(), len(hook), tuple(h[:2] for h in hook), tuple(bool(h[2]) for h in hook), tuple(closes), bool(errs))
        if seen[key]==0: print(early, trace, '->', res, 'pending tasks', pend, 'open', openg, 'cancelled', canc, 'closes', closes, 'hook', hook, errs)
        seen[key]+=1
print(n); 
for k,v in seen.items(): print(v,k)
