import asyncio, sys, gc
from asyncio import events
from graphql import *
import graphql.execution.executor as ex
from graphql.execution.collect_fields import FieldDetails

class VLoop(asyncio.BaseEventLoop):
    def __init__(self):
        super().__init__(); self._vt=0.0
    def time(self): return self._vt
    def _process_events(self, ev): pass
    def _write_to_self(self): pass

class IdAdversary:
    """virtual addresses for objects passed to id() inside a module"""
    def __init__(self, reuse_plan=None):
        self.objs = {}      # real id -> (obj, vid)
        self.order = []     # real ids in first-seen order
        self.next = 1000
        self.reuse_plan = reuse_plan or {}   # nth new object -> reuse vid of dead object index
        self.new_count = 0
        self.log = []
    def dead(self, obj):
        # refs: self.objs tuple + local 'obj' in caller frames + getrefcount arg
        return sys.getrefcount(obj) <= 4
    def __call__(self, obj):
        rid = id(obj)
        ent = self.objs.get(rid)
        if ent is not None:
            return ent[1]
        n = self.new_count; self.new_count += 1
        vid = None
        if n in self.reuse_plan:
            deads = [ (o, v) for (o, v) in self.objs.values() if type(o) is type(obj) and self.dead(o)]
            k = self.reuse_plan[n]
            if k < len(deads):
                vid = deads[k][1]
                self.log.append(('reuse', n, k))
        if vid is None:
            vid = self.next; self.next += 1
        self.objs[rid] = (obj, vid)
        return vid
    def dead_candidates(self, typ):
        return [v for (o, v) in self.objs.values() if type(o) is typ and self.dead(o)]

schema = build_schema("""
type User { id: ID name: String bestFriend: User }
type Query { a: User b: User c: User me: User slow: User }
""")
u = {'id':'1','name':'N'}; u['bestFriend'] = {'id':'2','name':'BF','bestFriend':None}
doc = parse("{ me{id} slow{bestFriend{name}} }")

def run(plan):
    adv = IdAdversary(plan)
    ex.id = adv
    loop = VLoop(); events._set_running_loop(loop)
    try:
        gates=[]
        def slow(info):
            f = loop.create_future(); gates.append(f); return f
        root = {'me':u,'slow':slow}
        out=[]
        async def main():
            out.append(await execute(schema, doc, root))
        t = loop.create_task(main())
        cands_at_release = None
        while not t.done():
            while loop._ready:
                h = loop._ready.popleft()
                if not h._cancelled: h._run()
            if t.done(): break
            gc.collect()
            cands_at_release = adv.dead_candidates(FieldDetails)
            gates.pop(0).set_result(u)
        return out[0], adv.log, adv.new_count, cands_at_release
    finally:
        events._set_running_loop(None)
        del ex.id

print(run({}))
for n in range(6):
    for k in range(3):
        r = run({n:k})
        if r[1]: print(n, k, r[0].data, r[1], r[3])
