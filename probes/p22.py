"""probe: extend_schema(build(A), B) == build(A+B); sort laws; self-diff (C19)"""
import itertools, collections
from graphql import *
from graphql.utilities import find_schema_changes, lexicographic_sort_schema
A = '''
directive @d(a: Int = 1) repeatable on FIELD | OBJECT | SCHEMA | SCALAR | ENUM | UNION | INTERFACE | INPUT_OBJECT | FIELD_DEFINITION
type Query { t: T n: N u: U e(e: E = X): E s: S i(i: In = {p: 1}): Int }
type T implements N { id: ID! z: Int a: Int }
interface N { id: ID! }
interface M { m: Int }
union U = T
enum E { X Y }
scalar S
input In { p: Int = 2 }
'''
ext = [
 'extend type T { x(a: In = {p: 5}): [T!] @deprecated }',
 'extend type T implements M { m: Int }',
 'extend type T @d',
 'extend interface N { extra: String }  extend type T { extra: String }',
 'extend interface N implements M { m: Int } extend type T implements M { m: Int }',
 'extend union U = V  type V { v: Int }',
 'extend union U @d',
 'extend enum E { Z @deprecated(reason: "r") }',
 'extend enum E @d',
 'extend scalar S @specifiedBy(url: "x")',
 'extend input In { q: [In!] = [{p: 3}] }',
 'extend input In @d',
 'extend schema { mutation: Mu }  type Mu { m: Int }',
 'extend schema @d',
 'extend type Query { more: V2 }  type V2 { v: Query }',
 'directive @e(x: E = Y) on QUERY',
 '"""desc\n  indented""" type W implements N { id: ID! }',
 'extend type Query { w(a: E! = Y, b: [Int] = [1, 2]): Int }',
 'input J @oneOf { a: Int b: In }  extend type Query { j(j: J): Int }',
]
def fp(s): return print_schema(s)
bad=collections.Counter(); n=0
base=build_schema(A); base_print=fp(base)
for k in (0,1,2):
    for combo in itertools.permutations(ext,k):
        B='\n'.join(combo); n+=1
        try:
            whole=build_schema(A+'\n'+B)
        except Exception as e:
            bad[('build fails',str(e)[:50])]+=1; continue
        if not B.strip():
            if extend_schema(base, parse('fragment F on T { id }'), assume_valid_sdl=True) is not base and extend_schema(base, parse('fragment F on T { id }')) is not base: bad['noop not identity']+=1
            continue
        try:
            ex=extend_schema(base, parse(B))
        except Exception as e:
            bad[('extend fails',str(e)[:60])]+=1; continue
        if fp(ex)!=fp(whole): bad['print differs']+=1; print(B); print(fp(ex)); print(fp(whole)); break
        if find_schema_changes(ex,whole) or find_schema_changes(whole,ex): bad['changes']+=1
        if fp(base)!=base_print: bad['original mutated']+=1
        if validate_schema(ex): bad['invalid']+=1
        so=lexicographic_sort_schema(ex)
        if find_schema_changes(ex,so) or find_schema_changes(so,ex): bad['sort changes']+=1
        if fp(lexicographic_sort_schema(so))!=fp(so): bad['sort not idempotent']+=1
        if find_schema_changes(ex,ex): bad['self diff']+=1
print(n,dict(bad))
