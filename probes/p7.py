from graphql import *
s = build_schema("type Query { f: Int g: [Int] }")
class BadStr(Exception):
    def __str__(self): raise RuntimeError("no str")
class MsgAttr(Exception):
    message = 42
class MsgProp(Exception):
    @property
    def message(self): raise ValueError("boom")
class WithSource(Exception):
    source = 17; positions = "x"; nodes = 5
class Ext(Exception):
    extensions = {"a": object()}
class Pos(Exception):
    source = "abc"; positions = [100]
for E in [BadStr, MsgAttr, MsgProp, WithSource, Ext, Pos, KeyError, StopIteration, RecursionError, UnicodeError, SyntaxError, OSError, AssertionError, lambda: GraphQLError("x", positions=[5]), lambda: GraphQLSyntaxError(Source("ab"), 7, "d")]:
    def res(_src, _info): raise E()
    try:
        r = graphql_sync(s, "{ f }", field_resolver=res)
        try:
            f = r.formatted
            st = [str(e) for e in r.errors or []]
            print(getattr(E,'__name__',E), 'ok', f)
        except Exception as e:
            print(getattr(E,'__name__',E), 'FORMAT/STR RAISED', type(e).__name__, e)
    except BaseException as e:
        print(getattr(E,'__name__',E), 'RAISED', type(e).__name__, e)
