import asyncio, sys, itertools, time
from asyncio import events
from graphql.execution.incremental.work_queue import WorkQueue, Work, WorkTask, WorkResult
from graphql.execution.incremental.computation import Computation
from graphql.execution.incremental.incremental_executor import DeliveryGroup, ExecutionGroup, ExecutionGroupValue
from graphql.execution.incremental.incremental_publisher import IncrementalPublisher
from graphql.pyutils import Path

class VLoop(asyncio.BaseEventLoop):
    def __init__(self): super().__init__(); self._vt=0.0
    def time(self): return self._vt
    def _process_events(self, ev): pass
    def _write_to_self(self): pass
    def drain(self):
        n=0
        while self._ready:
            h=self._ready.popleft()
            if not h._cancelled: h._run()
            n+=1
        return n

class Ctx:
    abort_signal=None
    def abort_error(self): return RuntimeError()
    async def cancel_incremental_work(self, reason=None): pass
    def run_async_work_finished_hook(self): self.hook = getattr(self,'hook',0)+1

def scenario(order, fail):
    loop=VLoop(); events._set_running_loop(loop)
    gens=[]
    sys.set_asyncgen_hooks(firstiter=gens.append)
    try:
        g0=DeliveryGroup(None,'g0',None); g1=DeliveryGroup(Path(None,'a',None),'g1',g0)
        gates={}
        def mk(name, groups, path):
            def fn():
                f=loop.create_future(); gates[name]=f; return f
            return ExecutionGroup(groups, Computation(fn), path)
        t0=mk('t0',[g0],None); t1=mk('t1',[g0,g1],Path(None,'a',None)); t2=mk('t2',[g1],Path(None,'a',None))
        pub=IncrementalPublisher(); ctx=Ctx()
        res=pub.build_response({'a':{}},None,Work([g0,g1],[t0,t1,t2],[]),ctx)
        out=[res.initial_result.formatted]
        async def consume():
            async for p in res.subsequent_results: out.append(p.formatted)
        c=loop.create_task(consume())
        loop.drain()
        for i,name in enumerate(order):
            if name not in gates: loop.drain()
            if name in gates and not gates[name].done():
                if name==fail: gates[name].set_exception(ValueError('x'))
                else:
                    t={'t0':t0,'t1':t1,'t2':t2}[name]
                    gates[name].set_result(WorkResult(ExecutionGroupValue(t.groups, t.path.as_list() if t.path else [], {name:1})))
            loop.drain()
        return out, c.done(), sorted(gates), [g.ag_frame is None for g in gens], ctx.__dict__
    finally:
        events._set_running_loop(None); sys.set_asyncgen_hooks(firstiter=None)
seen=set()
for order in itertools.permutations(['t0','t1','t2']):
    for fail in [None,'t0','t1','t2']:
        r=scenario(order,fail)
        print(order,fail,r[1:], len(r[0]))
        seen.add(repr(r[0]))
print(len(seen))
print(r[0])
