import itertools
from graphql import *
from graphql.pyutils import Undefined
from graphql.utilities.coerce_input_value import coerce_input_literal
from graphql.validation import ValuesOfCorrectTypeRule
tys = ['Int','Float','String','Boolean','ID','E','I','O','U']
wr = ['%s','%s!','[%s]','[%s!]','[%s]!','[[%s]]','[%s!]!']
fields = '\n'.join(f'  f{i}_{j}(a: {w % t}): Int' for i,t in enumerate(tys) for j,w in enumerate(wr))
schema = build_schema('scalar U\nenum E { A B }\ninput I { a: Int = 1, b: [E!], c: I, d: String! }\ninput O @oneOf { x: Int, y: String, z: I }\ntype Query {\n'+fields+'\n}')
lits = ['null','1','-1','2147483647','2147483648','-2147483649','1.0','1.5','1e400','""','"a"','"1"','true','A','C','a','[]','[1]','[null]','[1, null]','[[1]]','["a", 1]','{}','{d: "s"}','{d: null}','{d: "s", a: null}','{d: "s", q: 1}','{d: "s", b: [A]}','{d: "s", b: A}','{d: "s", b: [A, null]}','{d: "s", c: {d: "t"}}','{d: "s", c: {}}','{x: 1}','{x: null}','{x: 1, y: "s"}','{z: {d: "q"}}','{z: {}}','{x: "s"}','[{d: "s"}]','[{}]', '{d: "s", d: "t"}', '{x: 1, x: 2}']
bad=0; n=0
for i,t in enumerate(tys):
    for j,w in enumerate(wr):
        ty = schema.query_type.fields[f'f{i}_{j}'].args['a'].type
        for lit in lits:
            doc = parse('{ f%d_%d(a: %s) }' % (i,j,lit))
            errs = validate(schema, doc, [ValuesOfCorrectTypeRule])
            node = doc.definitions[0].selection_set.selections[0].arguments[0].value
            try:
                c = coerce_input_literal(node, ty)
            except Exception as e:
                print('RAISED', ty, lit, type(e).__name__, e); bad+=1; continue
            n+=1
            if (c is Undefined) != bool(errs):
                bad+=1; print('DISAGREE', ty, lit, c, [e.message for e in errs])
print(n, 'bad', bad)
