import asyncio, collections, itertools, time, gc, sys
from asyncio import events
from graphql import *
from graphql.execution import experimental_execute_incrementally

class VLoop(asyncio.BaseEventLoop):
    def __init__(self):
        super().__init__()
        self._vtime = 0.0
        self.errors = []
        self.set_exception_handler(lambda loop, ctx: self.errors.append(ctx))
    def time(self): return self._vtime
    def _process_events(self, ev): pass
    def _write_to_self(self): pass
    def step(self):
        """run exactly one ready handle"""
        h = self._ready.popleft()
        if not h._cancelled:
            h._run()
    def ready(self): return len(self._ready)

schema = build_schema("""
directive @defer(if: Boolean = true, label: String) on FRAGMENT_SPREAD | INLINE_FRAGMENT
directive @stream(if: Boolean = true, label: String, initialCount: Int = 0) on FIELD
type User { id: ID name: String friends: [User] }
type Query { me: User other: User }
""")
doc = parse('{ me { id ... @defer { name friends @stream { id } } } other { ... @defer(label:"o") { name } } }')

def run(order):
    loop = VLoop()
    events._set_running_loop(loop)
    try:
        gates = []
        def gate(val):
            f = loop.create_future(); gates.append((f, val)); return f
        u2 = {'id': '2', 'name': lambda info: gate('N2')}
        u = {'id': '1', 'name': lambda info: gate('N1'), 'friends': [u2, u2]}
        root = {'me': u, 'other': lambda info: gate(u2)}
        out = []
        async def main():
            r = experimental_execute_incrementally(schema, doc, root)
            if asyncio.iscoroutine(r) or hasattr(r, '__await__'):
                r = await r
            if isinstance(r, ExecutionResult):
                out.append(r.formatted); return
            out.append(r.initial_result.formatted)
            async for p in r.subsequent_results:
                out.append(p.formatted)
        t = loop.create_task(main())
        steps = 0
        oi = 0
        while not t.done():
            while loop.ready():
                loop.step(); steps += 1
            if t.done(): break
            pend = [g for g in gates if not g[0].done()]
            if not pend:
                raise RuntimeError('deadlock')
            k = order[oi] % len(pend) if oi < len(order) else 0
            oi += 1
            f, v = pend[k]
            f.set_result(v)
        while loop.ready(): loop.step()
        left = [x for x in asyncio.all_tasks(loop) if not x.done()]
        return out, steps, len(left), loop.errors
    finally:
        events._set_running_loop(None)

t0 = time.time()
outs = set()
n = 0
for order in itertools.product(range(4), repeat=5):
    o, steps, left, errs = run(order)
    outs.add(repr(o)); n += 1
print(n, 'runs', time.time()-t0, 's', len(outs), 'distinct outputs', steps, left, errs)
for o in list(outs)[:3]: print(o)
