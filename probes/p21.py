"""probe: validate_schema / graphql_sync never raise on rule-violating schemas (C20 robustness half), and extend==build (C19)"""
import itertools, collections, traceback
from graphql import *
from graphql.utilities import find_schema_changes, lexicographic_sort_schema
base = {
 'Query': 'type Query { a(x: In = {p: 1}, e: E = X, s: S): T  n: N  u: U }',
 'T': 'type T implements N { id: ID!  t(i: Int! = 1): [T!] }',
 'N': 'interface N { id: ID! }',
 'M': 'interface M implements N { id: ID!  m: Int }',
 'U': 'union U = T | V',
 'V': 'type V implements M & N { id: ID!  m: Int }',
 'E': 'enum E { X Y @deprecated }',
 'S': 'scalar S @specifiedBy(url: "u")',
 'In': 'input In { p: Int = 2  q: [In!]  r: E = Y }',
 'O': 'input O @oneOf { a: Int  b: In }',
 'd': 'directive @d(a: In = {p: 3}) repeatable on FIELD | OBJECT',
}
# violations: replace one definition by a broken variant
viol = {
 'Query': ['type Query', 'type Query { a(x: T = 1): Int }', 'type Query { a(x: T = {id: 1}): Int }', 'type Query { a(x: U = null): Int }', 'type Query { a(x: N = "s"): Int }', 'type Query { a: In }', 'type Query { a(x: In = {p: "s"}): Int }', 'type Query { a(x: In = {zz: 1}): Int }', 'type Query { a(x: In = 5): Int }',
           'type Query { a(x: [T] = [1]): Int }', 'type Query { a(x: T! = 1): Int }', 'type Query { __a: Int }', 'type Query { a(__x: Int): Int }', 'type Query { a(x: Int! @deprecated): Int }', 'type Query { a(x: E = Z): Int }', 'type Query { a(x: O = {a: 1, b: null}): Int }', 'type Query { a(x: O = {}): Int }', 'type Query { a(x: S = {a: [1, {b: $v}]}): Int }' ],
 'T': ['type T implements N { t: Int }', 'type T implements N { id: ID }', 'type T implements N { id(x: Int!): ID! }', 'type T implements N & N { id: ID! }', 'type T implements U { id: ID! }', 'type T implements T { id: ID! }', 'type T implements M { id: ID! m: Int }', 'type T implements N { id: ID! @deprecated }', 'type T implements N { id: ID! t(i: In = {q: [{p: "x"}]}): Int }'],
 'N': ['interface N', 'interface N implements N { id: ID! }', 'interface N implements M { id: ID! m: Int }', 'interface N { id(a: Int): ID! }', 'interface N { id: In }'],
 'U': ['union U', 'union U = T | T', 'union U = T | N', 'union U = E', 'union U = T | In'],
 'E': ['enum E', 'enum E { __X }'],
 'In': ['input In', 'input In { p: T }', 'input In { p: In! }', 'input In { p: Int  q: Other! } input Other { i: In! }', 'input In { p: In = {} }', 'input In { p: In = {p: {}} }', 'input In { p: [In!] = [{}] }', 'input In { p: Int = "s" }', 'input In { p: Int! @deprecated }', 'input In { p: In = {p: null}  q: N = 1 }', 'input In { p: U = {a: 1} }'],
 'O': ['input O @oneOf { a: Int! }', 'input O @oneOf { a: Int = 1 }', 'input O @oneOf { a: T = 1 }', 'input O @oneOf'],
 'd': ['directive @d(a: T = 1) on FIELD', 'directive @d(a: Int! @deprecated) on FIELD', 'directive @__d on FIELD', 'directive @d(a: In = {p: [1]}) on FIELD', 'directive @d(a: N = {}) on FIELD'],
 'schema': ['schema { query: N }', 'schema { query: Query mutation: Query }', 'schema { query: In }', 'schema { mutation: T }', 'schema { query: Query subscription: U }'],
}
def build(defs):
    return build_schema('\n'.join(defs.values()), assume_valid_sdl=True)
crashes=collections.Counter(); n=0; ex={}
singles=[(k,v) for k,vs in viol.items() for v in vs]
def trial(muts):
    global n
    defs=dict(base)
    for k,v in muts: defs[k]=v
    try: s=build(defs)
    except Exception as e: return 'unbuildable'
    n+=1
    try: errs=validate_schema(s)
    except Exception as e:
        tb=traceback.extract_tb(e.__traceback__)[-1]
        key=(type(e).__name__, str(e)[:60], f'{tb.filename.split("/")[-1]}:{tb.lineno}')
        crashes[key]+=1; ex.setdefault(key,muts); return 'crash'
    try:
        r=graphql_sync(s,'{ __typename }')
        assert (r.errors is not None)==bool(errs), (r, errs)
    except Exception as e:
        key=('graphql_sync',type(e).__name__,str(e)[:80]); crashes[key]+=1; ex.setdefault(key,muts)
    return 'ok'
res=collections.Counter()
res.update(trial([m]) for m in singles)
for a,b in itertools.combinations(singles,2):
    if a[0]!=b[0]: res[trial([a,b])]+=1
print(n,'schemas validated',dict(res))
for k,v in crashes.items(): print(v,k,'\n     e.g.',ex[k])
