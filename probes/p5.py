import itertools, collections
from graphql import *
from graphql.validation import specified_rules
import sys
sys.path.insert(0,'/repo/tests')
schema = build_schema('''
interface Pet { name(surname: Boolean): String }
type Dog implements Pet { name(surname: Boolean): String nickname: String barkVolume: Int doesKnowCommand(dogCommand: Cmd): Boolean owner: Human }
type Cat implements Pet { name(surname: Boolean): String meows: Boolean }
union CatOrDog = Cat | Dog
enum Cmd { SIT HEEL }
type Human { name: String pets: [Pet] rel: [Human]! }
input Cx { req: Boolean!, i: Int = 3, l: [String] }
type Query { human(id: ID): Human dog: Dog pet: Pet cod: CatOrDog cx(c: Cx): String ints(a: [Int!]!): Int }
type Mutation { m: Int } type Subscription { s: Int t: Int }
''')
docs = [
 'query Q($a: Int, $b: Boolean = true, $unused: String) { human(id: $a) { name ...F pets { ... on Dog { name(surname: $b) } } } dog { ...F } } fragment F on Human { name rel { ...F } }',
 'query A($v: Int) { dog { ...G } } query A { dog { name } } fragment G on Dog { doesKnowCommand(dogCommand: $v) ...H } fragment H on Dog { barkVolume @skip(if: $w) } fragment U on Cat { meows }',
 '{ dog { name: nickname name } cx(c: {i: "x"}) ints(a: [1, null]) unknown } type X { a: Int } fragment F on Dog { ...F }',
 'subscription { s t } mutation { m { x } } { dog }',
 'query ($a: Int, $a: Int) { dog @skip @skip(if: 1) @nope { name(surname: true, surname: false) } cx(c: {req: true, req: false}) }',
]
def key(e): return (e.message, tuple(e.locations or ()))
bad=0
for d in docs:
    ast = parse(d)
    full = collections.Counter(map(key, validate(schema, ast)))
    singles = collections.Counter()
    per = {}
    for r in specified_rules:
        errs = validate(schema, ast, [r]); per[r]=collections.Counter(map(key,errs)); singles.update(map(key, errs))
    if full != singles:
        bad+=1; print('FULL!=UNION', d[:50], (full-singles), (singles-full))
    rev = collections.Counter(map(key, validate(schema, ast, list(reversed(specified_rules)))))
    if rev != full: bad+=1; print('REV differs', d[:50])
    for r1, r2 in itertools.permutations(specified_rules, 2):
        p = collections.Counter(map(key, validate(schema, ast, [r1, r2])))
        if p != per[r1]+per[r2]:
            bad+=1; print('PAIR differs', r1.__name__, r2.__name__, d[:40], p-(per[r1]+per[r2]), (per[r1]+per[r2])-p)
    print(len(full), 'errors')
print('bad', bad)
