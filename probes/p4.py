import itertools, math
from graphql import *
from graphql.pyutils import Undefined
from graphql.utilities import coerce_input_value, value_from_ast
from graphql.utilities.coerce_input_value import coerce_input_literal
from graphql.utilities.validate_input_value import validate_input_value, validate_input_literal
from graphql.utilities.value_to_literal import value_to_literal
schema = build_schema('''
enum E { A B }
input I { a: Int = 1, b: [E!], c: I, d: String! }
input O @oneOf { x: Int, y: String, z: I }
type Query { f(i: I, o: O): Int }
''')
I = schema.type_map['I']; O = schema.type_map['O']; E = schema.type_map['E']
types = [GraphQLInt, GraphQLFloat, GraphQLString, GraphQLBoolean, GraphQLID, E, I, O]
def wraps(t):
    yield t; yield GraphQLNonNull(t); yield GraphQLList(t); yield GraphQLList(GraphQLNonNull(t)); yield GraphQLNonNull(GraphQLList(t)); yield GraphQLList(GraphQLList(t))
vals = [None, Undefined, True, False, 0, 1, -1, 2**31-1, 2**31, -2**31-1, 2**53+1, 10**400, 1.0, 1.5, -0.0, float('nan'), float('inf'), 1e308*10, '', 'a', 'A', '1', [], [1], [None], [[1]], (1,), {}, {'d':'x'}, {'d':'x','a':None}, {'d':None}, {'d':'x','zz':1}, {'x':1}, {'x':None}, {'x':1,'y':'s'}, {'x':1,'y':Undefined}, {'z':{'d':'q'}}, {'a':1.0,'d':'s'}, {'b':['A'],'d':'s'}, {'b':'A','d':'s'}, {'b':['C'],'d':'s'}, {'c':{'d':'s'},'d':'s'}, b'x', object(), {1,2}, range(2)]
bad = 0
for t0 in types:
    for t in wraps(t0):
        for v in vals:
            try:
                c = coerce_input_value(v, t)
            except Exception as e:
                print('coerce raised', t, repr(v), type(e).__name__, e); bad+=1; continue
            errs = []
            try:
                validate_input_value(v, t, lambda e,p: errs.append((e.message,p)))
            except Exception as e:
                print('validate raised', t, repr(v), type(e).__name__, e); bad+=1; continue
            if (c is Undefined) != bool(errs):
                print('DISAGREE', t, repr(v), c, errs); bad+=1
            if c is not Undefined and v is not Undefined:
                try:
                    lit = value_to_literal(v, t)
                except Exception as e:
                    print('v2l raised', t, repr(v), type(e).__name__, e); bad+=1; continue
                if lit is None or lit is Undefined:
                    print('v2l none', t, repr(v), lit); bad+=1; continue
                c2 = coerce_input_literal(lit, t)
                if not (c2 == c or (isinstance(c,float) and isinstance(c2,float) and math.isnan(c) and math.isnan(c2))):
                    print('v2l mismatch', t, repr(v), c, print_ast(lit), c2); bad+=1
print('bad', bad)
