"""prototype: merge + protocol monitor over all completion orders for a few defer/stream queries"""
import asyncio, sys, gc, itertools, json, copy, collections, time
from asyncio import events
from graphql import *
from graphql.execution import experimental_execute_incrementally

class VLoop(asyncio.BaseEventLoop):
    def __init__(self):
        super().__init__(); self._vt=0.0; self.errs=[]
        self.set_exception_handler(lambda l,c: self.errs.append(c.get('message')))
    def time(self): return self._vt
    def _process_events(self, ev): pass
    def _write_to_self(self): pass
    def drain(self, limit=20000):
        n=0
        while self._ready:
            h=self._ready.popleft()
            if not h._cancelled: h._run()
            n+=1
            if n>limit: raise RuntimeError('livelock')

schema = build_schema("""
directive @defer(if: Boolean = true, label: String) on FRAGMENT_SPREAD | INLINE_FRAGMENT
directive @stream(if: Boolean = true, label: String, initialCount: Int = 0) on FIELD
directive @experimental_disableErrorPropagation on QUERY | MUTATION | SUBSCRIPTION
type User { id: ID name: String nn: String! friends: [User] nnFriends: [User!] best: User }
type Query { me: User other: User }
""")

class Violation(Exception): pass

def get_at(data, path):
    cur=data
    for k in path:
        if cur is None: raise Violation(f'path {path} goes through null')
        try: cur=cur[k]
        except (KeyError,IndexError,TypeError): raise Violation(f'path {path} does not exist')
    return cur

def monitor_and_merge(payloads, label_parent):
    data=None; errors=[]
    pending={}; everid=set(); completed={}
    for i,p in enumerate(payloads):
        last = i==len(payloads)-1
        if i==0:
            data=copy.deepcopy(p.get('data')); errors+=p.get('errors',[])
        if 'hasNext' not in p and i==0 and len(payloads)==1: return data, errors, completed
        if p['hasNext'] != (not last): raise Violation(f'hasNext wrong at payload {i}')
        # completed in this payload are processed after incremental; pending announced: check parent
        comp_now={c['id'] for c in p.get('completed',[])}
        for pe in p.get('pending',[]):
            if pe['id'] in everid: raise Violation('id reused '+pe['id'])
            everid.add(pe['id']); pending[pe['id']]=pe
            target=get_at(data, pe['path']) if False else None
        for pe in p.get('pending',[]):
            par=label_parent.get(pe.get('label'))
            if par is not None:
                for q in pending.values():
                    if q.get('label')==par and q['id'] not in comp_now and q['path']==pe['path'][:len(q['path'])] and q is not pe:
                        raise Violation(f"nested {pe['label']} announced while parent {par} pending")
        for inc in p.get('incremental',[]):
            if inc['id'] not in pending: raise Violation('incremental for non-pending id '+inc['id'])
            base=pending[inc['id']]['path']+inc.get('subPath',[])
            tgt=get_at(data, base)
            if 'items' in inc:
                if not isinstance(tgt,list): raise Violation('stream target not list')
                tgt.extend(copy.deepcopy(inc['items']))
            else:
                if not isinstance(tgt,dict): raise Violation('defer target not object')
                for k,v in inc['data'].items():
                    if k in tgt and tgt[k]!=v and not (isinstance(tgt[k],dict) and isinstance(v,dict)): raise Violation(f'overwrite {k}')
                    if k in tgt and isinstance(tgt[k],dict) and isinstance(v,dict): deep_merge(tgt[k],v)
                    else: tgt[k]=copy.deepcopy(v)
            errors+=inc.get('errors',[])
        for c in p.get('completed',[]):
            if c['id'] not in pending: raise Violation('completed non-pending '+c['id'])
            completed[c['id']]=(pending.pop(c['id']), c.get('errors'))
            errors+=c.get('errors',[])
    if pending: raise Violation('ids never completed '+str(list(pending)))
    return data, errors, completed

def deep_merge(a,b):
    for k,v in b.items():
        if k in a and isinstance(a[k],dict) and isinstance(v,dict): deep_merge(a[k],v)
        elif k in a and a[k]!=v: raise Violation(f'conflict {k}')
        else: a[k]=copy.deepcopy(v)

def refines(m, r, path, failed_paths):
    if m is None: return True
    def failed_prefix():
        return any(fp==path[:len(fp)] for fp in failed_paths)
    if isinstance(r,dict):
        if not isinstance(m,dict): return False
        mk=list(m); rk=[k for k in r if k in m]
        if mk!=rk: return False
        if len(mk)!=len(r) and not failed_prefix(): return False
        return all(refines(m[k],r[k],path+[k],failed_paths) for k in mk)
    if isinstance(r,list):
        if not isinstance(m,list) or len(m)>len(r): return False
        if len(m)<len(r) and not failed_prefix(): return False
        return all(refines(a,b,path+[i],failed_paths) for i,(a,b) in enumerate(zip(m,r)))
    return m==r

def boom(info): raise ValueError('boom')

def run(doc, mkroot, order, early):
    loop=VLoop(); events._set_running_loop(loop)
    try:
        gates=[]
        def gate(label,val):
            f=loop.create_future(); gates.append((label,f,val)); return f
        root=mkroot(gate)
        out=[]
        async def main():
            r=experimental_execute_incrementally(schema,doc,root,enable_early_execution=early)
            if hasattr(r,'__await__'): r=await r
            if isinstance(r,ExecutionResult): out.append(r.formatted); return
            out.append(r.initial_result.formatted)
            it=r.subsequent_results
            while True:
                await gate('pull',None)
                try: p=await anext(it)
                except StopAsyncIteration: return
                out.append(p.formatted)
        mt=loop.create_task(main()); loop.drain()
        trace=[]; oi=0
        while not mt.done():
            openg=[g for g in gates if not g[1].done()]
            if not openg: raise Violation('hang')
            k=order[oi]%len(openg) if oi<len(order) else 0
            oi+=1
            lab,f,v=openg[k]; trace.append(lab)
            if isinstance(v,Exception): f.set_exception(v)
            else: f.set_result(v)
            loop.drain()
        if mt.exception(): raise mt.exception()
        gc.collect(); loop.drain()
        pend=[t for t in asyncio.all_tasks(loop) if not t.done()]
        if pend: raise Violation('leaked tasks '+str(pend))
        return out, trace, oi
    finally:
        for t in asyncio.all_tasks(loop): t.cancel()
        try: loop.drain()
        except Exception: pass
        events._set_running_loop(None); loop.close()

def plain(doc_src, mkroot, noprop):
    src=doc_src.replace('@defer(','@defer(if:false,').replace('@stream(','@stream(if:false,')
    if noprop: src=src.replace('{','query @experimental_disableErrorPropagation {',1)
    def g(label,val):
        async def co():
            if isinstance(val,Exception): raise val
            return val
        return co()
    async def m():
        r=experimental_execute_incrementally(schema,parse(src),mkroot(g))
        if hasattr(r,'__await__'): r=await r
        assert isinstance(r,ExecutionResult), r
        return r.formatted
    return asyncio.run(m())

def scen(fail):
    def mkroot(gate):
        def agen_friends(info):
            async def gen():
                for i in range(2):
                    yield {'id':f'f{i}','name':(lambda info,i=i: gate(f'fn{i}', ValueError('x') if fail=='fn1' and i==1 else f'F{i}')),'nn':(boom if fail=='fnn' and i==1 else 'ok')}
            return gen()
        me={'id':'1','name':lambda info: gate('name','N'),'nn':(boom if fail=='nn' else 'x'),
            'friends':agen_friends,'nnFriends':agen_friends,
            'best':lambda info: gate('best',{'id':'b','name':'B','nn':'y','friends':[]})}
        return {'me':me,'other':lambda info: gate('other',{'id':'o','name':'O','nn':'z'})}
    return mkroot

queries = {
 'q1': ('{ me { id ...@defer(label:"a"){ name best { id ...@defer(label:"b"){ name } } } } other { ...@defer(label:"c"){ name } } }', {'b':'a'}),
 'q2': ('{ me { id friends @stream(label:"s") { id name } ...@defer(label:"a"){ nn name } } }', {}),
 'q3': ('{ me { ...@defer(label:"a"){ name id } ...@defer(label:"b"){ name nn } id } }', {}),
 'q4': ('{ me { nnFriends @stream(label:"s", initialCount: 1) { id nn ...@defer(label:"d"){ name } } } }', {}),
}
t0=time.time(); total=0; viol=collections.Counter()
for qn,(src,lp) in queries.items():
    doc=parse(src)
    for fail in (None,'nn','fn1','fnn'):
        mk=scen(fail)
        ref=plain(src,mk,False); refnp=plain(src,mk,True)
        for early in (False,True):
            outs=set(); n=0
            # enumerate all orders by DFS on choice indices
            stack=[[]]
            while stack:
                pre=stack.pop()
                try:
                    out,trace,used=run(doc,mk,pre+[0]*0,early)
                except Violation as e:
                    viol[(qn,fail,early,str(e)[:60])]+=1; continue
                n+=1
                # find branching: rerun recording number of options at each point is costly; approximate: try alternatives 1..5 at positions >= len(pre)
                try:
                    data,errs,completed=monitor_and_merge(out,lp)
                    failed=[pe['path'] for pe,er in completed.values() if er]
                    if ref.get('errors') is None:
                        if data!=ref['data']: raise Violation('merged != plain')
                        if errs: raise Violation('errors but plain has none')
                    else:
                        if not refines(data,refnp['data'],[],failed): raise Violation('not refinement: '+json.dumps(data)[:200])
                except Violation as e:
                    viol[(qn,fail,early,str(e)[:80])]+=1
                outs.add(json.dumps(out))
                if len(pre)<len(trace):
                    for pos in range(len(pre),len(trace)):
                        for alt in range(1,6):
                            stack.append(trace_prefix:=None) if False else None
                # proper DFS: extend prefix with explicit choices
                for pos in range(len(pre), len(trace)):
                    for alt in range(1,5):
                        cand=pre+[0]*(pos-len(pre))+[alt]
                        stack.append(cand)
                if n>3000: break
            total+=n
            print(qn,fail,early,'runs',n,'distinct payload seqs',len(outs))
print('total',total,time.time()-t0)
for k,v in viol.items(): print(v,k)
