"""prototype: spec-regex tokenizer vs Lexer on all strings <= L"""
import re, itertools, time
from graphql import GraphQLSyntaxError
from graphql.language import Lexer, Source, TokenKind
PUNCT={'!':'BANG','$':'DOLLAR','&':'AMP','(':'PAREN_L',')':'PAREN_R','...':'SPREAD',':':'COLON','=':'EQUALS','@':'AT','[':'BRACKET_L',']':'BRACKET_R','{':'BRACE_L','|':'PIPE','}':'BRACE_R'}
RE_IGN=re.compile(r'[\ufeff\t ,\n]|\r\n?|')
RE_NAME=re.compile(r'[_A-Za-z][_0-9A-Za-z]*')
RE_INT=r'-?(?:0|[1-9][0-9]*)'
RE_FLOAT=re.compile(RE_INT+r'(?:\.[0-9]+(?:[eE][+-]?[0-9]+)?|[eE][+-]?[0-9]+)')
RE_INTC=re.compile(RE_INT)
RE_COMMENT=re.compile(r'#[^\n\r]*')
def is_scalar(c): return not ('\ud800'<=c<='\udfff')
def src_ok(s, i):
    """returns length of source character at i (1, or 2 for surrogate pair) or 0 if invalid"""
    c=s[i]
    if is_scalar(c): return 1
    if '\ud800'<=c<='\udbff' and i+1<len(s) and '\udc00'<=s[i+1]<='\udfff': return 2
    return 0
ESC={'"':'"','\\':'\\','/':'/','b':'\b','f':'\f','n':'\n','r':'\r','t':'\t'}
HEX='0123456789abcdefABCDEF'
def ref_string(s,i):
    # s[i]=='"' ; returns (end,value) or None
    if s.startswith('"""',i):
        j=i+3; raw=[]
        while True:
            if j>=len(s): return None
            if s.startswith('"""',j): break
            if s.startswith('\\"""',j): raw.append('"""'); j+=4; continue
            n=src_ok(s,j)
            if not n: return None
            raw.append(s[j:j+n]); j+=n
        rawv=''.join(raw)
        lines=re.split(r'\r\n|[\n\r]',rawv)
        common=None
        for ln in lines[1:]:
            ind=len(ln)-len(ln.lstrip(' \t'))
            if ind<len(ln) and (common is None or ind<common): common=ind
        if common: lines=[lines[0]]+[ln[common:] for ln in lines[1:]]
        while lines and not lines[0].strip(' \t'): lines.pop(0)
        while lines and not lines[-1].strip(' \t'): lines.pop()
        return j+3,'\n'.join(lines),'BLOCK_STRING'
    j=i+1; out=[]
    while True:
        if j>=len(s): return None
        c=s[j]
        if c=='"': return j+1,''.join(out),'STRING'
        if c in '\n\r': return None
        if c=='\\':
            if j+1>=len(s): return None
            d=s[j+1]
            if d=='u':
                if s.startswith('{',j+2):
                    k=s.find('}',j+3)
                    if k<0: return None
                    h=s[j+3:k]
                    if not h or any(x not in HEX for x in h): return None
                    v=int(h,16)
                    if len(h)>8 or v>0x10ffff or 0xd800<=v<=0xdfff: return None
                    out.append(chr(v)); j=k+1; continue
                h=s[j+2:j+6]
                if len(h)<4 or any(x not in HEX for x in h): return None
                v=int(h,16)
                if 0xd800<=v<=0xdbff:
                    h2=s[j+8:j+12]
                    if s[j+6:j+8]=='\\u' and len(h2)==4 and all(x in HEX for x in h2) and 0xdc00<=int(h2,16)<=0xdfff:
                        out.append(chr(0x10000+((v-0xd800)<<10)+(int(h2,16)-0xdc00))); j+=12; continue
                    return None
                if 0xdc00<=v<=0xdfff: return None
                out.append(chr(v)); j+=6; continue
            if d in ESC: out.append(ESC[d]); j+=2; continue
            return None
        n=src_ok(s,j)
        if not n: return None
        out.append(s[j:j+n]); j+=n
def ref_lex(s):
    toks=[]; i=0
    while i<len(s):
        c=s[i]
        if c in '\ufeff\t ,\n': i+=1; continue
        if c=='\r': i+= 2 if s.startswith('\r\n',i) else 1; continue
        if c=='#':
            j=i+1
            while j<len(s) and s[j] not in '\n\r':
                n=src_ok(s,j)
                if not n: break   # impl stops comment at invalid char; then errors next
                j+=n
            i=j; continue
        if s.startswith('...',i): toks.append(('SPREAD',i,i+3,None)); i+=3; continue
        if c in PUNCT: toks.append((PUNCT[c],i,i+1,None)); i+=1; continue
        m=RE_NAME.match(s,i)
        if m: toks.append(('NAME',i,m.end(),m.group())); i=m.end(); continue
        if c=='-' or c.isdigit() and c.isascii():
            m=RE_FLOAT.match(s,i); kind='FLOAT'
            if not m: m=RE_INTC.match(s,i); kind='INT'
            if not m: return None
            e=m.end()
            # lookahead: not followed by digit, '.', NameStart
            if e<len(s) and (s[e]=='.' or (s[e].isascii() and (s[e].isalnum() or s[e]=='_'))): return None
            toks.append((kind,i,e,m.group())); i=e; continue
        if c=='"':
            r=ref_string(s,i)
            if r is None: return None
            e,v,k=r; toks.append((k,i,e,v)); i=e; continue
        return None
    return toks
def impl_lex(s):
    lx=Lexer(Source(s)); out=[]
    while True:
        t=lx.advance()
        if t.kind==TokenKind.EOF: return out
        out.append((t.kind.name,t.start,t.end,t.value))
SIG=['a','1','0','.','e','-','"','\\','#','{','(',':','\n','\r',',',' ','u','}','\ud83d','\ude00']
t0=time.time(); n=0; bad=0
for L in range(0,5):
    for tup in itertools.product(SIG,repeat=L):
        s=''.join(tup); n+=1
        r=ref_lex(s)
        try: g=impl_lex(s)
        except GraphQLSyntaxError: g=None
        except Exception as e: g=('EXC',type(e).__name__)
        if g!=r:
            bad+=1
            if not (isinstance(g,tuple) and g[0]=='EXC'):
                other=globals().setdefault('other',[]); other.append((s,g,r))
print(n,'strings',bad,'disagreements',time.time()-t0)
print(len(globals().get('other',[])),'non-IndexError disagreements')
for x in globals().get('other',[])[:15]: print(x)
