import itertools, time, collections
from graphql import *
from graphql.language import StringValueNode
SIG=['a',' ','\t','\n','\r','\x0b','\x0c','\x1c','\x1d','\x1e','\x85','\u2028','\u2029','"','\\','\x00','\x7f','\ufeff','\uffff','\U0001f600']
def val_of(doc): return doc.definitions[0].selection_set.selections[0].arguments[0].value
t0=time.time(); n=0; bad=collections.Counter(); ex={}
for L in range(0,4):
    for tup in itertools.product(SIG,repeat=L):
        body=''.join(tup)
        # (a) as raw block string body
        src='{ f(a: """'+body+'""") }'
        try: d=parse(src, no_location=True)
        except GraphQLSyntaxError: d=None
        if d is not None:
            n+=1
            v=val_of(d)
            p=print_ast(d)
            try:
                d2=parse(p,no_location=True)
                if val_of(d2).value!=v.value or val_of(d2).block!=v.block:
                    cls=''.join(sorted(set(c for c in v.value if c in '\x0b\x0c\x1c\x1d\x1e\x85\u2028\u2029')))
                    bad[('block-rt',repr(cls))]+=1; ex.setdefault(('block-rt',repr(cls)),(src,v.value,val_of(d2).value))
                elif print_ast(d2)!=p: bad['block-fix']+=1; ex.setdefault('block-fix',src)
            except GraphQLSyntaxError as e:
                bad['block-reparse-fail']+=1; ex.setdefault('block-reparse-fail',(src,p))
        # (b) programmatic quoted string
        node=StringValueNode(value=body, block=False)
        p=print_ast(node)
        try:
            v2=parse_value(p,no_location=True)
            if v2.value!=body or v2.block: bad['quoted-rt']+=1; ex.setdefault('quoted-rt',(body,p))
        except GraphQLSyntaxError as e:
            bad['quoted-reparse-fail']+=1; ex.setdefault('quoted-reparse-fail',(body,p,e.message))
print(n,time.time()-t0)
for k,v in bad.items(): print(v,k,ex.get(k))
