import asyncio, sys, gc, itertools, builtins
from asyncio import events
from graphql import *
from graphql.execution import experimental_execute_incrementally, ExecutionHooks
from graphql.pyutils import AbortController

class VLoop(asyncio.BaseEventLoop):
    def __init__(self):
        super().__init__(); self._vt=0.0; self.errs=[]
        self.set_exception_handler(lambda l,c: self.errs.append(c.get('message')))
    def time(self): return self._vt
    def _process_events(self, ev): pass
    def _write_to_self(self): pass
    def drain(self, limit=10000):
        n=0
        while self._ready:
            h=self._ready.popleft()
            if not h._cancelled: h._run()
            n+=1
            if n>limit: raise RuntimeError('livelock')

schema = build_schema("""
directive @defer(if: Boolean = true, label: String) on FRAGMENT_SPREAD | INLINE_FRAGMENT
directive @stream(if: Boolean = true, label: String, initialCount: Int = 0) on FIELD
type User { id: ID name: String nn: String! friends: [User] }
type Query { me: User other: User }
""")
doc = parse('{ me { id ... @defer(label:"d") { name friends @stream(label:"s") { id name } } } }')

def run(script, early):
    """script: list of actions: ('g',k) release kth open gate, ('pull',), ('close',), ('abort',)"""
    loop=VLoop(); events._set_running_loop(loop)
    closes=[]; hook=[]
    try:
        gates=[]
        def gate(label,val):
            f=loop.create_future(); gates.append((label,f,val)); return f
        async def friends(info):
            try:
                for i in range(2):
                    v = await gate(f'src{i}', {'id': str(i), 'name': (lambda info,i=i: gate(f'n{i}','N'))})
                    yield v
            finally:
                closes.append('friends')
        u={'id':'1','name':lambda info: gate('name','N1'),'friends':friends}
        ctl=AbortController()
        out=[]; state={'it':None}
        pulls=[]
        async def main():
            r=experimental_execute_incrementally(schema,doc,{'me':u},enable_early_execution=early,
                  hooks=ExecutionHooks(async_work_finished=lambda info: hook.append(
                      (len(info.executor.background_futures), len(info.executor.pending_incremental_futures),
                       [t.get_coro().__qualname__ for t in asyncio.all_tasks(loop) if not t.done() and t is not mt and t is not asyncio.current_task(loop)]))))
            if hasattr(r,'__await__'): r=await r
            if isinstance(r,ExecutionResult): out.append(r.formatted); return 'single'
            out.append(r.initial_result.formatted)
            it=r.subsequent_results; state['it']=it
            while True:
                act = await gate('pull', None)
                if act=='close':
                    await it.aclose(); return 'closed'
                try: p=await anext(it)
                except StopAsyncIteration: return 'end'
                out.append(p.formatted)
        mt=loop.create_task(main())
        loop.drain()
        trace=[]
        for act in script:
            if mt.done(): break
            openg=[g for g in gates if not g[1].done()]
            if act[0]=='g':
                cand=[g for g in openg if g[0]!='pull']
                if act[1]>=len(cand): return None
                cand[act[1]][1].set_result(cand[act[1]][2]); trace.append(cand[act[1]][0])
            elif act[0] in('pull','close'):
                cand=[g for g in openg if g[0]=='pull']
                if not cand: return None
                cand[0][1].set_result('close' if act[0]=='close' else 'go'); trace.append(act[0])
            loop.drain()
        # after script: drain w/o releasing
        loop.drain()
        gc.collect(); loop.drain()
        pend=[t for t in asyncio.all_tasks(loop) if not t.done() and t is not mt]
        openg=[g[0] for g in gates if not g[1].done()]
        canc=[g[0] for g in gates if g[1].cancelled()]
        res=(mt.result() if mt.done() and not mt.cancelled() and not mt.exception() else ('EXC',mt.exception()) if mt.done() else 'PENDING')
        return trace,res,len(out),[t.get_coro().__qualname__ for t in pend],openg,canc,closes,hook,loop.errs
    finally:
        for t in asyncio.all_tasks(loop): t.cancel()
        try: loop.drain()
        except Exception: pass
        events._set_running_loop(None); loop.close()

import collections
seen=collections.Counter()
acts=[('g',0),('g',1),('pull',),('close',)]
n=0
for early in (False,True):
  for L in range(1,7):
    for script in itertools.product(acts,repeat=L):
        if script[-1]!=('close',) : continue
        if ('close',) in script[:-1]: continue
        r=run(list(script),early)
        if r is None: continue
        n+=1
        trace,res,nout,pend,openg,canc,closes,hook,errs=r
        key=(res if isinstance(res,str) else 'EXC', bool(pend), tuple(openg)!=(), len(hook), tuple(h[:2] for h in hook), tuple(closes), bool(errs))
        if seen[key]==0: print(early, trace, '->', res, 'pending tasks', pend, 'open', openg, 'cancelled', canc, 'closes', closes, 'hook', hook, errs)
        seen[key]+=1
print(n, seen)
