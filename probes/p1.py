import sys
from graphql import *
s = build_schema("type Query { a: Query, v(x: [[[Int]]] ): Int, o(i: I): Int } input I { i: I, n: Int }")
def mk(d): return "{" + "a{"*d + "v" + "}"*d + "}"
for d in (50, 100, 101, 150, 200):
    try:
        r = graphql_sync(s, mk(d), root_value={})
        print(d, 'ok', r.errors and r.errors[0].message[:60])
    except BaseException as e:
        print(d, 'RAISED', type(e).__name__)
for d in (50,100,150,200,300):
    src = "{ v(x: " + "["*d + "1" + "]"*d + ") }"
    try:
        r = graphql_sync(s, src, root_value={})
        print('list', d, 'ok', r.errors and r.errors[0].message[:60])
    except BaseException as e:
        print('list', d, 'RAISED', type(e).__name__)
for d in (50,100,150,200,300):
    src = "{ o(i: " + "{i:"*d + "{n:1}" + "}"*d + ") }"
    try:
        r = graphql_sync(s, src, root_value={})
        print('obj', d, 'ok', r.errors and r.errors[0].message[:60])
    except BaseException as e:
        print('obj', d, 'RAISED', type(e).__name__)
for d in (100, 200, 300):
    src = "query($v: " + "["*d + "Int" + "]"*d + ") { v }"
    try:
        r = graphql_sync(s, src, root_value={})
        print('type', d, 'ok', r.errors and r.errors[0].message[:60])
    except BaseException as e:
        print('type', d, 'RAISED', type(e).__name__)
# truncated deep
for d in (100,):
    src = "{" + "a{"*d
    try:
        r = graphql_sync(s, src, root_value={})
        print('trunc', d, 'ok', r.errors and r.errors[0].message[:60])
    except BaseException as e:
        print('trunc', d, 'RAISED', type(e).__name__)
print(sys.getrecursionlimit())
