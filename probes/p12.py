import asyncio, json
from graphql import *
from graphql.execution import experimental_execute_incrementally
schema = build_schema("""
directive @defer(if: Boolean = true, label: String) on FRAGMENT_SPREAD | INLINE_FRAGMENT
directive @stream(if: Boolean = true, label: String, initialCount: Int = 0) on FIELD
directive @experimental_disableErrorPropagation on QUERY | MUTATION | SUBSCRIPTION
type User { id: ID name: String nn: String! friends: [User] nnFriends: [User!] best: User }
type Query { me: User }
""")
def boom(info): raise ValueError("boom")
def mk():
    f0={'id':'f0','name':'F0','nn':'x'}; f1={'id':'f1','name':boom,'nn':boom}; f2={'id':'f2','name':'F2','nn':'y'}
    return {'me':{'id':'1','name':'N','nn':boom,'friends':[f0,f1,f2],'nnFriends':[f0,f1,f2],'best':{'id':'b','nn':boom,'name':'B','friends':[f0]}}}
async def run(q):
    r = experimental_execute_incrementally(schema, parse(q), mk())
    if hasattr(r,'__await__'): r = await r
    if isinstance(r, ExecutionResult): return [r.formatted]
    out=[r.initial_result.formatted]
    async for p in r.subsequent_results: out.append(p.formatted)
    return out
qs = {
 'i nonnull in defer': '{ me { id ... @defer(label:"d") { name nn } } }',
 'ii nullable in defer': '{ me { id friends { id ... @defer(label:"d") { name } } } }',
 'iii initial null kills defer': '{ me { id best { nn ... @defer(label:"d") { name } } ... @defer(label:"e") { name } } }',
 'iv nonnull stream item': '{ me { id nnFriends @stream(label:"s") { id nn } } }',
 'v nullable stream item': '{ me { id friends @stream(label:"s", initialCount:1) { id nn } } }',
 'vi nested defer outer fails': '{ me { id ... @defer(label:"o") { nn best { id ... @defer(label:"i") { name } } } } }',
 'vii defer under nulled item': '{ me { nnFriends { nn ... @defer(label:"d") { name } } id } }',
}
for k,q in qs.items():
    print('==',k)
    for p in asyncio.run(run(q)): print('  ', json.dumps(p))
    print('  NOPROP', json.dumps(asyncio.run(run(q.replace('{','query @experimental_disableErrorPropagation {',1)))[0])[:300])
