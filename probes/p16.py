"""prototype: spec FieldsInSetCanMerge reference vs OverlappingFieldsCanBeMergedRule"""
import itertools, time, collections
from graphql import *
from graphql.language import FieldNode, FragmentSpreadNode, InlineFragmentNode, OperationDefinitionNode, FragmentDefinitionNode
from graphql.utilities import type_from_ast
from graphql.validation import OverlappingFieldsCanBeMergedRule

schema = build_schema('''
interface Pet { name: String  n: Int  same: Pet  l: [Int] }
type Dog implements Pet { name: String  n: Int  same: Pet  l: [Int]  x: Int  y: String  z: Int!  a(i: Int, o: In): Int  sub: Dog  ll: [[Int]] }
type Cat implements Pet { name: String  n: Int  same: Pet  l: [Int]  x: String  y: String  z: Int  a(i: Int, o: In): Int  sub: Cat  ll: [Int] }
input In { p: Int q: Int }
union CD = Cat | Dog
type Query { pet: Pet dog: Dog cd: CD }
''')

def canon_value(v):
    from graphql.language import ObjectValueNode, ListValueNode
    if isinstance(v, ObjectValueNode):
        return '{' + ','.join(sorted(f.name.value+':'+canon_value(f.value) for f in v.fields)) + '}'
    if isinstance(v, ListValueNode):
        return '[' + ','.join(canon_value(x) for x in v.values) + ']'
    return print_ast(v)
def args_key(node):
    return tuple(sorted((a.name.value, canon_value(a.value)) for a in (node.arguments or ())))
def stream_key(node):
    for d in node.directives or ():
        if d.name.value=='stream': return args_key(d)
    return None

def ref_conflicts(schema, doc):
    frags={d.name.value:d for d in doc.definitions if isinstance(d,FragmentDefinitionNode)}
    def collect(selset, parent, out, visited):
        for s in selset.selections:
            if isinstance(s,FieldNode):
                fdef = parent.fields.get(s.name.value) if parent is not None and hasattr(parent,'fields') else None
                if s.name.value=='__typename': fdef=None
                out.append((parent, s, fdef))
            elif isinstance(s,InlineFragmentNode):
                p = type_from_ast(schema, s.type_condition) if s.type_condition else parent
                collect(s.selection_set, p, out, visited)
            else:
                nm=s.name.value
                if nm in visited or nm not in frags: continue
                visited.add(nm)
                collect(frags[nm].selection_set, type_from_ast(schema, frags[nm].type_condition), out, visited)
        return out
    def shape_conflict(t1,t2):
        while True:
            if is_non_null_type(t1) or is_non_null_type(t2):
                if not (is_non_null_type(t1) and is_non_null_type(t2)): return True
                t1,t2=t1.of_type,t2.of_type
            if is_list_type(t1) or is_list_type(t2):
                if not (is_list_type(t1) and is_list_type(t2)): return True
                t1,t2=t1.of_type,t2.of_type; continue
            break
        if is_leaf_type(t1) or is_leaf_type(t2): return t1 is not t2
        return False
    def set_conflicts(fields, excl, seen):
        """fields: list of (parent, node, def). returns True if some pair conflicts"""
        by={}
        for f in fields: by.setdefault(f[1].alias.value if f[1].alias else f[1].name.value, []).append(f)
        for name, fs in by.items():
            for i in range(len(fs)):
                for j in range(i+1,len(fs)):
                    if pair_conflict(fs[i],fs[j],excl,seen): return True
        return False
    def pair_conflict(A,B,excl,seen):
        (pa,na,da),(pb,nb,db)=A,B
        if na is nb: return False
        e = excl or (pa is not pb and is_object_type(pa) and is_object_type(pb))
        key=(id(na),id(nb),e) if id(na)<id(nb) else (id(nb),id(na),e)
        if key in seen: return False
        seen.add(key)
        if not e:
            if na.name.value!=nb.name.value: return True
            if args_key(na)!=args_key(nb): return True
        if stream_key(na)!=stream_key(nb): return True
        if da is not None and db is not None and shape_conflict(da.type, db.type): return True
        if na.selection_set and nb.selection_set:
            ta = get_named_type(da.type) if da else None; tb = get_named_type(db.type) if db else None
            sub = collect(na.selection_set, ta, [], set()) 
            sub2 = collect(nb.selection_set, tb, [], set())
            # merged set: pairs across and within are all pairs of merged set; within-pairs are checked when visiting those sets themselves, but include them anyway (spec says merged set)
            if set_conflicts(sub+ [f for f in sub2 if all(f[1] is not g[1] for g in sub)], e, seen): return True
        return False
    # every selection set in the document
    res=False
    def visit_sets(selset, parent):
        nonlocal res
        fields = collect(selset, parent, [], set())
        if set_conflicts(fields, False, set()): res=True
        for s in selset.selections:
            if isinstance(s,FieldNode) and s.selection_set:
                fdef = parent.fields.get(s.name.value) if parent is not None and hasattr(parent,'fields') else None
                visit_sets(s.selection_set, get_named_type(fdef.type) if fdef else None)
            elif isinstance(s,InlineFragmentNode):
                visit_sets(s.selection_set, type_from_ast(schema,s.type_condition) if s.type_condition else parent)
    for d in doc.definitions:
        if isinstance(d,OperationDefinitionNode): visit_sets(d.selection_set, schema.query_type)
        elif isinstance(d,FragmentDefinitionNode): visit_sets(d.selection_set, type_from_ast(schema,d.type_condition))
    return res

# menus
dog_items = ['x','y','r: x','r: y','r: z','r: n','r: a(i: 1)','r: a(i: 2)','r: a(o: {p: 1, q: 2})','r: a(o: {q: 2, p: 1})','r: a(i: $v)','r: sub { x }','r: sub { x: y }','r: l','r: ll','...F','...G','... on Dog { r: n }']
cat_items = ['x','y','r: x','r: y','r: z','r: n','r: a(i: 1)','r: sub { x }','r: sub { x: n }','r: l','r: ll','...H','... on Cat { r: n }']
pet_items = ['name','r: name','r: n','r: l','r: same { r: n }', '... on Dog { %s }', '... on Cat { %s }', '...F', '...H', '...P']
frag_bodies = {'F':['r: x','r: y','r: sub { x }','...G','...F','r: n'], 'G':['r: y','r: x','...F','r: sub { x: y }'], 'H':['r: x','r: n','r: sub { x }','...P'], 'P':['r: name','r: n','... on Dog { r: x }','...H']}
ftype={'F':'Dog','G':'Dog','H':'Cat','P':'Pet'}
def docs():
    # pet { ... on Dog { d1 d2 } ... on Cat { c1 } p1 }  with fragments F,G,H,P bodies chosen
    for d1,d2 in itertools.combinations(dog_items,2):
        for c1 in cat_items:
            for p1 in ['name','r: n','...P','r: name', None]:
                sel = f'... on Dog {{ {d1} {d2} }} ... on Cat {{ {c1} }}' + (f' {p1}' if p1 else '')
                yield sel
t0=time.time(); n=0; dis=0; conf=0
fb_choices = list(itertools.product(*[frag_bodies[k][:3] for k in 'FGHP']))
for fb in fb_choices[:9]:
    fr = ' '.join(f'fragment {k} on {ftype[k]} {{ {b} }}' for k,b in zip('FGHP',fb))
    for sel in docs():
        src = f'query($v: Int) {{ pet {{ {sel} }} }} {fr}'
        doc = parse(src)
        impl = bool(validate(schema, doc, [OverlappingFieldsCanBeMergedRule]))
        ref = ref_conflicts(schema, doc)
        n+=1; conf+=impl
        if impl!=ref:
            dis+=1
            if dis<=10: print('DISAGREE impl',impl,'ref',ref, src)
print(n,'docs',conf,'conflicting',dis,'disagreements',time.time()-t0)
