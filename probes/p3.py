from graphql import *
from graphql.utilities import strip_ignored_characters
from graphql.language import Lexer, Source, TokenKind
def toks(s):
    lx = Lexer(Source(s)); out=[]
    while True:
        t = lx.advance()
        out.append((t.kind.name, t.start, t.end, t.line, t.column, t.value))
        if t.kind == TokenKind.EOF: break
    return out
for s in ['0xF', '1.e1', '1.0e', '-', '-0', '00', '1_0', '.5', '1.5.', '0a', '1e+x', '"\\u{110000}"', '"\\u{D800}"', '"\ud800"', 'a﻿b', '﻿{a}', '#c\ra', '"""a\r\nb"""', '"a\nb"', '...', '. ..', '&|', 'ä']:
    try: print(repr(s), toks(s))
    except GraphQLSyntaxError as e: print(repr(s), 'ERR', e.message)
    except Exception as e: print(repr(s), 'EXC', type(e).__name__, e)
for s in ['{ a(x: 1 ) ...F }', 'query  Q($v:Int=1,,,)@d{a}', '"""d""" type Q{a:Int}', '{a(s:"""  x  """)}', '{a(s:""" x\n  y """)}', '{ a ... on T { b } }', '{a 1}', '{a(x:1.0 .5)}']:
    try:
        st = strip_ignored_characters(s)
        print(repr(s), '->', repr(st), strip_ignored_characters(st)==st)
    except GraphQLSyntaxError as e: print(repr(s), 'ERR', e.message)
