"""prototype: spec reference executor (sync, no memo) vs execute_sync; validates the C02 error oracle"""
import itertools, json, time, collections
from graphql import *
from graphql.language import FieldNode, FragmentSpreadNode, InlineFragmentNode, OperationDefinitionNode, FragmentDefinitionNode, VariableNode, NullValueNode, ListValueNode, ObjectValueNode, IntValueNode, FloatValueNode, StringValueNode, BooleanValueNode, EnumValueNode
from graphql.pyutils import Undefined

class FieldError(Exception):
    def __init__(self, path): self.path=path
MISSING=object()

class Ref:
    def __init__(self, schema, doc, root, variables):
        self.schema=schema; self.doc=doc; self.root=root
        self.frags={d.name.value:d for d in doc.definitions if isinstance(d,FragmentDefinitionNode)}
        self.op=[d for d in doc.definitions if isinstance(d,OperationDefinitionNode)][0]
        self.errors=[]   # (path, null_position)
        self.calls=[]    # (path, args)
        self.vars=self.coerce_vars(variables)
    # ---- input coercion (only what the probe schema needs)
    def typ(self, tnode):
        from graphql.language import NonNullTypeNode, ListTypeNode
        if isinstance(tnode,NonNullTypeNode): return GraphQLNonNull(self.typ(tnode.type))
        if isinstance(tnode,ListTypeNode): return GraphQLList(self.typ(tnode.type))
        return self.schema.type_map[tnode.name.value]
    def coerce_vars(self, given):
        out={}
        for vd in self.op.variable_definitions or ():
            name=vd.variable.name.value; t=self.typ(vd.type)
            if name in given: out[name]=self.coerce_value(given[name], t)
            elif vd.default_value is not None: out[name]=self.coerce_literal(vd.default_value,t,{})
        return out
    def coerce_value(self, v, t):
        if is_non_null_type(t):
            assert v is not None; return self.coerce_value(v,t.of_type)
        if v is None: return None
        if is_list_type(t):
            return [self.coerce_value(x,t.of_type) for x in v] if isinstance(v,list) else [self.coerce_value(v,t.of_type)]
        if is_input_object_type(t):
            out={}
            for fn,f in t.fields.items():
                if fn in v: out[fn]=self.coerce_value(v[fn],f.type)
                elif f.default is not None: out[fn]=self.coerce_literal(f.default.literal,f.type,{})
            return out
        if is_enum_type(t): return t.values[v].value
        if t.name=='Float': return float(v)
        return v
    def coerce_literal(self, n, t, vars):
        if isinstance(n,VariableNode):
            return vars.get(n.name.value, MISSING)
        if is_non_null_type(t): return self.coerce_literal(n,t.of_type,vars)
        if isinstance(n,NullValueNode): return None
        if is_list_type(t):
            if isinstance(n,ListValueNode):
                out=[]
                for x in n.values:
                    v=self.coerce_literal(x,t.of_type,vars); out.append(None if v is MISSING else v)
                return out
            return [self.coerce_literal(n,t.of_type,vars)]
        if is_input_object_type(t):
            fn={f.name.value:f.value for f in n.fields}; out={}
            for name,f in t.fields.items():
                v = self.coerce_literal(fn[name],f.type,vars) if name in fn else MISSING
                if v is MISSING:
                    if f.default is not None: out[name]=self.coerce_literal(f.default.literal,f.type,{})
                else: out[name]=v
            return out
        if is_enum_type(t): return t.values[n.value].value
        if isinstance(n,IntValueNode): return float(n.value) if t.name=='Float' else (n.value if t.name=='ID' else int(n.value))
        if isinstance(n,FloatValueNode): return float(n.value)
        return n.value
    def arg_values(self, fdef, node):
        out={}; given={a.name.value:a.value for a in node.arguments or ()}
        for name,a in fdef.args.items():
            v = self.coerce_literal(given[name],a.type,self.vars) if name in given else MISSING
            if v is MISSING:
                if a.default is not None: out[name]=self.coerce_literal(a.default.literal,a.type,{})
                elif is_non_null_type(a.type): raise FieldError(None)
            else:
                if v is None and is_non_null_type(a.type): raise FieldError(None)
                out[name]=v
        return out
    # ---- collect
    def included(self, node):
        for d in node.directives or ():
            if d.name.value in('skip','include'):
                v=self.coerce_literal(d.arguments[0].value, GraphQLNonNull(GraphQLBoolean), self.vars)
                if d.name.value=='skip' and v: return False
                if d.name.value=='include' and not v: return False
        return True
    def applies(self, tc, obj):
        if tc is None: return True
        t=self.schema.type_map[tc.name.value]
        return t is obj or (is_abstract_type(t) and self.schema.is_sub_type(t,obj))
    def collect(self, obj, selsets):
        grouped={}; visited=set()
        def go(ss):
            for s in ss.selections:
                if not self.included(s): continue
                if isinstance(s,FieldNode): grouped.setdefault(s.alias.value if s.alias else s.name.value,[]).append(s)
                elif isinstance(s,InlineFragmentNode):
                    if self.applies(s.type_condition,obj): go(s.selection_set)
                else:
                    n=s.name.value
                    if n in visited: continue
                    visited.add(n); f=self.frags.get(n)
                    if f and self.applies(f.type_condition,obj): go(f.selection_set)
        for ss in selsets: go(ss)
        return grouped
    # ---- execute (all siblings executed; failure of a non-null child nulls the parent afterwards)
    def run(self):
        root_t=self.schema.get_root_type(self.op.operation)
        try: data=self.sel(root_t,self.root,[self.op.selection_set],[])
        except FieldError: data=None
        return data
    def sel(self, obj_t, src, selsets, path):
        out={}; failed=False
        for key,nodes in self.collect(obj_t,selsets).items():
            name=nodes[0].name.value
            if name=='__typename': out[key]=obj_t.name; continue
            fdef=obj_t.fields.get(name)
            if fdef is None: continue
            p=path+[key]
            try: out[key]=self.field(obj_t,fdef,src,nodes,p)
            except FieldError:
                if is_non_null_type(fdef.type): failed=True
                else: out[key]=None
        if failed: raise FieldError(path)
        return out
    def field(self, obj_t, fdef, src, nodes, path):
        try: args=self.arg_values(fdef,nodes[0])
        except FieldError: self.err(path,fdef.type); raise FieldError(path)
        self.calls.append((tuple(path),args))
        try:
            v=src.get(nodes[0].name.value) if isinstance(src,dict) else None
            if callable(v): v=v(path,args)
        except Exception:
            self.err(path,fdef.type); raise FieldError(path)
        return self.complete(fdef.type,nodes,v,path,top=True)
    def err(self,path,t): self.errors.append(tuple(path))
    def complete(self,t,nodes,v,path,top=False):
        if is_non_null_type(t):
            r=self.complete_nullable(t.of_type,nodes,v,path,inner_nn=True)
            return r
        try: return self.complete_nullable(t,nodes,v,path,inner_nn=False)
        except FieldError: 
            if top: raise     # field() caller decides by fdef.type
            return None
    def complete_nullable(self,t,nodes,v,path,inner_nn):
        if isinstance(v,Exception): self.err(path,t); raise FieldError(path)
        if v is None:
            if inner_nn: self.err(path,t); raise FieldError(path)
            return None
        if is_list_type(t):
            if not isinstance(v,(list,tuple)): self.err(path,t); raise FieldError(path)
            out=[]; failed=False
            for i,x in enumerate(v):
                it=t.of_type
                try: out.append(self.complete(it,nodes,x,path+[i],top=True))
                except FieldError:
                    if is_non_null_type(it): failed=True; out.append(None)
                    else: out.append(None)
            if failed: raise FieldError(path)
            return out
        if is_leaf_type(t):
            try:
                r=t.coerce_output_value(v)   # leaf domain is C16's business; reuse
            except Exception: self.err(path,t); raise FieldError(path)
            return r
        if is_abstract_type(t):
            tn=v.get('__typename') if isinstance(v,dict) else None
            ot=self.schema.type_map.get(tn) if isinstance(tn,str) else None
            if not is_object_type(ot) or not self.schema.is_sub_type(t,ot): self.err(path,t); raise FieldError(path)
            t=ot
        return self.sel(t,v,[n.selection_set for n in nodes if n.selection_set],path)

# ---------------- probe space
schema=build_schema('''
interface N { id: ID! name: String }
type A implements N { id: ID! name: String a: Int nn: Int! kids: [N!] nkids: [N] un: U arg(x: Int = 7, e: E, i: In): String self: A }
type B implements N { id: ID! name: String b: Int nn: Int! }
union U = A | B
enum E { X Y }
input In { p: Int = 3, q: [Int!] }
type Query { a: A n: N u: U as: [A!]! }
''')
def mkdata(fault):
    def boom(path,args): raise ValueError('boom')
    b={'__typename':'B','id':'b1','name':'bee','b':2,'nn':5}
    a2={'__typename':'A','id':'a2','name':'two','a':2,'nn':(None if fault=='nn2null' else 9),'kids':[],'nkids':[],'un':None,'self':None}
    a2['arg']=lambda path,args: json.dumps(args,sort_keys=True)
    a={'__typename':'A','id':'a1','name':(boom if fault=='nameboom' else 'one'),'a':('x' if fault=='leaf' else 1),'nn':(boom if fault=='nnboom' else 4),
       'kids':[b,a2],'nkids':[b,(None if fault!='badtype' else {'__typename':'Zed'}),a2],'un':b,'self':a2}
    a['arg']=lambda path,args: json.dumps(args,sort_keys=True)
    return {'a':a,'n':a,'u':(b if fault!='uboom' else boom),'as':[a,a2]}
sub_A=['id','name','nn','a','x: a','x: name','self { nn }','self { id nn }','kids { id }','kids { ... on A { nn } id }','nkids { name }','nkids { ... on A { nn } }','un { ... on B { b nn } }','un { __typename }','arg','arg(x: 1)','arg(x: $v)','arg(e: Y, i: {q: [1]})','arg(i: $i)','...F','... on N { name }','... on B { b }','name @skip(if: $s)','name @include(if: $s)','... @skip(if: $s) { a }']
def docs():
    for k in (1,2,3):
        for combo in itertools.permutations(sub_A,k) if k<3 else itertools.combinations(sub_A,3):
            yield 'query($v: Int, $s: Boolean = false, $i: In) { a { %s } as { nn } } fragment F on A { name y: a self { a } }' % ' '.join(combo)
varsets=[{}, {'v':5,'s':True,'i':{'q':[2]}}, {'v':None}]
faults=[None,'nameboom','nnboom','nn2null','leaf','badtype','uboom']
def resolver(src,info,**args):
    v=src.get(info.field_name) if isinstance(src,dict) else None
    if callable(v): return v(info.path.as_list(),args)
    return v
def nullpos(data,path):
    """deepest prefix of path that exists in data with value None -> that prefix; else None"""
    cur=data
    if cur is None: return ()
    for i,k in enumerate(path):
        try: cur=cur[k]
        except (KeyError,IndexError,TypeError): return 'MISSING'
        if cur is None: return tuple(path[:i+1])
    return 'NOTNULL'
t0=time.time(); n=0; bad=collections.Counter(); shown=0
for src in docs():
    doc=parse(src)
    for vs in varsets:
        for fault in faults:
            r=Ref(schema,doc,mkdata(fault),vs); exp=r.run()
            got=execute_sync(schema,doc,mkdata(fault),variable_values=vs,field_resolver=resolver)
            n+=1
            why=None
            if json.dumps(got.data)!=json.dumps(exp): why='data'
            else:
                gp=[tuple(e.path) for e in got.errors or []]
                if len(set(gp))!=len(gp): why='dup error path'
                elif not set(gp)<=set(r.errors): why='error not in ref'
                else:
                    # outermost null positions induced by reported errors == those induced by ref errors
                    def outer(paths):
                        ps={nullpos(exp,p) for p in paths}
                        return {p for p in ps if not any(q!=p and isinstance(q,tuple) and isinstance(p,tuple) and p[:len(q)]==q for q in ps)}
                    if outer(gp)!=outer(r.errors): why='null positions'
            if why:
                bad[why]+=1
                if shown<6: shown+=1; print(why,src[40:140],vs,fault,'\n   impl',json.dumps(got.data),[e.path for e in got.errors or []],'\n   ref ',json.dumps(exp),r.errors)
print(n,'executions',dict(bad),time.time()-t0)
