"""prototype: reference recursive visitor vs language.visit with scripted decision tables"""
import dataclasses, itertools, copy, typing, collections
from graphql import *
from graphql.language import visit, Visitor, SKIP, BREAK, REMOVE, IDLE, ParallelVisitor
from graphql.language import ast as A

def node_fields(node):
    """node-valued fields from dataclass fields (by runtime value)"""
    out=[]
    for f in dataclasses.fields(node):
        if f.name=='loc': continue
        v=getattr(node,f.name)
        if isinstance(v,A.Node) or (isinstance(v,tuple) and (len(v)==0 or all(isinstance(x,A.Node) for x in v)) and f.name not in ()):
            if isinstance(v,tuple) and len(v)==0:
                # empty tuple: only traversable if declared as node tuple; treat as traversable container (no nodes)
                out.append(f.name)
            else: out.append(f.name)
    return out

class Break(Exception): pass
MARK=('NON-NODE',)

def ref_visit(root, decide, keys_of):
    """decide(phase,node,idx)->action; returns (result, log). idx = preorder index of original nodes visited"""
    log=[]; counter=[0]
    def walk(node, key, parent, path, ancestors):
        # returns ('keep',node) | ('remove',) | ('replace', value)
        idx=counter[0]; counter[0]+=1
        log.append(('enter',node.kind,key,tuple(path),len(ancestors)))
        act=decide('enter',node,idx)
        edited=False
        if act is BREAK: raise Break
        if act is SKIP: return ('keep',node)
        if act is REMOVE: return ('remove',)
        if act is not None:
            if isinstance(act,A.Node): node=act; edited=True
            else: return ('replace',act)
        # children
        new_vals={}
        for fname in keys_of(node):
            v=getattr(node,fname,None)
            if v is None: continue
            if isinstance(v,tuple):
                anc2=ancestors+([parent] if parent is not None else [])
                items=[]; changed=False
                for i,ch in enumerate(v):
                    r=walk(ch,i,v,path+[fname,i],anc2+[node])
                    if r[0]=='keep':
                        items.append(r[1]); changed = changed or (r[1] is not ch)
                    elif r[0]=='remove': changed=True
                    else: items.append(r[1]); changed=True
                if changed: new_vals[fname]=tuple(items)
            else:
                anc2=ancestors+([parent] if parent is not None else [])
                r=walk(v,fname,node,path+[fname],anc2)
                if r[0]=='keep':
                    if r[1] is not v: new_vals[fname]=r[1]
                elif r[0]=='remove': new_vals[fname]=REMOVE
                else: new_vals[fname]=r[1]
        if new_vals:
            vals={f.name:getattr(node,f.name) for f in dataclasses.fields(node)}
            vals.update(new_vals); node=node.__class__(**vals); edited=True
        log.append(('leave',node.kind,key,tuple(path),len(ancestors)))
        act=decide('leave',node,idx)
        if act is BREAK: raise Break
        if act is REMOVE: return ('remove',)
        if act is not None and act is not SKIP: return ('replace',act)
        return ('keep',node)
    try:
        r=walk(root,None,None,[],[])
    except Break:
        return ('BREAK',None),log
    return r,log

class Scripted(Visitor):
    def __init__(self, table, clone):
        super().__init__(); self.table=table; self.log=[]; self.n=0; self.ids={}; self.clone=clone
    def enter(self,node,key,parent,path,ancestors):
        idx=self.n; self.n+=1; self.ids[id(node)]=idx
        self.log.append(('enter',node.kind,key,tuple(path),len(ancestors)))
        return self.act(self.table.get(('enter',idx)),node)
    def leave(self,node,key,parent,path,ancestors):
        self.log.append(('leave',node.kind,key,tuple(path),len(ancestors)))
        idx=self.ids.get(id(node))
        return self.act(self.table.get(('leave',idx)),node)
    def act(self,a,node):
        if a=='clone': return self.clone(node)
        if a=='mark': return MARK
        return a

def clone(node):
    return dataclasses.replace(node) if dataclasses.is_dataclass(node) else node

docs=['{ a }','{ a(x: [1, {k: $v}]) @d { b ... on T { c } ...F } }','query Q($v: Int = 1) { a }','fragment F on T { a }','type T implements I @d { f(a: Int = 1): [T!]! }']
keys=lambda n: A.QUERY_DOCUMENT_KEYS.get(n.kind,())
bad=0; total=0
for src in docs:
    doc=parse(src, no_location=True)
    # count nodes via ref idle
    r,log=ref_visit(doc, lambda *a: None, keys)
    nn=sum(1 for l in log if l[0]=='enter')
    for phase in ('enter','leave'):
        for idx in range(nn):
            for a in (SKIP,BREAK,REMOVE,'clone','mark'):
                table={(phase,idx):a}
                v=Scripted(table,clone)
                try:
                    got=visit(doc,v); gexc=None
                except Exception as e:
                    got=None; gexc=e
                ids={}
                def decide(ph,node,i,table=table):
                    x=table.get((ph,i))
                    if x=='clone': return clone(node)
                    if x=='mark': return MARK
                    return x
                # ref decide needs idx on leave equal to enter idx: handled by walk
                (kind,*val),rlog=ref_visit(doc,decide,keys)
                total+=1
                exp = doc if kind=='BREAK' else (val[0] if val else REMOVE)
                ok = gexc is None and v.log==rlog and (got==exp)
                if not ok:
                    bad+=1
                    if bad<=12: print('MISMATCH',src,phase,idx,a,'exc',repr(gexc),'logs eq',v.log==rlog, 'res eq', got==exp)
                    if bad<=3 and gexc is None and v.log!=rlog:
                        for x,y in itertools.zip_longest(v.log,rlog):
                            if x!=y: print('   impl',x,'ref',y); break
print(total,'bad',bad)
