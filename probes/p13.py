import itertools, copy, json
from graphql import *
from graphql.utilities import introspection_from_schema, build_client_schema, find_schema_changes
sdl = '''
"""S desc"""
schema { query: Q }
directive @d(a: Int = 1 @deprecated, b: String) repeatable on FIELD | OBJECT
scalar U @specifiedBy(url: "http://x")
enum E { A B @deprecated(reason: "r") }
input I { a: Int = 2, old: String @deprecated, n: I }
input O @oneOf { x: Int, y: String }
interface N { id: ID }
type T implements N { id: ID, f(x: I = {a: 3}, o: O, dep: Int @deprecated): [E!]! @deprecated }
union W = T
"""q"""
type Q { t: T, w: W, u: U }
'''
schema = build_schema(sdl)
names = ['descriptions','specified_by_url','directive_is_repeatable','schema_description','input_value_deprecation','experimental_directive_deprecation','one_of']
full = introspection_from_schema(schema, **{n: True for n in names})
def project(full, opts):
    r = copy.deepcopy(full)
    def walk(x, where):
        if isinstance(x, dict):
            # determine kind of object by keys
            if not opts['descriptions'] and 'description' in x: del x['description']
            if where == 'schema' and not opts['schema_description'] and 'description' in x: del x['description']
            if not opts['specified_by_url']: x.pop('specifiedByURL', None)
            if not opts['directive_is_repeatable']: x.pop('isRepeatable', None)
            if not opts['one_of']: x.pop('isOneOf', None)
            if where == 'directive' and not opts['experimental_directive_deprecation']:
                x.pop('isDeprecated', None); x.pop('deprecationReason', None)
            for k in ('args','inputFields'):
                if k in x and x[k] is not None and not opts['input_value_deprecation']:
                    x[k] = [a for a in x[k] if not a.get('isDeprecated')]
                    for a in x[k]: a.pop('isDeprecated', None); a.pop('deprecationReason', None)
            for k,v in list(x.items()):
                walk(v, 'directive' if k=='directives' else ('schema' if k=='__schema' else ('other' if k in ('types','args','fields','inputFields','enumValues') else where)))
        elif isinstance(x, list):
            for v in x: walk(v, where)
    walk(r, 'top')
    return r
bad=0
for bits in itertools.product([False,True], repeat=7):
    opts = dict(zip(names,bits))
    got = introspection_from_schema(schema, **opts)
    exp = project(full, opts)
    if got != exp:
        bad+=1
        if bad<4:
            print(opts)
            g=json.dumps(got,sort_keys=True); e=json.dumps(exp,sort_keys=True)
            i=next(i for i,(a,b) in enumerate(zip(g,e)) if a!=b); print(g[i-150:i+100]); print(e[i-150:i+100])
print('bad',bad)
c = build_client_schema(full)
print(print_schema(c)==print_schema(schema), find_schema_changes(schema,c), find_schema_changes(c,schema), introspection_from_schema(c)==full)
